"""C13 - grids and catchments through save/load, dictionary, clone, clip.

Space (each part crossed fully inside the stated alphabets):
  io    : shape x dtype (11) x value pattern (every rotation of the dtype's list of
          extreme cell values, so every extreme visits every cell) x nodata x geometry
          (small list) x source {Grid.save (BYTEORDER I), harness-written header +
          little-endian bytes, harness-written header + big-endian bytes (BYTEORDER M)}
          x route {from_header, from_stream, from_zip}; plus to_dict/from_dict and clone
          (with independence) on the same grids.
  geom  : shape x (cellsize, xll, yll) over the georeferencing alphabet (<= 2 deviations
          from (1, 0, 0) in quick, full cross in thorough) x 2 dtypes x the same operations.
  clip  : shape x resolvable geometry x dtype x every pair (lower-left cell, upper-right
          cell) x corner points {cell centre, centre -1/4 cell, centre +1/4 cell}.
  catch : every flow-direction grid over the 9 ESRI codes on small shapes x every outlet
          x inlet sets {None, [], singletons, pairs}; Catchment.from_dict(to_dict()).
Oracle: equality of the observable attributes (exact, bit level for cells); clip is
compared in exact rational arithmetic on the float64 georeferencing.

Size ladder (added; same oracles):
  io-ladder   : strips 1xN / Nx1 for every N of the ladder 7..1025 (thorough ..4097, 10001) and grids NxN, Nx(N+1)
          for N in 7..257 next to every power of two (thorough ..1025 and (N+1)xN); 2 dtypes per shape in rotation
          over all 11; cells by named pattern ("ramp": all neighbours differ, type extremes at first / middle /
          last cell, 64-bit integers beyond 2^53, NaN / -inf / -0.0 / max / subnormal for floats; "checker": two
          extremes alternating) x {save -> 3 load routes, harness-written BYTEORDER M -> from_header, harness-written
          BYTEORDER I -> from_stream, to_dict/from_dict, clone, clone(dtype), Catchment's copy} with independence
  clip-ladder : 25 shapes (7..1025 cells a side; thorough 4097) x 2 dtypes x 3 geometries x 11 structured boxes
          (whole grid, inner frame, corner cells, halves, window across the middle, all but the last row / column)
          x 3 corner offsets; the whole clipped window is compared with the parent window
  catch-ladder: flow grids converging on a sink (optionally with isolated pits = holes) of 16x16 .. 128x129 cells,
          1x1025, 257x1 (thorough 257x257, 300x301, 1x10001) x 3 sinks x 5 outlets x inlets {None, [], 1, 2, 3 cells}:
          delineated areas of up to 16512 cells through Catchment.to_dict / from_dict
Layouts (added, differential): on every ladder shape the ramp cells are handed to the public data setter as Fortran-
  ordered, strided, read-only, doubly reversed, big-endian, wider-dtype arrays and as a nested list; the grid, its
  clone and its save -> from_header copy must hold the bits obtained from the C-contiguous array of the grid's dtype.
"""
import itertools, math, os, shutil, tempfile, zipfile, io
from fractions import Fraction
import numpy as np

ID = "C13"
# computational entry points whose results are watched by the engine's retained-result oracle (mc/explore.py)
RETAIN = [('hydrodiy.gis.grid', 'Grid.clip'), ('hydrodiy.gis.grid', 'Grid.to_dict'), ('hydrodiy.gis.grid', 'Catchment.to_dict')]
RULE = ("nested enumeration: (io) shape x 11 dtypes x every rotation of the dtype's extreme-value "
        "list over the cells x nodata alphabet x geometry list x {save/I, raw header/I, raw header/M} "
        "x {from_header, from_stream, from_zip} + to_dict/from_dict + clone + clone independence; "
        "(geom) shape x georeferencing triples x 2 dtypes x the same operations; (clip) shape x "
        "resolvable geometry x dtype x every (lower-left, upper-right) cell pair x 3 corner offsets, "
        "compared in Fractions; (catch) every flow-direction grid over 9 codes x outlet x inlet set, "
        "dictionary round trip. One case = one operation on one grid/catchment. Non-trivial: io - "
        "itemsize > 1 for BYTEORDER M, always otherwise; clip - at least one cell compared; catch - "
        "the catchment was delineated. Cases are produced once each by nested loops over distinct "
        "coordinates (distinct by construction). SIZE LADDER: one unit per shape (1xN, Nx1 for the ladder 7..1025, "
        "NxN and Nx(N+1) for N in 7..257) x 2 dtypes (rotating over the 11) x {ramp, checker} cell patterns x 9 "
        "load / dict / clone operations; 25 clip shapes x 2 dtypes x 3 geometries x 11 structured boxes x 3 offsets "
        "(whole-window comparison); 8 flow-grid shapes x 3 sinks x pits x 5 outlets x 5 inlet sets for the catchment "
        "dictionary; LAYOUTS: 7 memory layouts / containers of the cells through the data setter on every ladder "
        "shape, followed by clone and save/from_header (differential).")
ASSUMPTIONS = [
    "cells are written into a grid with grid.data[...] = values (no conversion); the public data setter is exercised through clip",
    "BYTEORDER M rasters are written by the harness (header in the key/value layout Grid.save uses plus a NODATA line, cells as big-endian bytes): Grid cannot hold a non-native dtype; the loaded grid must hold the same values in the native dtype of the same kind and width",
    "identical georeferencing = float64 equality of cellsize, xllcorner, yllcorner; identical no-data = same numpy scalar type and same bits (NaN == NaN)",
    "grid name/comment are not compared (the header parser lower-cases them; the property does not mention them)",
    "dictionary round trip of a grid: metadata only (the property asks bit-identical cells for save/load and clone only)",
    "clip: judged on geometries where cell centres are resolvable in float64 (cellsize >= 2^-40 x the largest coordinate); a clipped cell centre 'coincides' with a parent centre when they differ by < cellsize/1000 in exact arithmetic; every parent cell whose centre lies in the closed clip box must be present in the clipped grid (meaning of 'clip'), extra cells are accepted",
    "catchment round trip compares outlet, inlets (None or the same integers in order), idxcells_area and idxcells_area_filled; flow-direction cell values are not part of the dictionary and not compared; catchments whose delineation raises are not judged",
    "temp files live in a per-unit directory and are removed after every case",
    "extension modules rebuilt from the working tree C sources; Cython wrapper C not re-translated",
    "size ladder: cells of large grids are generated from a named pattern (recorded in the case instead of the bit list); clip on large grids compares whole windows: when the clipped cell size equals the parent's (float64 equality) all clipped centres share one fractional offset from the parent centres, which is computed in Fractions for cell (0,0); a changed cell size is counted unjudged",
    "layout variants: the cells are given to the public data setter (grid.data = array) in another memory layout / container; values are converted only when exactly representable (wider dtype of the same kind); a nested list is judged only when numpy's own reading of the list reproduces the values (numpy reads a list that mixes small integers and integers >= 2^63 as float64); a layout the setter refuses with a Python exception is accepted and counted",
]
TECHNIQUE = ("bounded exhaustive enumeration of grid configurations executed on the real Grid/Catchment "
             "classes; round-trip/differential oracle with exact integer/bit comparison and Fraction geometry")

DTYPES = ["int8", "int16", "int32", "int64", "uint8", "uint16", "uint32", "uint64",
          "float16", "float32", "float64"]
ROUTES = ["from_header", "from_stream", "from_zip"]
SOURCES = ["save", "rawI", "rawM"]
CODES = [0, 1, 2, 4, 8, 16, 32, 64, 128]

SEED_INTS = [0x5A, 0x1234, 0x7B3C9, 0x3FFFFFFF]
SEED_FLOATS = [0.7, 3.3, 1e-3, 12345.678]
SEED_GEO = [0.7, 3.3, 1e-3, 12345.678]


# --------------------------------------------------------------------- alphabets
def udtype(dt):
    return np.dtype("u%d" % np.dtype(dt).itemsize)


def to_bits(values, dtname):
    """numpy array of dtype -> list of python ints (unsigned bit patterns)"""
    a = np.ascontiguousarray(values, dtype=np.dtype(dtname))
    return [int(v) for v in a.view(udtype(dtname)).ravel()]


def from_bits(bits, dtname, shape=None):
    a = np.array(bits, dtype=udtype(dtname)).view(np.dtype(dtname))
    return a if shape is None else a.reshape(shape)


def scalar_bits(x, dtname):
    return to_bits(np.array([x], dtype=np.dtype(dtname)), dtname)[0]


def extremes(dtname, seed):
    """list of bit patterns of the extreme cell values of a dtype"""
    dt = np.dtype(dtname)
    nb = dt.itemsize * 8
    mask = (1 << nb) - 1
    if dt.kind in "iu":
        ii = np.iinfo(dt)
        vals = [ii.min, ii.max, 0, 1, ii.max - 1, ii.min + 1]
        if dt.kind == "i":
            vals += [-1]
        if nb == 64:
            vals += [2 ** 53 + 1, 2 ** 62 + 1]
            if dt.kind == "i":
                vals += [-(2 ** 53 + 1)]
            else:
                vals += [2 ** 63, 2 ** 63 + 1025]
        vals.append(SEED_INTS[seed % 4] % (ii.max + 1))
        out = []
        for v in vals:
            b = v & mask
            if b not in out:
                out.append(b)
        return out
    fi = np.finfo(dt)
    vals = [fi.min, fi.max, 0.0, -0.0, -1.0, 1.0, fi.smallest_subnormal, -fi.smallest_subnormal,
            fi.smallest_normal, np.nan, np.inf, -np.inf, 0.1, SEED_FLOATS[seed % 4]]
    out = to_bits(np.array(vals, dtype=dt), dtname)
    # NaN with payload, signalling NaN pattern, negative NaN
    out += {2: [0x7e01, 0x7c01, 0xfe00], 4: [0x7fc00001, 0x7f800001, 0xffc00000],
            8: [0x7ff8000000000001, 0x7ff0000000000001, 0xfff8000000000000]}[dt.itemsize]
    res = []
    for b in out:
        if b not in res:
            res.append(b)
    return res


def nodata_alphabet(dtname):
    """-> list of (kind, bits)"""
    dt = np.dtype(dtname)
    if dt.kind == "i":
        ii = np.iinfo(dt)
        neg = -9999 if ii.min <= -9999 else ii.min
        vals = [("zero", 0), ("neg", neg), ("max", ii.max), ("min", ii.min)]
    elif dt.kind == "u":
        ii = np.iinfo(dt)
        vals = [("zero", 0), ("one", 1), ("max", ii.max)]
    else:
        fi = np.finfo(dt)
        vals = [("zero", 0.0), ("neg", -9999.0), ("nan", np.nan), ("max", fi.max), ("frac", 0.1), ("ninf", -np.inf)]
    out = []
    for k, v in vals:
        b = scalar_bits(v, dtname)
        if b not in [x[1] for x in out]:
            out.append((k, b))
    return out


def shapes(tier):
    s = [(1, 1), (1, 3), (2, 2), (3, 2)]
    if tier != "quick":
        s += [(3, 1), (1, 2), (4, 3), (2, 5), (7, 1)]
    return s


CELLSIZES = [1.0, 0.1, 1.0 / 3, 1e-7, 2.0 ** -20, 123456.789012345, 0.05, 5e-324, 1e300]
ORIGINS = [0.0, 1.0, 0.1, 1.0 / 3, 1e-7, -123456.789012345, 2.0 ** -20, 112.0, -44.5,
           1e300, -5e-324, 1.7976931348623157e308, -1.7976931348623157e308]


def geom_alphabet(seed):
    extra = SEED_GEO[seed % 4]
    return CELLSIZES + [extra], ORIGINS + [-extra], ORIGINS + [extra * 1000]


def geom_triples(tier, seed):
    cs, xs, ys = geom_alphabet(seed)
    if tier != "quick":
        return [(c, x, y) for c in cs for x in xs for y in ys]
    d = (1.0, 0.0, 0.0)
    out = [d]
    out += [(c, 0.0, 0.0) for c in cs if c != 1.0]
    out += [(1.0, x, 0.0) for x in xs if x != 0.0]
    out += [(1.0, 0.0, y) for y in ys if y != 0.0]
    out += [(c, x, 0.0) for c in cs if c != 1.0 for x in xs if x != 0.0]
    out += [(c, 0.0, y) for c in cs if c != 1.0 for y in ys if y != 0.0]
    out += [(1.0, x, y) for x in xs if x != 0.0 for y in ys if y != 0.0]
    return out


def io_geoms(seed):
    e = SEED_GEO[seed % 4]
    return [(1.0, 0.0, 0.0), (0.1, 1.0 / 3, -123456.789012345), (e, -e, 2.0 ** -20)]


def resolvable(csz, xll, yll, nrows, ncols):
    if not (csz > 0):
        return False
    m = max(abs(xll), abs(yll), abs(xll) + ncols * csz, abs(yll) + nrows * csz)
    if not math.isfinite(m) or not math.isfinite(csz):
        return False
    return csz >= m * 2.0 ** -40 and csz > 1e-300


def clip_geoms(full, seed):
    cs, xs, ys = geom_alphabet(seed)
    if not full:
        cs = [1.0, 0.1, 1.0 / 3, 2.0 ** -20, 123456.789012345, cs[-1]]
        xs = [0.0, 0.1, -123456.789012345, 112.0, xs[-1]]
        ys = [0.0, 1.0 / 3, -44.5, 2.0 ** -20, ys[-1]]
    return [(c, x, y) for c in cs for x in xs for y in ys]


# --------------------------------------------------------------------- units
def units(tier, seed):
    us = []
    for sh in shapes(tier):
        for dt in DTYPES:
            us.append({"kind": "io", "shape": list(sh), "dtype": dt, "tier": tier, "seed": seed})
    gt = geom_triples(tier, seed)
    nchunk = 6 if tier == "quick" else 24
    for sh in shapes("quick"):
        for dt in ("float64", "int16"):
            for k in range(nchunk):
                us.append({"kind": "geom", "shape": list(sh), "dtype": dt, "chunk": k, "nchunk": nchunk,
                           "tier": tier, "seed": seed})
    cshapes = [(1, 1), (1, 3), (2, 2), (3, 2)] + ([] if tier == "quick" else [(3, 1), (4, 3), (2, 5)])
    for sh in cshapes:
        for dt in DTYPES:
            us.append({"kind": "clip", "shape": list(sh), "dtype": dt, "full": False, "chunk": 0, "nchunk": 1,
                       "seed": seed})
    if tier != "quick":
        for sh in cshapes[:4]:
            for dt in ("float64", "int64"):
                for k in range(4):
                    us.append({"kind": "clip", "shape": list(sh), "dtype": dt, "full": True, "chunk": k,
                               "nchunk": 4, "seed": seed})
    # catchments: partition on the code of the first cell (and second for the larger shape)
    for c0 in CODES:
        us.append({"kind": "catch", "shape": [1, 3], "prefix": [c0], "inlets": "all"})
        for c1 in CODES:
            us.append({"kind": "catch", "shape": [2, 2], "prefix": [c0, c1], "inlets": "all"})
    if tier != "quick":
        for c0 in CODES:
            for c1 in CODES:
                us.append({"kind": "catch", "shape": [2, 3], "prefix": [c0, c1], "inlets": "few"})
    us.append({"kind": "catchring", "tier": tier})
    # size ladder
    for i, sh in enumerate(ladder_shapes(tier)):
        dts = [LADDER_DTYPES[(2 * i) % len(LADDER_DTYPES)], LADDER_DTYPES[(2 * i + 1) % len(LADDER_DTYPES)]]
        us.append({"kind": "io-ladder", "shape": list(sh), "dtypes": dts, "index": i, "seed": seed})
    for i, sh in enumerate(CLIP_LADDER + (CLIP_LADDER_THOROUGH if tier != "quick" else [])):
        dts = [LADDER_DTYPES[(3 * i) % len(LADDER_DTYPES)], LADDER_DTYPES[(3 * i + 4) % len(LADDER_DTYPES)]]
        us.append({"kind": "clip-ladder", "shape": list(sh), "dtypes": dts, "seed": seed})
    for sh in CATCH_LADDER + (CATCH_LADDER_THOROUGH if tier != "quick" else []):
        us.append({"kind": "catch-ladder", "shape": list(sh)})
    return us


def bound_text(tier, seed):
    cs, xs, ys = geom_alphabet(seed)
    return ("%s: shapes %s; 11 dtypes x all rotations of the extreme list (ints: min, max, 0, +-1, "
            "max-1, min+1, 2^53+1, 2^62+1, 2^63..; floats: min, max, +-0, +-1, +-subnormal, tiny, NaN "
            "(quiet, payload, signalling pattern, negative), +-inf, 0.1, seed extra) x nodata {0, -9999/min, "
            "max, NaN, 0.1, -inf as representable} x 3 geometries x {save/I, raw/I, raw/M} x 3 load routes "
            "+ dict + clone; geometry: %d cellsizes x %d x %d origins %s for float64/int16; clip: every "
            "corner-cell pair x 3 offsets on %s resolvable geometries; catchments: all 9^3 1x3 and 9^4 2x2 "
            "direction grids x every outlet x inlets {None, [], singles, pairs}%s; 3x3/4x4 ring catchments "
            "with holes, <= %d deviations; size ladder: io on %d shapes (1xN, Nx1, N in %s; NxN, Nx(N+1)%s, N in %s) x 2 dtypes "
            "x {ramp, checker} x 9 operations + 7 setter layouts; clip on %s x 2 dtypes x 3 geometries x 11 boxes x 3 offsets; "
            "catchment dictionaries of areas delineated on flow grids %s" % (
                tier, shapes(tier), len(cs), len(xs), len(ys),
                "(<= 2 deviations from (1,0,0))" if tier == "quick" else "(full cross)",
                ("%d" % len(clip_geoms(False, seed))) if tier == "quick" else
                ("%d (all dtypes, also shapes 3x1, 4x3, 2x5) and the full %d-triple cross (float64, int64) of" % (
                    len(clip_geoms(False, seed)), len(clip_geoms(True, seed)))),
                "" if tier == "quick" else "; all 9^6 2x3 grids x every outlet x inlets {None, [], one single}",
                1 if tier == "quick" else 2, len(ladder_shapes(tier)),
                LADDER + (LADDER_THOROUGH if tier != "quick" else []), "" if tier == "quick" else ", (N+1)xN",
                SQUARES + (SQUARES_THOROUGH if tier != "quick" else []),
                CLIP_LADDER + (CLIP_LADDER_THOROUGH if tier != "quick" else []),
                CATCH_LADDER + (CATCH_LADDER_THOROUGH if tier != "quick" else [])))


# --------------------------------------------------------------------- helpers
def same_scalar(a, b):
    """numpy scalars: same type and same bits"""
    try:
        ta, tb = np.dtype(type(a)), np.dtype(type(b))
    except TypeError:
        return False
    if ta != tb:
        return False
    return np.array([a]).tobytes() == np.array([b]).tobytes()


def fmt_cells(a):
    try:
        return np.array2string(np.asarray(a).ravel(), threshold=20, max_line_width=400)
    except Exception:
        return repr(a)


def make_grid(Grid, case):
    nr, nc = case["shape"]
    dt = np.dtype(case["dtype"])
    csz, xll, yll = case["geom"]
    nd = from_bits([case["nodata"]], case["dtype"])[0]
    g = Grid("Gr_A", nc, nr, cellsize=csz, xllcorner=xll, yllcorner=yll, dtype=dt.type, nodata=nd)
    if "bits" in case:
        cells = from_bits(case["bits"], case["dtype"], (nr, nc))
    else:
        cells = pattern_cells(case["pattern"], case["dtype"], nr, nc)      # size ladder: structured cells by name
    g.data[...] = cells
    return g, cells, nd


RAMP_MOD = {1: 127, 2: 32749, 4: 2147483629, 8: 2147483629}        # primes: never aligned with a row length


def pattern_cells(pattern, dtname, nr, nc):
    """structured cells of a large grid (deterministic, generated from the case instead of stored in it).
    ramp   : neighbours differ in every direction (a shifted / transposed / truncated raster shows), the type's
             extremes at the first, middle and last cells; 64-bit integers run beyond 2^53, floats hold a NaN,
             -inf and -0.0
    checker: two extreme values alternating (tie-rich)"""
    dt = np.dtype(dtname)
    n = nr * nc
    i = np.arange(n, dtype=np.int64)
    if dt.kind in "iu":
        ii = np.iinfo(dt)
        if pattern == "ramp":
            P = RAMP_MOD[dt.itemsize]
            v = (i * 7 + 3) % P
            if dt.itemsize == 8:
                v = v * (2 ** 31 + 11) + (2 ** 53 + 1)
            if dt.kind == "i":
                v = np.where(i % 3 == 1, -v, v)
            a = v.astype(dt)
            a[0], a[n // 2], a[-1] = ii.min, ii.max - 1, ii.max
        elif pattern == "checker":
            r, c = np.divmod(i, nc)
            a = np.where((r + c) % 2 == 0, np.array(ii.max, dtype=dt), np.array(ii.min + 1, dtype=dt)).astype(dt)
        else:
            raise ValueError(pattern)
    else:
        fi = np.finfo(dt)
        if pattern == "ramp":
            a = (((i * 7 + 3) % 1021) * 0.25 - 100.0).astype(dt)           # exact in float16
            a[0], a[n // 2], a[-1] = -0.0, np.nan, -np.inf
            if n > 4:
                a[1], a[n - 2] = fi.max, fi.smallest_subnormal
        elif pattern == "checker":
            r, c = np.divmod(i, nc)
            a = np.where((r + c) % 2 == 0, np.array(0.1, dtype=dt), np.array(fi.min, dtype=dt)).astype(dt)
        else:
            raise ValueError(pattern)
    return a.reshape(nr, nc)


def pixeltype(dt):
    return {"i": "SIGNEDINT", "u": "UNSIGNEDINT", "f": "FLOAT"}[dt.kind]


def num_text(x):
    """shortest text that reads back to the same value of that type"""
    if isinstance(x, (np.integer, int)):
        return str(int(x))
    if isinstance(x, np.floating):
        return str(x)
    return repr(float(x))


def write_raw(base, case, cells, nd, order):
    """header + raw bytes written by the harness; order in '<' '>'"""
    nr, nc = case["shape"]
    dt = np.dtype(case["dtype"])
    csz, xll, yll = case["geom"]
    lines = [("NROWS", nr), ("NCOLS", nc), ("XLLCORNER", repr(float(xll))), ("YLLCORNER", repr(float(yll))),
             ("CELLSIZE", repr(float(csz))), ("NBITS", dt.itemsize * 8), ("PIXELTYPE", pixeltype(dt)),
             ("BYTEORDER", "M" if order == ">" else "I"), ("NODATA", num_text(nd)),
             ("NAME", "Gr_A"), ("COMMENT", "No comment")]
    with open(base + ".hdr", "w") as fh:
        for k, v in lines:
            fh.write("{0:<14} {1}\n".format(k, v))
    raw = np.ascontiguousarray(cells).astype(dt.newbyteorder(order))
    with open(base + ".bil", "wb") as fb:
        fb.write(raw.tobytes())


def load_route(Grid, route, base):
    if route == "from_header":
        return Grid.from_header(base + ".hdr")
    if route == "from_stream":
        with open(base + ".hdr", "r") as fh:
            sh = io.StringIO(fh.read())
        with open(base + ".bil", "rb") as fd:
            return Grid.from_stream(sh, fd)
    if route == "from_zip":
        zp = base + ".zip"
        name = os.path.basename(base)
        # the archive also holds other rasters whose member names END with the requested ones (stored earlier, at
        # the root and in the folder) and one that starts with them; only the member asked for may be read
        decoy_hdr = "\n".join("{0:<14} {1}".format(k, v) for k, v in (
            ("BYTEORDER", "I"), ("LAYOUT", "BIL"), ("NROWS", 1), ("NCOLS", 1), ("NBANDS", 1), ("NBITS", 8),
            ("PIXELTYPE", "UNSIGNEDINT"), ("XLLCORNER", 77.0), ("YLLCORNER", -77.0), ("CELLSIZE", 9.0),
            ("NODATA", 0), ("NAME", "decoy"), ("COMMENT", "decoy"))) + "\n"
        with zipfile.ZipFile(zp, "w") as z:
            for pre in ("filled_", "sub/filled_", "sub/x"):
                z.writestr(pre + name + ".hdr", decoy_hdr)
                z.writestr(pre + name + ".bil", b"\x07")
            z.write(base + ".hdr", "sub/" + name + ".hdr")
            z.write(base + ".bil", "sub/" + name + ".bil")
            z.write(base + ".hdr", name + ".hdr")
            z.write(base + ".bil", name + ".bil")
            z.writestr("sub/" + name + ".hdr.bak", decoy_hdr)
        try:
            # asked for at the root of the archive for every second file name, in the folder otherwise
            return Grid.from_zip(zp, ("" if "[" in name else "sub/") + name + ".hdr")
        finally:
            os.remove(zp)
    raise ValueError(route)


def compare_meta(ctx, prefix, case, g2, nr, nc, csz, xll, yll, dt, nd, ndkind, kindkey=False):
    """shape, georeferencing, dtype, nodata; returns True when dtype is right"""
    ok = True
    try:
        shp = tuple(int(v) for v in g2.shape)
        dims = (int(g2.nrows), int(g2.ncols))
    except Exception as e:
        ctx.violation(prefix + ":shape", case, "shape unreadable: %r" % (e,))
        return False
    if shp != (nr, nc) or dims != (nr, nc):
        ctx.violation(prefix + ":shape", case, "shape %r / (nrows, ncols) %r, expected %r" % (shp, dims, (nr, nc)),
                      observed=list(shp), expected=[nr, nc])
    for name, exp in (("cellsize", csz), ("xllcorner", xll), ("yllcorner", yll)):
        obs = getattr(g2, name)
        if not (float(obs) == float(exp)):
            ctx.violation(prefix + ":" + name, case, "%s %r, expected %r" % (name, float(obs), float(exp)),
                          observed=repr(float(obs)), expected=repr(float(exp)))
    try:
        d2 = np.dtype(g2.dtype)
        dd = g2.data.dtype
    except Exception as e:
        ctx.violation(prefix + ":dtype", case, "dtype unreadable: %r" % (e,))
        return False
    if d2 != dt or dd != dt:
        ok = False
        ctx.violation(prefix + ":dtype", case, "grid dtype %s / data dtype %s, expected %s" % (d2, dd, dt),
                      observed=str(dd), expected=str(dt))
    if not same_scalar(g2.nodata, nd):
        ctx.violation(prefix + ":nodata" + (":kind=%s" % ndkind if kindkey else ""), case,
                      "nodata %r (%s), expected %r (%s)" % (g2.nodata, type(g2.nodata).__name__, nd, type(nd).__name__),
                      observed=repr(g2.nodata), expected=repr(nd))
    return ok


def compare_cells(ctx, key, case, g2, cells, what):
    dt = cells.dtype
    obs = np.asarray(g2.data)
    if obs.shape != cells.shape:
        return        # reported as shape
    if obs.dtype != dt:
        try:
            same = all(vals_equal(a, b) for a, b in zip(obs.ravel(), cells.ravel()))
        except Exception:
            same = False
    else:
        same = np.ascontiguousarray(obs).tobytes() == np.ascontiguousarray(cells).tobytes()
    if not same:
        ctx.violation(key, case, "%s: cells %s, expected %s (bits %s vs %s)" % (
            what, fmt_cells(obs), fmt_cells(cells),
            to_bits(obs, obs.dtype.name)[:12] if obs.dtype.kind in "iuf" else "?", to_bits(cells, dt.name)[:12]),
            observed=fmt_cells(obs), expected=fmt_cells(cells))


# --------------------------------------------------------------------- one io case
def check_io(ctx, Grid, case, tmpd):
    """case: kind io, shape, dtype, bits, nodata, ndkind, geom, op in
    {'load', 'dict', 'clone'}; load has source and route"""
    nr, nc = case["shape"]
    dt = np.dtype(case["dtype"])
    csz, xll, yll = case["geom"]
    op = case["op"]
    try:
        g, cells, nd = make_grid(Grid, case)
    except Exception as e:
        ctx.case(True)
        ctx.violation("grid.init:raised:%s" % type(e).__name__, case, "Grid(...) raised %r" % (e,))
        return
    ndkind = case.get("ndkind", "?")
    lsfx = ":size-ladder" if "pattern" in case else ""
    if op == "load":
        src, route = case["source"], case["route"]
        bo = "M" if src == "rawM" else "I"
        prefix = "grid.%s:byteorder=%s%s%s" % (route, bo, ":rawhdr" if src == "rawI" else "", lsfx)
        nt = (src != "rawM") or dt.itemsize > 1
        # file names: plain, and with brackets (as in hydrodiy's own AWRAL sub-grid rasters) for every second dtype
        base = os.path.join(tmpd, "Gr[1]_A" if DTYPES.index(case["dtype"]) % 2 else "Gr_A")
        try:
            try:
                if src == "save":
                    g.save(base + ".bil")
                else:
                    write_raw(base, case, cells, nd, ">" if src == "rawM" else "<")
            except Exception as e:
                ctx.case(nt)
                ctx.violation("grid.save:raised:%s" % type(e).__name__, case, "save raised %r" % (e,))
                return
            try:
                g2 = load_route(Grid, route, base)
            except Exception as e:
                ctx.case(nt)
                ctx.violation(prefix + ":raised:%s:nodata-kind=%s" % (type(e).__name__, ndkind), case,
                              "%s raised %r" % (route, e))
                return
        finally:
            for ext in (".bil", ".hdr", ".zip"):
                try:
                    os.remove(base + ext)
                except OSError:
                    pass
        ctx.case(nt, outcome=np.ascontiguousarray(g2.data).tobytes() + repr(g2.nodata).encode())
        ctx.count("io.%s.%s" % (src, route))
        # save route: the value is simply not written (one key); harness-written NODATA line: how it is parsed
        compare_meta(ctx, prefix, case, g2, nr, nc, csz, xll, yll, dt, nd, ndkind, kindkey=(src != "save"))
        compare_cells(ctx, prefix + ":values:dtype=%s" % dt.name, case, g2, cells, "after %s/%s" % (src, route))
        # the saved grid itself must not have changed
        if np.ascontiguousarray(g.data).tobytes() != cells.tobytes():
            ctx.violation("grid.save:source-changed", case, "saving changed the grid's own cells")
    elif op == "dict":
        prefix = "grid.to_dict/from_dict" + lsfx
        try:
            dic = g.to_dict()
            g2 = Grid.from_dict(dic)
        except Exception as e:
            ctx.case(True)
            ctx.violation(prefix + ":raised:%s" % type(e).__name__, case, "raised %r" % (e,))
            return
        ctx.case(True, outcome=repr(sorted((k, repr(v)) for k, v in dic.items())))
        ctx.count("io.dict")
        compare_meta(ctx, prefix, case, g2, nr, nc, csz, xll, yll, dt, nd, ndkind)
    elif op == "clone":
        how = case.get("how", "plain")
        if how == "catchment" and case["dtype"] != "int64":
            return          # a Catchment holds an int64 copy: identical cells only for int64 grids
        prefix = ("grid.clone" if how == "plain" else "grid.clone[%s]" % how) + lsfx

        def do_clone(gr):
            if how == "plain":
                return gr.clone()
            if how == "same-dtype":
                return gr.clone(gr.dtype)
            # the copy a Catchment takes of its flow direction grid (clone to int64)
            from hydrodiy.gis.grid import Catchment
            return Catchment("c", gr).flowdir
        try:
            g2 = do_clone(g)
        except Exception as e:
            ctx.case(True)
            ctx.violation(prefix + ":raised:%s" % type(e).__name__, case, "raised %r" % (e,))
            return
        ctx.case(True, outcome=np.ascontiguousarray(g2.data).tobytes())
        ctx.count("io.clone")
        compare_meta(ctx, prefix, case, g2, nr, nc, csz, xll, yll, dt, nd, ndkind)
        compare_cells(ctx, prefix + ":values:dtype=%s" % dt.name, case, g2, cells, "clone")
        # independence: change every cell of the clone, then of the original
        if "bits" in case:
            other = from_bits([b ^ 1 for b in case["bits"]], case["dtype"], (nr, nc))
        else:
            other = (np.ascontiguousarray(cells).view(udtype(case["dtype"])) ^ 1).view(dt).reshape(nr, nc)
        try:
            if np.shares_memory(g2.data, g.data):
                ctx.violation(prefix + ":not-independent:shared-memory", case, "clone shares cell memory with the original")
            g2.data[...] = other
            g2.xllcorner = g2.xllcorner + 1
            g2.nodata = from_bits([case["nodata"] ^ 1], case["dtype"])[0]
            if np.ascontiguousarray(g.data).tobytes() != cells.tobytes():
                ctx.violation(prefix + ":not-independent:clone->original", case,
                              "writing the clone's cells changed the original: %s" % fmt_cells(g.data))
            if not (float(g.xllcorner) == float(xll)) or not same_scalar(g.nodata, nd):
                ctx.violation(prefix + ":not-independent:clone->original:meta", case,
                              "changing the clone's xllcorner/nodata changed the original")
            g3 = do_clone(g)
            g.data[...] = other
            if np.ascontiguousarray(g3.data).tobytes() != cells.tobytes():
                ctx.violation(prefix + ":not-independent:original->clone", case,
                              "writing the original's cells changed the clone: %s" % fmt_cells(g3.data))
        except Exception as e:
            ctx.violation(prefix + ":independence:raised:%s" % type(e).__name__, case, "raised %r" % (e,))


def io_ops():
    ops = [{"op": "load", "source": s, "route": r} for s in SOURCES for r in ROUTES]
    ops += [{"op": "dict"}, {"op": "clone"}, {"op": "clone", "how": "same-dtype"}, {"op": "clone", "how": "catchment"}]
    return ops


def rotations(ext, ncell, tier):
    k = len(ext)
    pats = []
    for r in range(k):
        pats.append([ext[(i + r) % k] for i in range(ncell)])
    if tier != "quick":
        for r in range(k):          # reversed order: other neighbour pairs
            pats.append([ext[(r - 2 * i) % k] for i in range(ncell)])
    out = []
    for p in pats:
        if p not in out:
            out.append(p)
    return out


def run_io_unit(unit, ctx, tmpd):
    from hydrodiy.gis.grid import Grid
    nr, nc = unit["shape"]
    dtn = unit["dtype"]
    seed, tier = unit["seed"], unit["tier"]
    ext = extremes(dtn, seed)
    first = True
    for bits in rotations(ext, nr * nc, tier):
        for ndkind, ndbits in nodata_alphabet(dtn):
            for geom in io_geoms(seed):
                for op in io_ops():
                    case = dict({"kind": "io", "shape": [nr, nc], "dtype": dtn, "bits": bits, "nodata": ndbits,
                                 "ndkind": ndkind, "geom": list(geom)}, **op)
                    if first:
                        ctx.case(False, sample=case, n=0)
                        first = False
                    check_io(ctx, Grid, case, tmpd)


def run_geom_unit(unit, ctx, tmpd):
    from hydrodiy.gis.grid import Grid
    nr, nc = unit["shape"]
    dtn = unit["dtype"]
    seed, tier = unit["seed"], unit["tier"]
    ext = extremes(dtn, seed)
    bits = [ext[i % len(ext)] for i in range(nr * nc)]
    nds = nodata_alphabet(dtn)
    triples = geom_triples(tier, seed)
    first = True
    for gi, geom in enumerate(triples):
        if gi % unit["nchunk"] != unit["chunk"]:
            continue
        ndkind, ndbits = nds[gi % len(nds)]
        for op in io_ops():
            case = dict({"kind": "io", "shape": [nr, nc], "dtype": dtn, "bits": bits, "nodata": ndbits,
                         "ndkind": ndkind, "geom": list(geom)}, **op)
            if first:
                ctx.case(False, sample=case, n=0)
                first = False
            ctx.count("geom.cases")
            check_io(ctx, Grid, case, tmpd)


# --------------------------------------------------------------------- clip
OFFSETS = {"centre": Fraction(0), "minus": Fraction(-1, 4), "plus": Fraction(1, 4),
           # "ll-edge": the lower-left corner is put exactly on the lower-left cell's own left/bottom edge (half a cell
           # from its centre), the upper-right corner stays on a centre. Which of the two cells sharing that edge the
           # implementation starts from is its business (both demands below hold either way), but origin and
           # data window must agree with each other
           "ll-edge": Fraction(0)}


def exact_centre(xll, yll, csz, nrows, row, col):
    cx = Fraction(xll) + (Fraction(col) + Fraction(1, 2)) * Fraction(csz)
    cy = Fraction(yll) + (Fraction(nrows - 1 - row) + Fraction(1, 2)) * Fraction(csz)
    return cx, cy


def pyval(a):
    """numpy cell -> exact python value (int / float)"""
    return a.item()


def vals_equal(a, b):
    a, b = pyval(a), pyval(b)
    if isinstance(a, float) and isinstance(b, float):
        if math.isnan(a) and math.isnan(b):
            return True
        return a == b
    if isinstance(a, float) or isinstance(b, float):
        try:
            fa = Fraction(a) if not (isinstance(a, float) and not math.isfinite(a)) else None
            fb = Fraction(b) if not (isinstance(b, float) and not math.isfinite(b)) else None
        except (ValueError, OverflowError):
            return False
        return fa is not None and fa == fb
    return a == b


def check_clip(ctx, Grid, case):
    """case: kind clip, shape, dtype, bits, nodata, geom, ll [row, col], ur [row, col], offset"""
    nr, nc = case["shape"]
    dt = np.dtype(case["dtype"])
    csz, xll, yll = case["geom"]
    try:
        g, cells, nd = make_grid(Grid, case)
    except Exception as e:
        ctx.case(True)
        ctx.violation("grid.init:raised:%s" % type(e).__name__, case, "Grid(...) raised %r" % (e,))
        return
    (r0, c0), (r1, c1) = case["ll"], case["ur"]
    off = OFFSETS[case["offset"]] * Fraction(csz)
    ex0 = exact_centre(xll, yll, csz, nr, r0, c0)
    ex1 = exact_centre(xll, yll, csz, nr, r1, c1)
    pts = [float(ex0[0] + off), float(ex0[1] + off), float(ex1[0] + off), float(ex1[1] + off)]
    if case["offset"] == "ll-edge":
        if c0 == 0 or r0 == nr - 1:
            return                      # the corner would sit on the grid's outer boundary
        h = Fraction(csz) / 2
        pts = [float(ex0[0] - h), float(ex0[1] - h), float(ex1[0]), float(ex1[1])]
        ctx.count("clip.lower_left_corner_on_cell_edge")
    # the float corner points must still be well inside their cells (exact check)
    q = Fraction(csz) * Fraction(3, 8)
    for p, e in zip(pts, [ex0[0], ex0[1], ex1[0], ex1[1]]):
        if case["offset"] != "ll-edge" and abs(Fraction(p) - e) > q:
            ctx.count("unjudged.clip.corner_not_resolvable")
            return
    prefix = "grid.clip"
    try:
        g2 = g.clip(*pts)
    except Exception as e:
        ctx.case(True)
        ctx.violation(prefix + ":raised:%s" % type(e).__name__, case, "clip%r raised %r" % (tuple(pts), e))
        return
    if np.ascontiguousarray(g.data).tobytes() != cells.tobytes():
        ctx.violation(prefix + ":parent-changed", case, "clip changed the parent's cells")
    try:
        cz2, x2, y2 = float(g2.cellsize), float(g2.xllcorner), float(g2.yllcorner)
        d2 = np.asarray(g2.data)
        n2r, n2c = d2.shape
    except Exception as e:
        ctx.case(True)
        ctx.violation(prefix + ":result-unreadable", case, repr(e))
        return
    tol = Fraction(csz) / 1000
    matched = {}
    ncmp = 0
    bad = None
    if cz2 > 0 and math.isfinite(cz2) and math.isfinite(x2) and math.isfinite(y2):
        fx, fy, fc = Fraction(xll), Fraction(yll), Fraction(csz)
        for i in range(n2r):
            for j in range(n2c):
                cx, cy = exact_centre(x2, y2, cz2, n2r, i, j)
                jp = (cx - fx) / fc - Fraction(1, 2)
                ip = (cy - fy) / fc - Fraction(1, 2)
                jr, ir = round(jp), round(ip)
                if abs(jp - jr) * fc > tol or abs(ip - ir) * fc > tol:
                    ctx.count("unjudged.clip.centre_not_coinciding")
                    continue
                prow, pcol = nr - 1 - ir, jr
                if not (0 <= prow < nr and 0 <= pcol < nc):
                    ctx.count("unjudged.clip.cell_outside_parent")
                    continue
                matched[(prow, pcol)] = (i, j)
                ncmp += 1
                if not vals_equal(d2[i, j], cells[prow, pcol]) and bad is None:
                    bad = (i, j, prow, pcol)
    ctx.case(ncmp > 0, outcome=np.ascontiguousarray(d2).tobytes() + repr((n2r, n2c)).encode())
    ctx.count("clip.cells_compared", ncmp)
    if bad is not None:
        i, j, prow, pcol = bad
        ctx.violation(prefix + ":values:dtype=%s" % dt.name, case,
                      "clip%r: cell (%d,%d) = %r but the parent cell (%d,%d) with the same centre holds %r; clipped %s parent %s" % (
                          tuple(pts), i, j, pyval(d2[i, j]), prow, pcol, pyval(cells[prow, pcol]), fmt_cells(d2), fmt_cells(cells)),
                      observed=fmt_cells(d2), expected=fmt_cells(cells))
    # coverage of the box
    bx0, by0, bx1, by1 = [Fraction(p) for p in pts]
    missing = []
    for prow in range(nr):
        for pcol in range(nc):
            cx, cy = exact_centre(xll, yll, csz, nr, prow, pcol)
            if bx0 <= cx <= bx1 and by0 <= cy <= by1 and (prow, pcol) not in matched:
                missing.append([prow, pcol])
    if missing:
        ctx.violation(prefix + ":box-not-covered", case,
                      "clip%r: parent cells %r have their centre inside the box but no coinciding cell in the clipped grid "
                      "(shape %r, xll %r, yll %r, cellsize %r)" % (tuple(pts), missing, (n2r, n2c), x2, y2, cz2))
    if (n2r, n2c) != (r0 - r1 + 1, c1 - c0 + 1):
        ctx.count("unjudged.clip.shape_differs_from_cell_box")
    check_derived(ctx, Grid, g2, case, "clipped")


def check_derived(ctx, Grid, g2, case, what):
    """a grid produced by another operation (a clipped grid carries attributes describing its parent) goes through
    the dictionary, clone and save/load itself: shape, georeferencing, type, no-data and cells must be its own"""
    def meta(g):
        d = np.asarray(g.data)
        return (d.shape, float(g.cellsize), float(g.xllcorner), float(g.yllcorner), np.dtype(g.dtype).name, repr(g.nodata))

    def save_load():
        tmp = tempfile.mkdtemp(prefix="verif-c13d-")
        try:
            g2.save(os.path.join(tmp, "c.bil"))
            return Grid.from_header(os.path.join(tmp, "c.hdr"))
        finally:
            shutil.rmtree(tmp, ignore_errors=True)
    try:
        m2 = meta(g2)
        b2 = np.ascontiguousarray(g2.data).tobytes()
    except Exception:
        return
    for opname, fn, cells_too in (("to_dict/from_dict", lambda: Grid.from_dict(g2.to_dict()), False),
                                  ("clone", lambda: g2.clone(), True), ("save/from_header", save_load, True)):
        prefix = "grid.%s:of-%s-grid" % (opname, what)
        try:
            g3 = fn()
            m3 = meta(g3)
        except Exception as e:
            ctx.case(True)
            ctx.violation(prefix + ":raised:%s" % type(e).__name__, case, "%s of a %s grid raised %r" % (opname, what, e))
            continue
        ctx.case(True, outcome=repr(m3))
        ctx.count("derived.%s.%s" % (what, opname))
        if m3 != m2:
            ctx.violation(prefix + ":metadata", case,
                          "%s of a %s grid: (shape, cellsize, xll, yll, dtype, nodata) = %r, the %s grid itself has %r" % (
                              opname, what, m3, what, m2), observed=repr(m3), expected=repr(m2))
        elif cells_too and np.ascontiguousarray(g3.data).tobytes() != b2:
            ctx.violation(prefix + ":values", case, "%s of a %s grid does not hold the cells of that grid" % (opname, what))


def run_clip_unit(unit, ctx):
    from hydrodiy.gis.grid import Grid
    nr, nc = unit["shape"]
    dtn = unit["dtype"]
    seed = unit["seed"]
    ext = extremes(dtn, seed)
    nds = nodata_alphabet(dtn)
    first = True
    # neighbouring cells hold different values so that a misplaced window shows
    for gi, geom in enumerate(clip_geoms(unit["full"], seed)):
        if gi % unit["nchunk"] != unit["chunk"]:
            continue
        if not resolvable(geom[0], geom[1], geom[2], nr, nc):
            ctx.count("clip.geometry_unresolvable_skipped")
            continue
        rot = gi % len(ext)
        bits = [ext[(i + rot) % len(ext)] for i in range(nr * nc)]
        ndkind, ndbits = nds[gi % len(nds)]
        for r0 in range(nr):
            for r1 in range(r0 + 1):
                for c0 in range(nc):
                    for c1 in range(c0, nc):
                        for off in ("centre", "minus", "plus", "ll-edge"):
                            case = {"kind": "clip", "shape": [nr, nc], "dtype": dtn, "bits": bits,
                                    "nodata": ndbits, "ndkind": ndkind, "geom": list(geom),
                                    "ll": [r0, c0], "ur": [r1, c1], "offset": off}
                            if first:
                                ctx.case(False, sample=case, n=0)
                                first = False
                            check_clip(ctx, Grid, case)


# --------------------------------------------------------------------- catchments
def ints(x):
    return [int(v) for v in x]


def check_catch(ctx, gridmod, case):
    """case: kind catch, shape, codes, outlet, inlets (None or list)"""
    Grid, Catchment = gridmod.Grid, gridmod.Catchment
    nr, nc = case["shape"]
    fd = Grid("Fd", nc, nr, dtype=np.int64, cellsize=case.get("cellsize", 1.0),
              xllcorner=case.get("xll", 0.0), yllcorner=case.get("yll", 0.0))
    codes = case["codes"] if "codes" in case else flow_codes(nr, nc, case["flow"]["sink"], case["flow"]["pits"])
    fd.data[...] = np.array(codes, dtype=np.int64).reshape(nr, nc)
    ca = Catchment("Ca", fd)
    inlets = case["inlets"]
    try:
        ca.delineate_area(case["outlet"], inlets, nval=4 * nr * nc + 10)
    except ValueError:
        ctx.count("unjudged.catch.delineate_raised")
        return
    prefix = "catchment.from_dict"
    try:
        dic = ca.to_dict()
        c2 = Catchment.from_dict(dic)
    except Exception as e:
        ctx.case(True)
        ctx.violation(prefix + ":raised:%s" % type(e).__name__, case, "raised %r" % (e,))
        return
    try:
        area, filled = ints(ca.idxcells_area), ints(ca.idxcells_area_filled)
        out = (int(c2.idxcell_outlet), None if c2.idxinlets is None else ints(np.atleast_1d(c2.idxinlets)),
               ints(c2.idxcells_area), ints(c2.idxcells_area_filled))
    except Exception as e:
        ctx.case(True)
        ctx.violation(prefix + ":unreadable:%s" % type(e).__name__, case, "attributes of the rebuilt catchment: %r" % (e,))
        return
    ctx.case(True, outcome=repr(out))
    ctx.count("catch.inlets=%s" % ("None" if inlets is None else len(inlets)))
    if len(filled) > len(area):
        ctx.count("catch.area_with_holes")
    if len(area) > 1:
        ctx.count("catch.area_gt_1_cell")
    if len(area) > 256:
        ctx.count("catch.area_gt_256_cells")
    if out[0] != int(ca.idxcell_outlet):
        ctx.violation(prefix + ":outlet", case, "outlet %r, expected %r" % (out[0], int(ca.idxcell_outlet)))
    exp_in = None if ca.idxinlets is None else ints(np.atleast_1d(ca.idxinlets))
    if out[1] != exp_in:
        ctx.violation(prefix + ":inlets", case, "inlets of the rebuilt catchment %r, original %r (dictionary holds %r)" % (
            out[1], exp_in, dic.get("idxinlets")), observed=out[1], expected=exp_in)
    if out[2] != area:
        ctx.violation(prefix + ":area", case, "idxcells_area %r, expected %r" % (out[2], area))
    if out[3] != filled:
        ctx.violation(prefix + ":area_filled", case, "idxcells_area_filled %r, expected %r" % (out[3], filled))
    # flow-direction grid metadata
    f1, f2 = ca.flowdir, c2.flowdir
    if (tuple(f2.shape) != tuple(f1.shape) or float(f2.cellsize) != float(f1.cellsize)
            or float(f2.xllcorner) != float(f1.xllcorner) or float(f2.yllcorner) != float(f1.yllcorner)):
        ctx.violation(prefix + ":flowdir-geometry", case, "flow direction grid geometry differs after the round trip")


def inlet_sets(ncell, mode, outlet):
    out = [None, []]
    if mode == "all":
        out += [[i] for i in range(ncell)]
        out += [[i, j] for i in range(ncell) for j in range(i + 1, ncell)]
    else:
        out += [[(outlet + 1) % ncell]]
    return out


def run_catch_unit(unit, ctx):
    from hydrodiy.gis import grid as gridmod
    nr, nc = unit["shape"]
    n = nr * nc
    pre = unit["prefix"]
    first = True
    for rest in itertools.product(CODES, repeat=n - len(pre)):
        codes = list(pre) + list(rest)
        for outlet in range(n):
            for inl in inlet_sets(n, unit["inlets"], outlet):
                case = {"kind": "catch", "shape": [nr, nc], "codes": codes, "outlet": outlet, "inlets": inl}
                if first:
                    ctx.case(False, sample=case, n=0)
                    first = False
                check_catch(ctx, gridmod, case)


RING3 = [1, 1, 4,
         64, 0, 4,
         64, 16, 16]          # 3x3: the 8 border cells circle clockwise, centre is a sink
RING4 = [1, 1, 1, 4,
         64, 0, 0, 4,
         64, 0, 0, 4,
         64, 16, 16, 16]


def run_catchring_unit(unit, ctx):
    """ring-shaped areas (holes: filled area != area), <= k deviations in the codes"""
    from hydrodiy.gis import grid as gridmod
    kmax = 1 if unit["tier"] == "quick" else 2
    for (nr, nc, base) in ((3, 3, RING3), (4, 4, RING4)):
        n = nr * nc
        devs = [(i, c) for i in range(n) for c in CODES if c != base[i]]
        combos = [()] + [(d,) for d in devs]
        if kmax >= 2 and n <= 9:
            combos += list(itertools.combinations(devs, 2))
        for combo in combos:
            codes = list(base)
            for i, c in combo:
                codes[i] = c
            for outlet in range(n):
                for inl in (None, [], [(outlet + 1) % n], [(outlet + 2) % n, (outlet + 5) % n]):
                    case = {"kind": "catch", "shape": [nr, nc], "codes": codes, "outlet": outlet, "inlets": inl,
                            "cellsize": 0.05, "xll": 112.0, "yll": -44.5}
                    check_catch(ctx, gridmod, case)


# --------------------------------------------------------------------- size ladder
LADDER = [7, 8, 9, 15, 16, 17, 31, 32, 33, 63, 64, 65, 100, 127, 128, 129, 255, 256, 257, 500, 501, 511, 512, 513,
          1000, 1001, 1023, 1024, 1025]
LADDER_THOROUGH = [2047, 2048, 2049, 4095, 4096, 4097, 10001]
SQUARES = [7, 8, 9, 15, 16, 17, 31, 32, 33, 63, 64, 65, 127, 128, 129, 255, 256, 257]
SQUARES_THOROUGH = [511, 512, 513, 1023, 1024, 1025]
LADDER_DTYPES = ["float64", "int16", "uint8", "float32", "int64", "uint64", "int32", "float16", "int8", "uint16", "uint32"]
PATTERNS = ["ramp", "checker"]


def ladder_shapes(tier):
    """1xN and Nx1 strips (N up to 1025; thorough 10001), NxN and Nx(N+1) grids (N up to 257; thorough (N+1)xN and up to 1025)"""
    sh = []
    for n in LADDER + (LADDER_THOROUGH if tier != "quick" else []):
        sh += [(1, n), (n, 1)]
    for n in SQUARES + (SQUARES_THOROUGH if tier != "quick" else []):
        sh += [(n, n), (n, n + 1)]
        if tier != "quick":
            sh.append((n + 1, n))
    return sh


def ladder_ops():
    ops = [{"op": "load", "source": "save", "route": r} for r in ROUTES]
    ops += [{"op": "load", "source": "rawM", "route": "from_header"}, {"op": "load", "source": "rawI", "route": "from_stream"}]
    ops += [{"op": "dict"}, {"op": "clone"}, {"op": "clone", "how": "same-dtype"}, {"op": "clone", "how": "catchment"}]
    return ops


def _ro(a):
    a = a.copy()
    a.setflags(write=False)
    return a


def _strided(a):
    big = np.zeros((2 * a.shape[0] + 1, 2 * a.shape[1] + 1), dtype=a.dtype)
    big[1::2, 1::2] = a
    return big[1::2, 1::2]


def _wider(a):
    k = a.dtype.kind
    wide = {"i": np.int64, "u": np.uint64, "f": np.float64}[k]
    return a.astype(wide)


SETTER_LAYOUTS = [("fortran", np.asfortranarray), ("strided", _strided), ("readonly", _ro),
                  ("reversed-twice", lambda a: a[::-1, ::-1][::-1, ::-1]), ("bigendian", lambda a: a.astype(a.dtype.newbyteorder(">"))),
                  ("wider-dtype", _wider), ("nested-list", lambda a: a.tolist())]
SETTER_LAYOUTS_D = dict(SETTER_LAYOUTS)


def check_setter_layout(ctx, Grid, case, tmpd):
    """case: kind io-layout, shape, dtype, pattern, nodata, geom, layout.  The same cells given to the public data
    setter in another memory layout / container; the grid, its clone and its saved-and-loaded copy must hold the
    bits of the grid filled from the C-contiguous array of the grid's own dtype"""
    nr, nc = case["shape"]
    dt = np.dtype(case["dtype"])
    name = case["layout"]
    try:
        g, cells, nd = make_grid(Grid, case)
        g.data = np.ascontiguousarray(cells)
        ref = np.ascontiguousarray(g.data).tobytes()
    except Exception:
        ctx.count("layout.unjudged.reference_raised")
        return
    if name == "wider-dtype" and dt.itemsize == 8:
        ctx.count("layout.unjudged.wider-dtype.no_wider_type")
        return
    if name == "nested-list":
        # numpy's own reading of the nested list must reproduce the values (a list mixing small integers with
        # integers beyond 2^63 is read as float64 by numpy itself: what the grid then holds is not judged)
        with np.errstate(all="ignore"):
            back = np.asarray(cells.tolist())
            if back.dtype.kind != dt.kind or back.astype(dt).tobytes() != np.ascontiguousarray(cells).tobytes():
                ctx.count("layout.unjudged.nested-list.numpy_reads_other_values")
                return
    g2, _, _ = make_grid(Grid, dict(case, pattern="checker" if case["pattern"] == "ramp" else "ramp"))
    try:
        g2.data = SETTER_LAYOUTS_D[name](cells)
    except Exception:
        ctx.case(True)
        ctx.count("layout.rejected.data-setter.%s" % name)
        return
    ctx.case(True, outcome=np.ascontiguousarray(g2.data).tobytes()[:4096])
    ok = True
    if np.asarray(g2.data).dtype != dt or np.ascontiguousarray(g2.data).tobytes() != ref:
        ok = False
        ctx.violation("grid.data-setter:layout=%s" % name, case,
                      "cells set from a %s array: the grid holds %s (dtype %s), from the C-contiguous array %s" % (
                          name, fmt_cells(g2.data), np.asarray(g2.data).dtype, fmt_cells(cells)))
    base = os.path.join(tmpd, "Gr_L")
    try:
        try:
            g2.save(base + ".bil")
            g3 = Grid.from_header(base + ".hdr")
            g4 = g2.clone()
        finally:
            for ext in (".bil", ".hdr"):
                try:
                    os.remove(base + ext)
                except OSError:
                    pass
    except Exception as e:
        ctx.violation("grid.save/load:layout=%s:raised:%s" % (name, type(e).__name__), case, "raised %r" % (e,))
        return
    for what, gg in (("from_header", g3), ("clone", g4)):
        same = (tuple(gg.data.shape) == (nr, nc) and np.asarray(gg.data).dtype == dt
                and np.ascontiguousarray(gg.data).tobytes() == ref)
        if not same:
            ok = False
            ctx.violation("grid.%s:layout=%s:values" % (what, name), case,
                          "grid filled from a %s array, then %s: cells %s, expected %s" % (name, what, fmt_cells(gg.data), fmt_cells(cells)))
    if ok:
        ctx.count("layout.agree.%s" % name)


def run_io_ladder_unit(unit, ctx, tmpd):
    from hydrodiy.gis.grid import Grid
    nr, nc = unit["shape"]
    seed = unit["seed"]
    first = True
    for k, dtn in enumerate(unit["dtypes"]):
        nds = nodata_alphabet(dtn)
        geoms = io_geoms(seed)
        for pi, pattern in enumerate(PATTERNS):
            ndkind, ndbits = nds[(unit["index"] + k + pi) % len(nds)]
            geom = geoms[(unit["index"] + pi) % len(geoms)]
            base = {"kind": "io", "shape": [nr, nc], "dtype": dtn, "pattern": pattern, "nodata": ndbits,
                    "ndkind": ndkind, "geom": list(geom)}
            for op in ladder_ops():
                case = dict(base, **op)
                if first:
                    ctx.case(False, sample=case, n=0)
                    first = False
                ctx.count("ladder.io_cases")
                check_io(ctx, Grid, case, tmpd)
            if pattern == "ramp":
                for name, _ in SETTER_LAYOUTS:
                    check_setter_layout(ctx, Grid, dict(base, kind="io-layout", layout=name), tmpd)


# ---- clip on large grids: same meaning as check_clip, compared as whole windows
def clip_boxes(nr, nc):
    """structured (lower-left cell, upper-right cell) pairs: whole grid, inner frame, corner cells, halves, a window
    across the middle, a window ending next to the last row / column"""
    b = [((nr - 1, 0), (0, nc - 1)),
         ((max(nr - 2, 0), min(1, nc - 1)), (min(1, nr - 1), max(nc - 2, 0))),
         ((0, 0), (0, 0)), ((nr - 1, nc - 1), (nr - 1, nc - 1)), ((nr - 1, 0), (nr - 1, 0)),
         ((nr - 1, 0), (0, max(nc // 2 - 1, 0))), ((nr - 1, nc // 2), (0, nc - 1)),
         ((nr - 1, 0), (nr // 2, nc - 1)), ((max(nr // 2 - 1, 0), 0), (0, nc - 1)),
         ((min(nr - 1, nr // 2 + 1), max(nc // 2 - 1, 0)), (max(nr // 2 - 1, 0), min(nc - 1, nc // 2 + 1))),
         ((max(nr - 2, 0), 0), (0, max(nc - 2, 0)))]
    out = []
    for ll, ur in b:
        if ll[0] >= ur[0] and ll[1] <= ur[1] and (ll, ur) not in out:
            out.append((ll, ur))
    return out


def check_clip_big(ctx, Grid, case):
    """case: kind clip-big, shape, dtype, pattern, nodata, geom, ll [row, col], ur [row, col], offset.
    Same demands as check_clip; the comparison uses that all clipped centres share one fractional offset from the
    parent centres when the cell size is unchanged (exact Fractions for the first cell, array comparison for the rest)."""
    nr, nc = case["shape"]
    dt = np.dtype(case["dtype"])
    csz, xll, yll = case["geom"]
    try:
        g, cells, nd = make_grid(Grid, case)
    except Exception as e:
        ctx.case(True)
        ctx.violation("grid.init:raised:%s" % type(e).__name__, case, "Grid(...) raised %r" % (e,))
        return
    (r0, c0), (r1, c1) = case["ll"], case["ur"]
    off = OFFSETS[case["offset"]] * Fraction(csz)
    ex0 = exact_centre(xll, yll, csz, nr, r0, c0)
    ex1 = exact_centre(xll, yll, csz, nr, r1, c1)
    pts = [float(ex0[0] + off), float(ex0[1] + off), float(ex1[0] + off), float(ex1[1] + off)]
    if case["offset"] == "ll-edge":
        if c0 == 0 or r0 == nr - 1:
            return
        h = Fraction(csz) / 2
        pts = [float(ex0[0] - h), float(ex0[1] - h), float(ex1[0]), float(ex1[1])]
        ctx.count("clip.lower_left_corner_on_cell_edge")
    q = Fraction(csz) * Fraction(3, 8)
    for p, e in zip(pts, [ex0[0], ex0[1], ex1[0], ex1[1]]):
        if case["offset"] != "ll-edge" and abs(Fraction(p) - e) > q:
            ctx.count("unjudged.clip.corner_not_resolvable")
            return
    prefix = "grid.clip"
    sfx = ":size-ladder"
    try:
        g2 = g.clip(*pts)
    except Exception as e:
        ctx.case(True)
        ctx.violation(prefix + ":raised:%s" % type(e).__name__ + sfx, case, "clip%r raised %r" % (tuple(pts), e))
        return
    if np.ascontiguousarray(g.data).tobytes() != cells.tobytes():
        ctx.violation(prefix + ":parent-changed" + sfx, case, "clip changed the parent's cells")
    try:
        cz2, x2, y2 = float(g2.cellsize), float(g2.xllcorner), float(g2.yllcorner)
        d2 = np.asarray(g2.data)
        n2r, n2c = d2.shape
    except Exception as e:
        ctx.case(True)
        ctx.violation(prefix + ":result-unreadable" + sfx, case, repr(e))
        return
    tol = Fraction(csz) / 1000
    fx, fy, fc = Fraction(xll), Fraction(yll), Fraction(csz)
    mrows = mcols = range(0)          # parent rows / columns that have a coinciding clipped cell
    ncmp = 0
    bad = None
    if not (cz2 > 0 and math.isfinite(cz2) and math.isfinite(x2) and math.isfinite(y2)):
        pass
    elif Fraction(cz2) != fc:
        ctx.count("unjudged.clip.cellsize_changed")
    else:
        cx, cy = exact_centre(x2, y2, cz2, n2r, 0, 0)
        jp = (cx - fx) / fc - Fraction(1, 2)
        ip = (cy - fy) / fc - Fraction(1, 2)
        jr, ir = round(jp), round(ip)
        if abs(jp - jr) * fc > tol or abs(ip - ir) * fc > tol:
            ctx.count("unjudged.clip.centre_not_coinciding", n2r * n2c)
        else:
            prow0, pcol0 = nr - 1 - ir, jr          # parent row / column of clipped cell (0, 0)
            i_lo, i_hi = max(0, -prow0), min(n2r, nr - prow0)
            j_lo, j_hi = max(0, -pcol0), min(n2c, nc - pcol0)
            nout = n2r * n2c - max(0, i_hi - i_lo) * max(0, j_hi - j_lo)
            if nout:
                ctx.count("unjudged.clip.cell_outside_parent", nout)
            if i_hi > i_lo and j_hi > j_lo:
                a = d2[i_lo:i_hi, j_lo:j_hi]
                b = cells[prow0 + i_lo:prow0 + i_hi, pcol0 + j_lo:pcol0 + j_hi]
                mrows = range(prow0 + i_lo, prow0 + i_hi)
                mcols = range(pcol0 + j_lo, pcol0 + j_hi)
                ncmp = a.size
                if a.dtype == b.dtype:
                    ne = a != b
                    if dt.kind == "f":
                        ne &= ~(np.isnan(a) & np.isnan(b))
                    if ne.any():
                        i, j = [int(v[0]) for v in np.nonzero(ne)]
                        bad = (i + i_lo, j + j_lo, prow0 + i_lo + i, pcol0 + j_lo + j)
                else:
                    for (i, j), va in np.ndenumerate(a):
                        if not vals_equal(va, b[i, j]):
                            bad = (i + i_lo, j + j_lo, prow0 + i_lo + i, pcol0 + j_lo + j)
                            break
    ctx.case(ncmp > 0, outcome=np.ascontiguousarray(d2).tobytes()[:4096] + repr((n2r, n2c)).encode())
    ctx.count("clip.cells_compared", ncmp)
    ctx.count("ladder.clip_cases")
    if bad is not None:
        i, j, prow, pcol = bad
        ctx.violation(prefix + ":values:dtype=%s" % dt.name + sfx, case,
                      "clip%r of a %dx%d grid: cell (%d,%d) = %r but the parent cell (%d,%d) with the same centre holds %r" % (
                          tuple(pts), nr, nc, i, j, pyval(d2[i, j]), prow, pcol, pyval(cells[prow, pcol])),
                      observed=repr(pyval(d2[i, j])), expected=repr(pyval(cells[prow, pcol])))
    # coverage of the box: parent rows / columns whose centre lies in the closed box (exact, per axis)
    bx0, by0, bx1, by1 = [Fraction(p) for p in pts]
    cols_in = [j for j in range(max(0, c0 - 2), min(nc, c1 + 3))
               if bx0 <= fx + (Fraction(j) + Fraction(1, 2)) * fc <= bx1]
    rows_in = [i for i in range(max(0, r1 - 2), min(nr, r0 + 3))
               if by0 <= fy + (Fraction(nr - 1 - i) + Fraction(1, 2)) * fc <= by1]
    mr = [i for i in rows_in if i not in mrows]
    mc = [j for j in cols_in if j not in mcols]
    if rows_in and cols_in and (mr or mc):
        ctx.violation(prefix + ":box-not-covered" + sfx, case,
                      "clip%r of a %dx%d grid: parent rows %r / columns %r have their centres inside the box but no coinciding "
                      "cell in the clipped grid (shape %r, xll %r, yll %r, cellsize %r)" % (
                          tuple(pts), nr, nc, mr[:6], mc[:6], (n2r, n2c), x2, y2, cz2))
    if (n2r, n2c) != (r0 - r1 + 1, c1 - c0 + 1):
        ctx.count("unjudged.clip.shape_differs_from_cell_box")


CLIP_LADDER = [(1, 16), (17, 1), (1, 31), (33, 1), (1, 128), (129, 1), (1, 257), (256, 1), (1, 512), (513, 1),
               (1, 1025), (1024, 1), (7, 8), (9, 9), (16, 16), (17, 17), (31, 32), (33, 33), (64, 65), (65, 64),
               (127, 128), (129, 129), (256, 256), (257, 257), (255, 258)]
CLIP_LADDER_THOROUGH = [(1, 4097), (4096, 1), (512, 513), (1025, 1025), (33, 1000)]
CLIP_GEOMS = [(1.0, 0.0, 0.0), (0.1, 1.0 / 3, -123456.789012345), (2.0 ** -20, 112.0, -44.5)]


def run_clip_ladder_unit(unit, ctx):
    from hydrodiy.gis.grid import Grid
    nr, nc = unit["shape"]
    first = True
    for k, dtn in enumerate(unit["dtypes"]):
        nds = nodata_alphabet(dtn)
        for gi, geom in enumerate(CLIP_GEOMS):
            if not resolvable(geom[0], geom[1], geom[2], nr, nc):
                ctx.count("clip.geometry_unresolvable_skipped")
                continue
            ndkind, ndbits = nds[(gi + k) % len(nds)]
            pattern = PATTERNS[(gi + k) % 2] if gi else "ramp"
            for ll, ur in clip_boxes(nr, nc):
                for off in ("centre", "minus", "plus", "ll-edge"):
                    case = {"kind": "clip-big", "shape": [nr, nc], "dtype": dtn, "pattern": pattern, "nodata": ndbits,
                            "ndkind": ndkind, "geom": list(geom), "ll": list(ll), "ur": list(ur), "offset": off}
                    if first:
                        ctx.case(False, sample=case, n=0)
                        first = False
                    check_clip_big(ctx, Grid, case)


# ---- catchment dictionary round trip on larger delineated areas
def flow_codes(nr, nc, sink, pits):
    """flow directions converging on sink (row, col); pits get code 0"""
    from hydrodiy.gis.grid import FLOWDIRCODE
    r, c = np.meshgrid(np.arange(nr), np.arange(nc), indexing="ij")
    dr = np.sign(sink[0] - r)
    dc = np.sign(sink[1] - c)
    fd = np.asarray(FLOWDIRCODE)[1 + dr, 1 + dc].astype(np.int64)
    for p in pits:
        fd[p[0], p[1]] = 0
    return [int(v) for v in fd.ravel()]


CATCH_LADDER = [(16, 16), (17, 17), (33, 32), (64, 64), (65, 65), (128, 129), (1, 1025), (257, 1)]
CATCH_LADDER_THOROUGH = [(257, 257), (300, 301), (1, 10001)]


def run_catch_ladder_unit(unit, ctx):
    from hydrodiy.gis import grid as gridmod
    nr, nc = unit["shape"]
    n = nr * nc
    sinks = [(nr // 2, nc // 2), (nr - 1, 0), (0, nc - 1)]
    first = True
    for si, sink in enumerate(sinks):
        # pits: isolated cells (holes in the area when nr, nc >= 3: the filled area differs) and none
        pitsets = [[], [(max(sink[0] - 2, 0), max(sink[1] - 2, 0)), (min(sink[0] + 3, nr - 1), min(sink[1] + 1, nc - 1))]]
        for pits in pitsets:
            pits = [p for p in pits if p != sink]
            so = sink[0] * nc + sink[1]
            outlets = sorted(set([so, (so + 1) % n, (so + nc) % n, 0, n - 1]))
            for outlet in outlets:
                for inl in (None, [], [(outlet + 1) % n], [(outlet + 2) % n, (outlet + nc + 1) % n], [0, n - 1, n // 2]):
                    case = {"kind": "catch", "shape": [nr, nc], "flow": {"sink": list(sink), "pits": [list(p) for p in pits]},
                            "outlet": outlet, "inlets": inl, "cellsize": 0.05, "xll": 112.0, "yll": -44.5}
                    if first:
                        ctx.case(False, sample=case, n=0)
                        first = False
                    ctx.count("ladder.catch_cases")
                    check_catch(ctx, gridmod, case)


# --------------------------------------------------------------------- dispatch
def run_unit(unit, ctx):
    k = unit["kind"]
    if k in ("io", "geom"):
        tmpd = tempfile.mkdtemp(prefix="verif-c13-")
        try:
            if k == "io":
                run_io_unit(unit, ctx, tmpd)
            else:
                run_geom_unit(unit, ctx, tmpd)
        finally:
            shutil.rmtree(tmpd, ignore_errors=True)
    elif k == "clip":
        run_clip_unit(unit, ctx)
    elif k == "catch":
        run_catch_unit(unit, ctx)
    elif k == "catchring":
        run_catchring_unit(unit, ctx)
    elif k == "io-ladder":
        tmpd = tempfile.mkdtemp(prefix="verif-c13-")
        try:
            run_io_ladder_unit(unit, ctx, tmpd)
        finally:
            shutil.rmtree(tmpd, ignore_errors=True)
    elif k == "clip-ladder":
        run_clip_ladder_unit(unit, ctx)
    elif k == "catch-ladder":
        run_catch_ladder_unit(unit, ctx)


def replay(case):
    from mc.explore import Result
    from hydrodiy.gis import grid as gridmod
    ctx = Result()
    k = case["kind"]
    if k == "io":
        tmpd = tempfile.mkdtemp(prefix="verif-c13-")
        try:
            check_io(ctx, gridmod.Grid, case, tmpd)
        finally:
            shutil.rmtree(tmpd, ignore_errors=True)
    elif k == "io-layout":
        tmpd = tempfile.mkdtemp(prefix="verif-c13-")
        try:
            check_setter_layout(ctx, gridmod.Grid, case, tmpd)
        finally:
            shutil.rmtree(tmpd, ignore_errors=True)
    elif k == "clip":
        check_clip(ctx, gridmod.Grid, case)
    elif k == "clip-big":
        check_clip_big(ctx, gridmod.Grid, case)
    elif k == "catch":
        check_catch(ctx, gridmod, case)
    return [v for lst in ctx.violations.values() for v in lst]
