"""Shared machinery of C01 / C02 (hydrodiy.stat.transform).

* the enumerated configuration space: 13 classes x constructor options x
  parameter / constant lattice (every bound, the default, every branch value),
  deviation bounded (quick) or crossed fully (thorough);
* the x / y lattices per configuration;
* the independent reference model: textbook float64 formulas written from the
  literature (not from transform.py), the documented domain of each class, the
  conditioning region the property states, and the scope rule
  "reference round-trips 100x more accurately than the property demands".

Nothing in here looks at the implementation's output.
"""
import math, itertools
import numpy as np

SWITCH = 1e-10          # the branch switch the property names ("the 1e-10 switch")
LOGCOND = 13.8          # |lam * ln(x+nu)| <= 13.8
REF_RTOL = 1e-8         # reference must round-trip 100x better than ...
TOL = 1e-6              # ... the accuracy the property demands

CLASSES = ["Identity", "Logit", "Log", "BoxCox2", "BoxCox1lam", "BoxCox1nu",
           "BoxCox2sym", "YeoJohnson", "Reciprocal", "Softmax", "Sinh",
           "LogSinh", "Manly"]
FAMILY = ("BoxCox2", "BoxCox1lam", "BoxCox1nu", "BoxCox2sym")

SEED_MANT = [3.0, 1.7, 6.1, 2.3, 4.4, 8.9]
SEED_LAM = [0.5, 0.7, 1.5, -0.3, 2.5, -0.7]
SEED_SOFT = [5, 15, 25, 2, 35, 7]          # hundredths

# ---------------------------------------------------------------------------
# configuration space

OPTS = {
    "Log": [("mininu", 1e-10, [1e-10, 0.5]), ("base", None, [None, 2, 10])],
    "BoxCox2": [("mininu", 1e-10, [1e-10, 0.5]), ("minilam", 0.0, [0.0, -1.0])],
    "BoxCox1lam": [("mininu", 1e-10, [1e-10, 0.5]), ("minilam", 0.0, [0.0, -1.0])],
    "BoxCox1nu": [("mininu", 1e-10, [1e-10, 0.5]), ("minilam", 0.0, [0.0, -1.0])],
    "BoxCox2sym": [("mininu", 1e-10, [1e-10, 0.5]), ("minilam", 0.0, [0.0, -1.0])],
    "Reciprocal": [("mininu", 1e-10, [1e-10, 0.5])],
}

LAM_BRANCH = [-1.0, -0.5, 0.0, 1e-11, -1e-11, 1e-9, -1e-9, 0.2, 1.0, 2.0, 3.0]
LAM_YJ_EXTRA = [2 - 1e-9, 2 + 1e-9, 2 - 1e-4, 2 + 1e-4,
                # either side of where a numpy.isclose-style branch test (atol 1e-8, rtol 1e-5) switches near 0 and near 2
                5e-9, -5e-9, 2e-8, -2e-8, 2 - 1e-6, 2 + 1e-6, 2 - 1e-5, 2 + 1e-5, 2 - 1.9e-5, 2 + 1.9e-5, 2 - 2.2e-5, 2 + 2.2e-5]
LAM_THOROUGH = [-0.9, -0.1, -1e-3, 1e-3, 0.5, 1.5, 2.5]
LAM_MANLY = [-5.0, -1.0, -0.5, -1e-3, 0.0, 1e-11, -1e-11, 1e-10, 1e-9, -1e-9,
             1e-3, 0.1, 0.2, 1.0, 2.0, 3.0, 5.0]
NU_POS = [1e-3, 1.0, 100.0]
NU_POS_THOROUGH = [1e-6, 0.1, 10.0]
NU_LOC = [-100.0, -1.0, 0.0, 1e-3, 1.0, 100.0]
SCALE_YJ = [1e-5, 1e-2, 1.0, 50.0]
SCALE_SINH = [1e-10, 1e-5, 1e-2, 1.0, 50.0]
LOWER = [-5.0, 0.0, 7.0]
LOGDELTA = [-10.0, -1.0, 0.0, 3.0, 10.0]
LOGA = [-20.0, -5.0, -1.0, 0.0]
LOGB = [-5.0, -1.0, 0.0, 1.0, 5.0]
XMAX = [0.5, 1.0, 100.0]


def _uniq(vals):
    out = []
    for v in vals:
        if v not in out:
            out.append(v)
    return out


def _lam_lattice(lo, hi, tier, seed, extra=()):
    vals = [lo, hi] + list(LAM_BRANCH) + list(extra) + [SEED_LAM[seed % 6]]
    if tier != "quick":
        vals += LAM_THOROUGH + [SEED_LAM[(seed + 1) % 6]]
    return _uniq([float(v) for v in vals if lo <= v <= hi])


def _nu_lattice(mininu, tier):
    vals = [mininu] + NU_POS + (NU_POS_THOROUGH if tier != "quick" else [])
    return _uniq([float(v) for v in vals if v >= mininu])


def coords(cls, opts, tier, seed):
    """-> list of (name, kind, default, values) for the parameters / constants of
    cls under the constructor options opts."""
    mininu = opts.get("mininu", 1e-10)
    minilam = opts.get("minilam", 0.0)
    if cls in ("Identity", "Softmax"):
        return []
    if cls == "Logit":
        return [("lower", "param", 0.0, LOWER), ("logdelta", "param", 0.0, LOGDELTA)]
    if cls == "Log":
        return [("nu", "param", mininu, _nu_lattice(mininu, tier))]
    if cls in ("BoxCox2", "BoxCox2sym"):
        return [("nu", "param", mininu, _nu_lattice(mininu, tier)),
                ("lam", "param", 1.0, _lam_lattice(minilam, 3.0, tier, seed))]
    if cls == "BoxCox1lam":
        return [("lam", "param", 1.0, _lam_lattice(minilam, 3.0, tier, seed)),
                ("nu", "const", mininu, _nu_lattice(mininu, tier))]
    if cls == "BoxCox1nu":
        return [("nu", "param", mininu, _nu_lattice(mininu, tier)),
                ("lam", "const", 1.0, _lam_lattice(minilam, 3.0, tier, seed))]
    if cls == "YeoJohnson":
        return [("nu", "param", 0.0, NU_LOC), ("scale", "param", 1.0, SCALE_YJ),
                ("lam", "param", 1.0, _lam_lattice(-1.0, 3.0, tier, seed, LAM_YJ_EXTRA))]
    if cls == "LogSinh":
        return [("loga", "param", -1.0, LOGA), ("logb", "param", 0.0, LOGB),
                ("xmax", "const", 1.0, XMAX + ([1e-10, 1e4] if tier != "quick" else []))]
    if cls == "Reciprocal":
        return [("nu", "param", mininu, _nu_lattice(mininu, tier))]
    if cls == "Sinh":
        return [("nu", "param", 0.0, NU_LOC), ("scale", "param", 1.0, SCALE_SINH)]
    if cls == "Manly":
        lam = _uniq([float(v) for v in LAM_MANLY + [SEED_LAM[seed % 6]]
                     + (LAM_THOROUGH + [-3.0, 4.0] if tier != "quick" else [])])
        return [("lam", "param", 0.1, lam),
                ("xmax", "const", 1.0, XMAX + ([1e-10, 1e4] if tier != "quick" else []))]
    raise ValueError(cls)


def default_vals(cls, opts):
    return {c[0]: c[2] for c in coords(cls, opts, "quick", 0)}


def class_space(cls, tier, seed, maxdev=None):
    """All configurations of a class for a tier: list of dicts
    {cls, opts, vals, kinds, ndev}. quick: <= 3 coordinates (options + parameters
    + constants) differ from the default call; thorough: the full product."""
    if maxdev is None:
        maxdev = 3 if tier == "quick" else 99
    out = []
    olist = OPTS.get(cls, [])
    for ovals in itertools.product(*[o[2] for o in olist]):
        opts = {o[0]: v for o, v in zip(olist, ovals)}
        odev = sum(1 for o, v in zip(olist, ovals) if v != o[1])
        if odev > maxdev:
            continue
        cs = coords(cls, opts, tier, seed)
        for pvals in itertools.product(*[c[3] for c in cs]):
            ndev = odev + sum(1 for c, v in zip(cs, pvals) if v != c[2])
            if ndev > maxdev:
                continue
            out.append({"cls": cls, "opts": opts,
                        "vals": {c[0]: v for c, v in zip(cs, pvals)},
                        "kinds": {c[0]: c[1] for c in cs}, "ndev": ndev})
    return out


def pbranch(cfg):
    """Branch label of a configuration (goes into violation keys)."""
    cls, v, o = cfg["cls"], cfg["vals"], cfg["opts"]
    parts = []
    if "lam" in v:
        lam = v["lam"]
        if lam == 0:
            parts.append("lam=0")
        elif abs(lam) <= SWITCH:
            parts.append("0<|lam|<=1e-10")
        elif abs(lam) < 1e-3:
            parts.append("1e-10<|lam|<1e-3")
        elif cls == "YeoJohnson" and lam == 2:
            parts.append("lam=2")
        elif cls == "YeoJohnson" and abs(lam - 2) <= 1e-3:
            parts.append("0<|lam-2|<=1e-3")
        else:
            parts.append("lam<0" if lam < 0 else "lam>0")
    if cls == "Log":
        parts.append("base=%s" % o.get("base"))
    if cls == "Reciprocal" or (cls == "Log"):
        parts.append("mininu=%g" % o.get("mininu"))
    return ":".join([cls] + parts)


# ---------------------------------------------------------------------------
# constructing the transform through every public route

ROUTES = ["kw", "attr", "item", "values"]


def make(T, cfg, route="kw"):
    cls, opts, vals, kinds = cfg["cls"], cfg["opts"], cfg["vals"], cfg["kinds"]
    if route == "kw":
        kw = dict(opts)
        kw.update(vals)
        return T.get_transform(cls, **kw)
    t = getattr(T, cls)(**opts)
    set_values(t, cfg, route)
    return t


def set_values(t, cfg, route):
    vals, kinds = cfg["vals"], cfg["kinds"]
    if route == "attr":
        for k, v in vals.items():
            setattr(t, k, v)
    elif route == "item":
        for k, v in vals.items():
            t[k] = v
    elif route == "values":
        pn = [str(n) for n in t.params.names]
        cn = [str(n) for n in t.constants.names]
        if pn:
            t.params.values = [vals[n] for n in pn]
        if cn:
            t.constants.values = [vals[n] for n in cn]
    else:
        raise ValueError(route)


def used_object(T, cfg):
    """an instance that was set to the default configuration of the class and used
    (forward, backward, jacobian) before: exposes stale inner state"""
    dcfg = dict(cfg, vals=default_vals(cfg["cls"], cfg["opts"]))
    t = make(T, dcfg, "attr")
    for f, arg in ((t.forward, [0.25, 0.5]), (t.backward, [-0.5]), (t.jacobian, [0.25])):
        try:
            with np.errstate(all="ignore"):
                f(np.array(arg))
        except Exception:
            pass
    return t


def stored(t):
    d = {}
    for vec in (t.params, t.constants):
        for n, v in zip(vec.names, vec.values):
            d[str(n)] = float(v)
    return d


# ---------------------------------------------------------------------------
# reference model (textbook float64)

def P(cfg):
    p = dict(cfg["opts"])
    p.update(cfg["vals"])
    return p


def domain(cls, p, x):
    """documented domain of the class (float predicate on x and parameters)"""
    x = np.asarray(x, dtype=np.float64)
    if cls in ("Identity", "YeoJohnson", "Sinh", "Manly"):
        return np.isfinite(x)
    if cls == "Logit":
        # the class answers NaN (jacobian) within 1e-10 of either bound
        upper = p["lower"] + math.exp(p["logdelta"])
        return (x > p["lower"] + 1e-10) & (x < upper - 1e-10)
    if cls in ("Log", "BoxCox2", "BoxCox1lam", "BoxCox1nu"):
        return x + p["nu"] > p["mininu"]
    if cls == "BoxCox2sym":
        return np.abs(x) + p["nu"] > p["mininu"]
    if cls == "Reciprocal":
        return x > -p["nu"]
    if cls == "LogSinh":
        a, b = math.exp(p["loga"]), math.exp(p["logb"])
        return x / p["xmax"] > -a / b + 1e-10
    raise ValueError(cls)


def conditioned(cls, p, x):
    """the conditioning region the property states (True where nothing is stated)"""
    x = np.asarray(x, dtype=np.float64)
    with np.errstate(all="ignore"):
        if cls in FAMILY:
            z = np.abs(x) if cls == "BoxCox2sym" else x
            return np.abs(p["lam"] * np.log(z + p["nu"])) <= LOGCOND
        if cls == "YeoJohnson":
            w = p["nu"] + p["scale"] * x
            e = np.where(w >= 0, p["lam"] * np.log1p(np.abs(w)),
                         (2 - p["lam"]) * np.log1p(np.abs(w)))
            # far from the overflow edge: near a branch exponent the implementation may use the limiting log
            # form, whose pre-images exp(|y|) overflow slightly earlier than the power form's ("well conditioned")
            return (np.abs(e) <= LOGCOND) & (np.abs(w) <= 1e150) & (np.abs(x) <= 1e150)
        if cls == "LogSinh":
            a, b = math.exp(p["loga"]), math.exp(p["logb"])
            return a + b * x / p["xmax"] >= 1e-4
        if cls == "Manly":
            ok = (abs(p["lam"]) >= 1e-3) or (p["lam"] == 0)
            return np.full(x.shape, ok)
    return np.ones(x.shape, dtype=bool)


def _bc_fwd(z, lam):
    if abs(lam) <= SWITCH:
        return np.log(z)
    return (z ** lam - 1.0) / lam


def _bc_back(y, lam):
    if abs(lam) <= SWITCH:
        return np.exp(y)
    return (lam * y + 1.0) ** (1.0 / lam)


def ref_forward(cls, p, x):
    x = np.asarray(x, dtype=np.float64)
    with np.errstate(all="ignore"):
        if cls == "Identity":
            return x.copy()
        if cls == "Logit":
            v = (x - p["lower"]) / math.exp(p["logdelta"])
            return np.log(v / (1.0 - v))
        if cls == "Log":
            base = p.get("base")
            return np.log(x + p["nu"]) / (1.0 if base is None else math.log(base))
        if cls in ("BoxCox2", "BoxCox1lam", "BoxCox1nu"):
            return _bc_fwd(x + p["nu"], p["lam"])
        if cls == "BoxCox2sym":
            y0 = _bc_fwd(np.float64(p["nu"]), p["lam"])
            return np.sign(x) * (_bc_fwd(np.abs(x) + p["nu"], p["lam"]) - y0)
        if cls == "YeoJohnson":
            lam = p["lam"]
            w = p["nu"] + p["scale"] * x
            wp = np.where(w >= 0, w, 0.0)
            wn = np.where(w < 0, -w, 0.0)
            yp = _bc_fwd(wp + 1.0, lam)
            yn = -_bc_fwd(wn + 1.0, 2.0 - lam)
            return np.where(w >= 0, yp, yn)
        if cls == "LogSinh":
            a, b = math.exp(p["loga"]), math.exp(p["logb"])
            w = a + b * x / p["xmax"]
            small = np.log(np.sinh(np.minimum(w, 30.0)))
            big = w - math.log(2.0)
            return np.where(w < 30.0, small, big) / b
        if cls == "Reciprocal":
            return -1.0 / (x + p["nu"])
        if cls == "Sinh":
            return np.arcsinh((x - p["nu"]) * p["scale"])
        if cls == "Manly":
            u = x / p["xmax"]
            if p["lam"] == 0:
                return u
            return (np.exp(p["lam"] * u) - 1.0) / p["lam"]
    raise ValueError(cls)


def ref_backward(cls, p, y):
    y = np.asarray(y, dtype=np.float64)
    with np.errstate(all="ignore"):
        if cls == "Identity":
            return y.copy()
        if cls == "Logit":
            return p["lower"] + math.exp(p["logdelta"]) / (1.0 + np.exp(-y))
        if cls == "Log":
            base = p.get("base")
            return np.exp(y * (1.0 if base is None else math.log(base))) - p["nu"]
        if cls in ("BoxCox2", "BoxCox1lam", "BoxCox1nu"):
            return _bc_back(y, p["lam"]) - p["nu"]
        if cls == "BoxCox2sym":
            y0 = _bc_fwd(np.float64(p["nu"]), p["lam"])
            return np.sign(y) * (_bc_back(np.abs(y) + y0, p["lam"]) - p["nu"])
        if cls == "YeoJohnson":
            lam = p["lam"]
            ypos = np.where(y >= 0, y, 0.0)
            yneg = np.where(y < 0, -y, 0.0)
            wp = _bc_back(ypos, lam) - 1.0
            wn = -(_bc_back(yneg, 2.0 - lam) - 1.0)
            w = np.where(y >= 0, wp, wn)
            return (w - p["nu"]) / p["scale"]
        if cls == "LogSinh":
            a, b = math.exp(p["loga"]), math.exp(p["logb"])
            t = b * y
            w = np.where(t < 30.0, np.arcsinh(np.exp(np.minimum(t, 30.0))),
                         t + math.log(2.0))
            return p["xmax"] * (w - a) / b
        if cls == "Reciprocal":
            return np.where(y < 0, -1.0 / y - p["nu"], np.nan)
        if cls == "Sinh":
            return np.sinh(y) / p["scale"] + p["nu"]
        if cls == "Manly":
            if p["lam"] == 0:
                return p["xmax"] * y
            return p["xmax"] * np.log(1.0 + p["lam"] * y) / p["lam"]
    raise ValueError(cls)


def ref_jacobian(cls, p, x):
    """textbook derivative of forward (used for scope decisions only, never as the oracle)"""
    x = np.asarray(x, dtype=np.float64)
    with np.errstate(all="ignore"):
        if cls == "Identity":
            return np.ones(x.shape)
        if cls == "Logit":
            d = math.exp(p["logdelta"])
            v = (x - p["lower"]) / d
            return 1.0 / (d * v * (1.0 - v))
        if cls == "Log":
            base = p.get("base")
            return 1.0 / ((x + p["nu"]) * (1.0 if base is None else math.log(base)))
        if cls in ("BoxCox2", "BoxCox1lam", "BoxCox1nu"):
            return (x + p["nu"]) ** (p["lam"] - 1.0)
        if cls == "BoxCox2sym":
            return (np.abs(x) + p["nu"]) ** (p["lam"] - 1.0)
        if cls == "YeoJohnson":
            w = p["nu"] + p["scale"] * x
            return p["scale"] * np.where(w >= 0, (np.abs(w) + 1.0) ** (p["lam"] - 1.0),
                                         (np.abs(w) + 1.0) ** (1.0 - p["lam"]))
        if cls == "LogSinh":
            a, b = math.exp(p["loga"]), math.exp(p["logb"])
            return 1.0 / (p["xmax"] * np.tanh(a + b * x / p["xmax"]))
        if cls == "Reciprocal":
            return 1.0 / (x + p["nu"]) ** 2
        if cls == "Sinh":
            u = (x - p["nu"]) * p["scale"]
            return p["scale"] / np.sqrt(1.0 + u * u)
        if cls == "Manly":
            return np.exp(p["lam"] * x / p["xmax"]) / p["xmax"]
    raise ValueError(cls)


def _pw_mag(z, lam):
    if abs(lam) <= SWITCH:
        return np.abs(np.log(z)) + 1.0
    return (np.abs(z ** lam) + 1.0) / abs(lam)


def noise_mags(cls, p, x):
    """-> (fmag, xmag): magnitude of the largest intermediate of the textbook forward
    on the output side and (in x units) on the input side; the rounding noise of one
    forward evaluation is about eps * (fmag + |f'| * xmag)."""
    x = np.asarray(x, dtype=np.float64)
    ax = np.abs(x)
    with np.errstate(all="ignore"):
        y = np.abs(ref_forward(cls, p, x))
        if cls == "Identity":
            return ax, ax
        if cls == "Logit":
            return y + 1.0, np.maximum(ax, abs(p["lower"]))
        if cls == "Log":
            return y + 1.0, np.maximum(ax, p["nu"])
        if cls in ("BoxCox2", "BoxCox1lam", "BoxCox1nu"):
            return _pw_mag(x + p["nu"], p["lam"]), np.maximum(ax, p["nu"])
        if cls == "BoxCox2sym":
            return _pw_mag(ax + p["nu"], p["lam"]) + _pw_mag(np.float64(p["nu"]), p["lam"]), np.maximum(ax, p["nu"])
        if cls == "YeoJohnson":
            w = p["nu"] + p["scale"] * x
            m = np.where(w >= 0, _pw_mag(np.abs(w) + 1.0, p["lam"]), _pw_mag(np.abs(w) + 1.0, 2.0 - p["lam"]))
            return m, np.maximum(abs(p["nu"]), p["scale"] * ax) / p["scale"] + 1.0 / p["scale"]
        if cls == "LogSinh":
            a, b = math.exp(p["loga"]), math.exp(p["logb"])
            w = a + b * x / p["xmax"]
            return (np.abs(w) + y * b + 1.0) / b, np.maximum(a, b * ax / p["xmax"]) * p["xmax"] / b
        if cls == "Reciprocal":
            return y, np.maximum(ax, p["nu"])
        if cls == "Sinh":
            return y + 1.0, np.maximum(ax, abs(p["nu"]))
        if cls == "Manly":
            if p["lam"] == 0:
                return y, ax
            return (np.exp(p["lam"] * x / p["xmax"]) + 1.0) / abs(p["lam"]), ax
    raise ValueError(cls)


def xfloor(cls, p):
    """natural unit of x for the class: accuracy is relative to max(|x|, unit)
    (x enters the formulas as x+nu, (x-lower)/delta, nu+scale*x, a+b*x/xmax, x/xmax)"""
    if cls == "Logit":
        return math.exp(p["logdelta"])
    if cls in ("Log", "Reciprocal") or cls in FAMILY:
        return p["nu"]
    if cls == "YeoJohnson":
        return (1.0 + abs(p["nu"])) / p["scale"]
    if cls == "Sinh":
        return abs(p["nu"])
    if cls == "LogSinh":
        return p["xmax"] * math.exp(p["loga"] - p["logb"])
    if cls == "Manly":
        return p["xmax"]
    return 1.0


def yfloor(cls, p):
    if cls == "LogSinh":
        return math.exp(-p["logb"])
    return 1.0


def relscale(v, floor):
    """scale of the relative accuracy: max(|v|, natural unit of the class)"""
    return np.maximum(np.abs(np.asarray(v, dtype=np.float64)), floor)


def scope_x(cls, p, x):
    """-> (in_domain, in_scope, yref). Scope = domain & stated conditioning region
    & the textbook reference round-trips to 1e-8 (also with a 1-ulp
    perturbation of the intermediate value: inherent conditioning)."""
    x = np.asarray(x, dtype=np.float64)
    dom = domain(cls, p, x)
    cond = conditioned(cls, p, x)
    with np.errstate(all="ignore"):
        yref = ref_forward(cls, p, x)
        tol = REF_RTOL * relscale(x, xfloor(cls, p))
        ok = np.isfinite(yref)
        # the reference returns to x, also when its intermediate y moves by one ulp
        for yy in (yref, np.nextafter(yref, np.inf), np.nextafter(yref, -np.inf)):
            xb = ref_backward(cls, p, yy)
            ok &= np.isfinite(xb) & (np.abs(xb - x) <= tol)
    return dom, dom & cond & ok, yref


def scope_y(cls, p, y):
    """y is in scope when its reference pre-image is in the domain and in the
    conditioning region and the reference forward returns to y within 1e-8."""
    y = np.asarray(y, dtype=np.float64)
    with np.errstate(all="ignore"):
        xref = ref_backward(cls, p, y)
        fin = np.isfinite(xref)
        xs = np.where(fin, xref, 1.0)
        dom = fin & domain(cls, p, xs)
        cond = conditioned(cls, p, xs)
        tol = REF_RTOL * relscale(y, yfloor(cls, p))
        ok = fin.copy()
        for xx in (xs, np.nextafter(xs, np.inf), np.nextafter(xs, -np.inf)):
            yb = ref_forward(cls, p, xx)
            ok &= np.isfinite(yb) & (np.abs(yb - y) <= tol)
    return dom & cond & ok, xref


# ---------------------------------------------------------------------------
# lattices

def mantissas(tier, seed):
    if tier == "quick":
        return [1.0, SEED_MANT[seed % 6]]
    return _uniq([1.0, 1.25, 1.5, 2.0, 2.5, 3.0, 4.0, 5.0, 6.0, 7.0, 8.0, 9.0,
                  SEED_MANT[seed % 6], SEED_MANT[(seed + 1) % 6] + 0.05,
                  SEED_MANT[(seed + 2) % 6] + 0.11])


def general_lattice(tier, seed):
    pos = [m * 10.0 ** k for k in range(-6, 7) for m in mantissas(tier, seed)]
    return np.array(sorted(set([0.0] + pos + [-v for v in pos])), dtype=np.float64)


EDGE_T = [1e-12, 1e-9, 1e-6, 1e-3, 0.1]


def _edge(e, unit):
    """points either side of a domain edge / branch point e"""
    return [e] + [e + t * unit for t in EDGE_T] + [e - t * unit for t in EDGE_T]


def x_candidates(cfg, tier, seed):
    """sorted unique candidate points (inside and just outside the domain)"""
    cls, p = cfg["cls"], P(cfg)
    g = list(general_lattice(tier, seed))
    if cls == "Logit":
        lower, delta = p["lower"], math.exp(p["logdelta"])
        ks = range(1, 13)
        ms = [1.0] if tier == "quick" else [1.0, 2.0, 5.0]
        vs = [m * 10.0 ** -k for k in ks for m in ms]
        vs += [1.0 - v for v in vs]
        nlin = 16 if tier == "quick" else 128
        vs += [j / float(nlin) for j in range(1, nlin)]
        vs += [SEED_MANT[seed % 6] / 10.0]
        g += [lower + delta * v for v in vs] + _edge(lower, delta) + _edge(lower + delta, delta)
    elif cls in ("Log", "BoxCox2", "BoxCox1lam", "BoxCox1nu"):
        g += _edge(p["mininu"] - p["nu"], max(p["nu"], p["mininu"]))
    elif cls == "BoxCox2sym":
        g += _edge(0.0, max(p["nu"], p["mininu"]))
    elif cls == "Reciprocal":
        g += _edge(-p["nu"], p["nu"])
    elif cls == "YeoJohnson":
        g += _edge(-p["nu"] / p["scale"], 1.0 / p["scale"])
    elif cls == "Sinh":
        g += _edge(p["nu"], 1.0 / p["scale"])
    elif cls == "LogSinh":
        a, b = math.exp(p["loga"]), math.exp(p["logb"])
        e = p["xmax"] * (-a / b + 1e-10)
        g += _edge(e, p["xmax"] * a / b) + [p["xmax"], p["xmax"] / 0.3]
    elif cls == "Manly":
        g += [p["xmax"], p["xmax"] / 0.3]
    arr = np.array(sorted(set(float(v) for v in g)), dtype=np.float64)
    return arr[np.isfinite(arr)]


def y_candidates(cfg, tier, seed, yref_inscope):
    g = np.concatenate([general_lattice(tier, seed),
                        np.asarray(yref_inscope, dtype=np.float64)])
    g = g[np.isfinite(g)]
    return np.unique(g)


# ---------------------------------------------------------------------------
# Softmax

def softmax_alphabet(seed):
    return _uniq([1, 10, 20, 30, SEED_SOFT[seed % 6]])     # hundredths


def softmax_rows(d, seed):
    """all rows of dimension d over the alphabet whose exact sum is < 1"""
    A = softmax_alphabet(seed)
    rows = [r for r in itertools.product(A, repeat=d) if sum(r) < 100]
    rows = np.array(rows, dtype=np.float64) / 100.0
    # interior points with very small components (dyadic, so that the stencil steps stay exact): the product of
    # the components spans 2^-80 .. 2^-2
    small = [2.0 ** -20, 2.0 ** -12, 2.0 ** -4, 0.25]
    extra = [r for r in itertools.product(small, repeat=d) if sum(r) < 1.0 and min(r) < 2.0 ** -4]
    if extra:
        rows = np.vstack([rows, np.array(extra, dtype=np.float64)])
    return rows


def softmax_ygrid(d, tier):
    A = [-3.0, -1.0, 0.0, 1.0, 3.0] if tier == "quick" or d >= 4 else \
        [-6.0, -3.0, -1.0, 0.0, 0.5, 1.0, 3.0]
    return np.array(list(itertools.product(A, repeat=d)), dtype=np.float64)


def softmax_ref_forward(x):
    x = np.atleast_2d(x)
    s = np.sum(x, axis=1)[:, None]
    return np.log(x) - np.log(1.0 - s)


def softmax_ref_backward(y):
    y = np.atleast_2d(y)
    e = np.exp(y)
    return e / (1.0 + np.sum(e, axis=1)[:, None])


# ---------------------------------------------------------------------------
# units

def make_units(tier, seed, per_unit):
    us = []
    for cls in CLASSES:
        if cls == "Softmax":
            for d in ([1, 2, 3] if tier == "quick" else [1, 2, 3, 4]):
                us.append({"cls": cls, "d": d, "tier": tier, "seed": seed})
            continue
        n = len(class_space(cls, tier, seed))
        nch = max(1, int(math.ceil(n / float(per_unit))))
        for i in range(nch):
            us.append({"cls": cls, "chunk": i, "nchunks": nch, "tier": tier, "seed": seed})
    return us


def unit_configs(unit):
    cfgs = class_space(unit["cls"], unit["tier"], unit["seed"])
    return cfgs[unit["chunk"]::unit["nchunks"]]


def jcfg(cfg):
    """JSON-able copy of a configuration"""
    return {"cls": cfg["cls"], "opts": dict(cfg["opts"]), "vals": dict(cfg["vals"]),
            "kinds": dict(cfg["kinds"]), "ndev": cfg["ndev"]}


def fl(v):
    """float -> JSON-able"""
    v = float(v)
    if math.isnan(v):
        return None
    if math.isinf(v):
        return "inf" if v > 0 else "-inf"
    return v


# ---------------------------------------------------------------------------
# histories of one transform object (explicit enumeration, differential oracle)
#
# A transform object is used at configuration X (one call f1), one parameter or constant is then changed by
# name to reach configuration Y, and f2 is called.  The result of f2 must be, bit for bit, what a fresh object
# built at Y returns: nothing computed at X (an origin offset, a transformed censor, an intermediate kept from
# the last forward call) may survive the change.  The same array OBJECT is handed to f1 and f2 (refilled in
# place when f2 takes other values), f1 may also be made on ANOTHER object of the class (state shared at class
# or module level).

HIST_X = [-2.0, -0.3, -0.01, -1e-3, 0.0, 1e-3, 0.01, 0.25, 0.5, 0.9, 0.91, 1.0, 1.5, 3.0]
HIST_CENSORS = [0.0, 0.9]
HIST_ROUTES = ["attr", "item", "params-item", "values"]


def _few(vals, tier, default):
    vals = list(vals)
    if tier == "quick" and len(vals) > 5:
        step = max(1, (len(vals) - 1) // 3)
        vals = _uniq([vals[0]] + vals[step:-1:step] + [vals[-1]])
    return _uniq([default] + vals)


def history_pairs(cls, tier, seed):
    """(X vals, Y vals, changed name): default options; X = defaults with <= 1 deviation, Y = X with one
    coordinate moved to another lattice value"""
    opts = {o[0]: o[1] for o in OPTS.get(cls, [])}
    cs = coords(cls, opts, tier, seed)
    if not cs:
        return opts, {}, []
    kinds = {c[0]: c[1] for c in cs}
    dflt = {c[0]: c[2] for c in cs}
    lat = {c[0]: _few(c[3], tier, c[2]) for c in cs}
    xs = [dict(dflt)]
    for n in lat:
        for v in lat[n]:
            if v != dflt[n]:
                xs.append(dict(dflt, **{n: v}))
    out = []
    for X in xs:
        for n in lat:
            for v in lat[n]:
                if v != X[n]:
                    out.append((X, dict(X, **{n: v}), n))
    return opts, kinds, out


def _hist_set(t, name, value, kind, route):
    if route == "attr":
        setattr(t, name, value)
    elif route == "item":
        t[name] = value
    elif route == "params-item":
        (t.params if kind == "param" else t.constants)[name] = value
    elif route == "values":
        vec = t.params if kind == "param" else t.constants
        vals = np.array(vec.values, dtype=np.float64).copy()
        vals[[str(n) for n in vec.names].index(name)] = value
        vec.values = vals
    else:
        raise ValueError(route)


def _hist_call(t, fname, buf, censor):
    if fname == "params_sample":
        # called for its effect on the object only (it must have none)
        try:
            np.random.seed(20240517)
            t.params_sample(7)
        except Exception as e:
            return ("raise", type(e).__name__)
        return ("ok", b"")
    f = getattr(t, fname)
    try:
        with np.errstate(all="ignore"):
            out = f(buf, censor) if fname == "backward_censored" else f(buf)
        return ("ok", np.array(out, dtype=np.float64).tobytes())
    except Exception as e:
        return ("raise", type(e).__name__)


def history_sequence(T, cls, opts, kinds, X, Y, name, f1, f2, route, other, censor, buf=None):
    """-> (got, want) of f2 on the history object / on a fresh object at Y"""
    cfgX = {"cls": cls, "opts": opts, "vals": X, "kinds": kinds}
    cfgY = {"cls": cls, "opts": opts, "vals": Y, "kinds": kinds}
    xv = np.array(HIST_X)
    if buf is None:
        buf = xv.copy()
    fresh = make(T, cfgY, "kw")
    want = _hist_call(fresh, f2, xv.copy(), censor)
    h = make(T, cfgX, "attr")
    buf[...] = xv
    if other:
        _hist_call(make(T, cfgX, "attr"), f1, buf, censor)
    else:
        _hist_call(h, f1, buf, censor)
    _hist_set(h, name, Y[name], kinds[name], route)
    buf[...] = xv
    got = _hist_call(h, f2, buf, censor)
    return got, want


def history_cases(cls, tier, seed, funcs, f1s=None):
    opts, kinds, pairs = history_pairs(cls, tier, seed)
    for X, Y, name in pairs:
        for f1 in (funcs if f1s is None else f1s):
            for f2 in funcs:
                for route in HIST_ROUTES:
                    for other in (False, True):
                        if other and route != "attr":
                            continue
                        censors = HIST_CENSORS if "backward_censored" in (f1, f2) else [0.0]
                        for censor in censors:
                            yield opts, kinds, X, Y, name, f1, f2, route, other, censor


def run_history(ctx, T, cls, tier, seed, funcs, f1s=None):
    buf = np.array(HIST_X)
    n = 0
    for opts, kinds, X, Y, name, f1, f2, route, other, censor in history_cases(cls, tier, seed, funcs, f1s):
        got, want = history_sequence(T, cls, opts, kinds, X, Y, name, f1, f2, route, other, censor, buf)
        n += 1
        ctx.states += 2
        ctx.transitions += 3
        ctx.case(want[0] == "ok", outcome=hash((cls, f2, want)))
        if got != want:
            k = "%s:history:%s-after-%s:changed=%s(%s)%s" % (cls, f2, f1, name, kinds[name], ":other-object" if other else "")
            case = {"history": {"cls": cls, "opts": opts, "kinds": kinds, "X": X, "Y": Y, "name": name, "f1": f1, "f2": f2,
                                "route": route, "other": other, "censor": censor}, "key": k}
            if got[0] == "ok" and want[0] == "ok":
                g = np.frombuffer(got[1], dtype=np.float64)
                w = np.frombuffer(want[1], dtype=np.float64)
                i = int(np.nonzero(~((g == w) | (np.isnan(g) & np.isnan(w))))[0][0]) if g.shape == w.shape and len(g) else 0
                det = "at input %r: %r, a fresh object at the same configuration gives %r" % (
                    HIST_X[i] if i < len(HIST_X) else None, g[i] if len(g) > i else None, w[i] if len(w) > i else None)
            else:
                det = "%s, a fresh object %s" % (got[:2] if got[0] == "raise" else "returned", want[:2] if want[0] == "raise" else "returned")
            ctx.violation(k, case, "%s used at %r (%s%s), then %s set to %r through route %s: %s differs from a fresh object - %s" % (
                cls, X, f1, " on another object" if other else "", name, Y[name], route, f2, det))
    ctx.count("history.sequences", n)
    ctx.traces += n


def replay_history(T, case):
    from mc.explore import Result
    h = case["history"]
    ctx = Result()
    got, want = history_sequence(T, h["cls"], h["opts"], h["kinds"], h["X"], h["Y"], h["name"], h["f1"], h["f2"],
                                 h["route"], h["other"], h["censor"])
    if got != want:
        ctx.violation(case.get("key", "history"), case, "history replay: f2 on the used object differs from a fresh object")
    return [v for lst in ctx.violations.values() for v in lst]
