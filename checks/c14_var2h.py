"""C14 - var2h is the exact period average of the piecewise-linear interpolant.

Space: every non-decreasing k-tuple of time stamps from a lattice (duplicates and stamps on
period boundaries included) spanning >= 2 periods x every value vector over {0,1,2.5,-1,NaN}
(k<=3; k=4,5 with bounded deviations from a valid base) x period {1800,3600} x rainfall x
maxgapsec {3600,7200,432000}; exact Fraction oracle.  Index unit / time zone / start offset
variants on a subset with a differential oracle (same values as the naive ns run) plus the
exact oracle for offsets.
"""
import itertools, math, datetime
from fractions import Fraction
import numpy as np
import pandas as pd

ID = "C14"
# computational entry points whose results are watched by the engine's retained-result oracle (mc/explore.py)
RETAIN = [('hydrodiy.data.dutils', 'var2h')]
SUPERVISED = True
CASE_TIMEOUT = 60.0
RULE = ("every non-decreasing k-tuple of integer-second stamps on a 900 s lattice over 3 h (k=2..4 quick, ..5 thorough; "
        "600 s lattice over 4 h added in thorough) spanning >= 2 periods x value vectors over {0,1,2.5,-1,NaN} (all for k<=3, "
        "<=1 (quick) / <=2 (thorough) deviations from valid base vectors for k>=4) x period {1800,3600} x rainfall {F,T} x "
        "maxgapsec {3600,7200,432000}, run through dutils.var2h on a naive ns index and compared with an exact Fraction "
        "integration of the interpolant per output period; plus index unit {s,ms,us,ns,date_range default} x tz {naive,UTC,"
        "+10:00,Australia/Brisbane} x start offsets {0,+1s,-1s} on a subset (differential: same values as the naive ns run). "
        "A case is one var2h call; non-trivial = at least one judged output period. Cases are generated once each.")
ASSUMPTIONS = [
    "the final output period is unconstrained (as the property states)",
    "an interval that merely touches a period boundary or has zero length leaves the period unconstrained when it is invalid",
    "a period not fully covered by observations has no defined average: any non-missing value is a violation",
    "negative means < -1e-8 (kernel tolerance); alphabet values are far from that threshold",
    "tz-aware indexes are compared on local wall-clock time: the result for an aware index must be the result for the naive index with the same wall-clock stamps, also for zones whose clocks change during the series (Australia/Sydney forward and back, America/New_York forward; stamps inside the skipped / repeated hour cannot be expressed and are left out)",
]
T0 = 978307200          # 2001-01-01 00:00:00 UTC, on the hour
VALS = [0.0, 1.0, 2.5, -1.0, float("nan")]
GAPS = [3600, 7200, 432000]
GAPS_ODD = [5000, 10000]      # not multiples of the period: the limit must be compared in seconds


def bound_text(tier, seed):
    return "quick: k<=3 full on the 900 s lattice (maxgapsec {3600,432000} for k=3), k=4 on the 1800 s lattice with <=1 value deviation; thorough: k<=4 full on 900 s lattice, k=5 <=2 deviations, k<=3 full on the 600 s/4 h lattice"


def tuples(lattice, k, minspan):
    for t in itertools.combinations_with_replacement(lattice, k):
        if t[-1] - t[0] >= minspan:
            yield t


def units(tier, seed):
    us = []
    lat900 = list(range(0, 10801, 900))
    # partition by first two stamps
    for k in (2, 3, 4) if tier == "quick" else (2, 3, 4, 5):
        for s0 in lat900:
            if tier == "quick" and k == 4 and s0 % 1800:
                continue
            us.append({"kind": "main", "lattice": [1800 if (tier == "quick" and k == 4) else 900, 10800], "k": k, "s0": s0,
                       "gaps": [3600, 432000] if (tier == "quick" and k >= 3) else GAPS,
                       "valmode": "full" if (k <= 3 or (k == 4 and tier != "quick")) else ("dev1" if tier == "quick" else "dev2"),
                       "seed": seed})
    if tier != "quick":
        lat600 = list(range(0, 14401, 600))
        for k in (2, 3):
            for s0 in lat600:
                us.append({"kind": "main", "lattice": [600, 14400], "k": k, "s0": s0, "valmode": "full", "seed": seed})
    split = []
    for u in us:
        if u["k"] >= 3:
            step, top = u["lattice"]
            for s1 in range(u["s0"], top + 1, step):
                split.append(dict(u, s1=s1))
        else:
            split.append(u)
    us = split
    # maxgapsec that is not a multiple of the period, all k=2,3 tuples with valid values
    for k in (2, 3):
        for s0 in lat900:
            us.append({"kind": "main", "lattice": [900, 10800], "k": k, "s0": s0, "valmode": "valid", "gaps": GAPS_ODD, "seed": seed})
    # size ladder: number of observations around powers of two, regular and irregular spacing
    ladder = [7, 8, 9, 15, 16, 17, 31, 32, 33, 63, 64, 65, 127, 128, 129, 255, 256, 257] + \
        ([] if tier == "quick" else [511, 512, 513, 1023, 1024, 1025])
    for k in ladder:
        us.append({"kind": "ladder", "k": k, "seed": seed})
    # long spans: the period index times the period length crosses 2**31 after 68 years of half-hours
    us.append({"kind": "longspan", "years": 71, "P": 1800, "rainfall": 0})
    us.append({"kind": "longspan", "years": 71, "P": 1800, "rainfall": 1})
    us.append({"kind": "longspan", "years": 71, "P": 3600, "rainfall": 0})
    for off in (0, 1, -1, 1799, 3599):
        us.append({"kind": "variants", "offset": off, "tier": tier, "seed": seed})
    return us


def value_vectors(k, mode, seed):
    if mode == "full":
        for v in itertools.product(VALS, repeat=k):
            yield list(v)
        return
    if mode == "valid":
        for v in itertools.product([0.0, 1.0, 2.5], repeat=k):
            yield list(v)
        return
    bases = [[1.0, 2.5, 0.0, 1.0, 2.5][:k], [2.5] * k]
    maxdev = 1 if mode == "dev1" else 2
    seen = set()
    for b in bases:
        combos = [()]
        pos = [(i, v) for i in range(k) for v in VALS]
        combos += [(p,) for p in pos]
        if maxdev >= 2:
            combos += [c for c in itertools.combinations(pos, 2) if c[0][0] != c[1][0]]
        for c in combos:
            w = list(b)
            for i, v in c:
                w[i] = v
            key = tuple(None if math.isnan(x) else x for x in w)
            if key in seen:
                continue
            seen.add(key)
            yield w


def oracle(stamps, vals, P, rainfall, G):
    """-> (nvalh, hs, list per output period of ('nan'|'val'|'any', Fraction or None, reason))"""
    s0, sl = stamps[0], stamps[-1]
    hs = (s0 // 3600) * 3600 + 3600
    nvalh = int((sl - s0) // P) if (sl - s0) >= 0 else 0
    out = []
    k = len(stamps)

    def invalid(j):
        v1, v2 = vals[j], vals[j + 1]
        return (math.isnan(v1) or math.isnan(v2) or v1 < 0 or v2 < 0 or (stamps[j + 1] - stamps[j]) > G)

    for i in range(nvalh):
        a, b = hs + i * P, hs + (i + 1) * P
        if i == nvalh - 1:
            out.append(("any", None, "final period"))
            continue
        covered = (s0 <= a and sl >= b)
        pos_invalid = False
        touch_invalid = False
        total = Fraction(0)
        for j in range(k - 1):
            t1, t2 = stamps[j], stamps[j + 1]
            lo, hi = max(t1, a), min(t2, b)
            if hi - lo > 0:
                if invalid(j):
                    pos_invalid = True
                else:
                    v1, v2 = Fraction(vals[j]), Fraction(vals[j + 1])
                    if rainfall:
                        total += v2 * Fraction(hi - lo, t2 - t1)
                    else:
                        sl_ = (v2 - v1) / (t2 - t1)
                        y1 = v1 + sl_ * (lo - t1)
                        y2 = v1 + sl_ * (hi - t1)
                        total += (y1 + y2) / 2 * (hi - lo)
            else:
                # zero-length overlap: interval touches [a,b] or has zero length inside it
                if t2 >= a and t1 <= b and invalid(j):
                    touch_invalid = True
        if not covered:
            out.append(("nan", None, "period [%d,%d) not fully covered by the observations (last stamp %d)" % (a - hs, b - hs, sl - hs)))
        elif pos_invalid:
            out.append(("nan", None, "an interval overlapping the period is invalid"))
        elif touch_invalid:
            exp = total if rainfall else total / P
            out.append(("either", exp, "an invalid interval only touches the period"))
        else:
            exp = total if rainfall else total / P
            out.append(("val", exp, "all overlapping intervals valid"))
    return nvalh, hs, out


def make_series(stamps, vals, unit="ns", tz=None, default_range=False, t0=None):
    secs = np.array(stamps, dtype=np.int64) + (T0 if t0 is None else t0)
    idx = pd.DatetimeIndex(secs.astype("datetime64[s]").astype("datetime64[%s]" % unit))
    if tz is not None:
        idx = idx.tz_localize(tz)        # raises for wall-clock times that do not exist / are ambiguous in the zone
    return pd.Series(np.array(vals, dtype=np.float64), index=idx)


def run_case(ctx, dutils, stamps, vals, P, rainfall, G, variant=None, judged_sample=None):
    case = {"stamps": list(stamps), "vals": [None if math.isnan(v) else v for v in vals], "P": P,
            "rainfall": rainfall, "G": G, "variant": variant}
    unit, tz, t0 = "ns", None, T0
    if variant:
        unit, tz, t0 = variant.get("unit", "ns"), variant.get("tz"), variant.get("t0", T0)
    try:
        se = make_series(stamps, vals, unit, tz, t0=t0)
    except Exception as e:
        if variant and variant.get("dst"):
            # a stamp falls into the hour that does not exist / exists twice on the day the clocks change
            ctx.count("variant.dst.stamp-not-localizable")
            return None
        raise
    nvalh, hs, exp = oracle(stamps, vals, P, rainfall, G)
    vtag = "" if not variant else ":unit=%s:tz=%s%s" % (unit, "naive" if tz is None else "aware", ":clock-change" if variant.get("dst") else (":before-1970" if variant.get("epoch") else ""))
    try:
        res = dutils.var2h(se, nbsec_per_period=P, maxgapsec=G, rainfall=bool(rainfall))
    except Exception as e:
        ctx.case(True)
        ctx.violation("var2h:raised%s" % vtag, case, "var2h raised %r on a non-decreasing series spanning >= 2 periods" % (e,))
        return None
    out = res.values
    judged = sum(1 for e in exp if e[0] != "any")
    ctx.case(judged > 0, outcome=out.tobytes())
    if len(out) != nvalh:
        ctx.violation("var2h:length%s" % vtag, case, "returned %d periods, expected %d" % (len(out), nvalh))
        return out
    # index: starts on the hour after the first stamp, regular
    if nvalh:
        first = pd.Timestamp(t0 + hs, unit="s")
        idx = res.index
        if getattr(idx, "tz", None) is not None:
            idx = idx.tz_localize(None)
        if idx[0] != first or (nvalh > 1 and (idx[1] - idx[0]).total_seconds() != P):
            ctx.violation("var2h:index%s" % vtag, case, "output index starts %s step %s, expected %s step %ds" % (
                idx[0], (idx[1] - idx[0]) if nvalh > 1 else None, first, P))
    for i, (kind, ev, why) in enumerate(exp):
        o = float(out[i])
        if kind == "any":
            ctx.count("period.final_unjudged")
            continue
        if kind == "nan":
            ctx.count("period.must_be_missing")
            if not math.isnan(o):
                sub = "uncovered" if "covered" in why else "invalid-interval"
                ctx.violation("var2h:P=%d:%s:not-missing:%s%s" % (P, "rain" if rainfall else "lin", sub, vtag), case,
                              "period %d: returned %r but must be missing (%s)" % (i, o, why), observed=out.tolist())
            continue
        if kind == "either":
            ctx.count("period.touching_unconstrained")
            if math.isnan(o):
                continue
        else:
            ctx.count("period.value")
            if math.isnan(o):
                ctx.violation("var2h:P=%d:%s:missing-but-valid%s" % (P, "rain" if rainfall else "lin", vtag), case,
                              "period %d is missing although every overlapping interval is valid; expected %r" % (i, float(ev)),
                              observed=out.tolist(), expected=float(ev))
                continue
        if abs(o - float(ev)) > 1e-9 * max(1.0, abs(float(ev))):
            ctx.violation("var2h:P=%d:%s:value%s" % (P, "rain" if rainfall else "lin", vtag), case,
                          "period %d: returned %r, exact period average %r (%s)" % (i, o, float(ev), why),
                          observed=out.tolist(), expected=float(ev))
    return out


def check_value_layouts(ctx, dutils, stamps, vals, P, G):
    se = make_series(stamps, vals)
    try:
        ref = dutils.var2h(se, nbsec_per_period=P, maxgapsec=G).values
    except Exception:
        return
    variants = [("float32", se.astype(np.float32)), ("reversed-then-sorted", se.iloc[::-1].sort_index()),
                ("named", se.rename("flow")), ("copy-of-view", pd.Series(se.values[::1], index=se.index))]
    for lname, s2 in variants:
        case = {"stamps": list(stamps), "vals": [None if math.isnan(v) else v for v in vals], "P": P, "rainfall": 0, "G": G,
                "variant": {"layout": lname}}
        try:
            out = dutils.var2h(s2, nbsec_per_period=P, maxgapsec=G).values
        except Exception as e:
            ctx.case(True, outcome="raise")
            ctx.count("layout.rejected.%s" % lname)
            continue
        ctx.case(True, outcome=out.tobytes())
        ctx.count("layout.accepted.%s" % lname)
        if out.shape != ref.shape or not np.allclose(out, ref, rtol=1e-12, atol=0, equal_nan=True):
            ctx.violation("var2h:layout=%s" % lname, case, "same series given as %s: %s vs %s" % (lname, out[:6].tolist(), ref[:6].tolist()))


def main_cases(unit):
    step, top = unit["lattice"]
    lattice = list(range(0, top + 1, step))
    k, s0 = unit["k"], unit["s0"]
    rest = [x for x in lattice if x >= s0]
    if "s1" in unit:
        rest1 = [x for x in lattice if x >= unit["s1"]]
        tails = ((unit["s1"],) + t for t in itertools.combinations_with_replacement(rest1, k - 2))
    else:
        tails = itertools.combinations_with_replacement(rest, k - 1)
    for tail in tails:
        stamps = (s0,) + tail
        for P in (1800, 3600):
            if stamps[-1] - stamps[0] < 2 * P:
                continue
            for vals in value_vectors(k, unit["valmode"], unit["seed"]):
                for rainfall in (0, 1):
                    for G in unit.get("gaps", GAPS):
                        yield stamps, vals, P, rainfall, G


def variant_cases(unit):
    """subset for unit/tz/offset variants"""
    off = unit["offset"]
    lattice = list(range(0, 10801, 1800))
    ks = (2, 3) if unit["tier"] == "quick" else (2, 3, 4)
    valsets = {2: [[1.0, 2.5], [0.0, 1.0]], 3: [[1.0, 2.5, 0.0], [2.5, float("nan"), 1.0], [1.0, -1.0, 2.5]],
               4: [[1.0, 2.5, 0.0, 1.0], [1.0, float("nan"), 2.5, 0.0]]}
    for k in ks:
        for t in itertools.combinations_with_replacement(lattice, k):
            stamps = tuple(x + 3600 + off for x in t)      # keep stamps positive relative to T0
            for P in (1800, 3600):
                if stamps[-1] - stamps[0] < 2 * P:
                    continue
                for vals in valsets[k]:
                    for rainfall in (0, 1):
                        yield stamps, vals, P, rainfall, 7200


VARIANTS = [{"unit": u, "tz": tz} for u in ("s", "ms", "us", "ns") for tz in (None, "UTC", "+10:00", "Australia/Brisbane")]


def _wall(txt):
    return int(pd.Timestamp(txt).value // 10 ** 9)


# zones whose clocks change two hours after the first possible stamp: the series is given in local wall-clock time
# (stamps inside the skipped / repeated hour cannot be expressed and are left out); the result must be the one of
# the naive index with the same wall-clock stamps
EPOCH_VARIANTS = [{"unit": "ns", "tz": None, "t0": _wall("1965-03-04 00:00:00"), "epoch": True},
                  {"unit": "s", "tz": None, "t0": _wall("1969-12-31 00:00:00"), "epoch": True}]
DST_VARIANTS = [{"unit": "ns", "tz": "Australia/Sydney", "t0": _wall("2001-10-28 00:00:00"), "dst": "forward"},
                {"unit": "s", "tz": "Australia/Sydney", "t0": _wall("2001-03-25 00:00:00"), "dst": "back"},
                {"unit": "us", "tz": "America/New_York", "t0": _wall("2001-04-01 00:00:00"), "dst": "forward"}]


def check_longspan(ctx, dutils, unit):
    """daily observations over `years` years, constant value 1.5 (rainfall: daily total 24): every
    non-final output period lies between two valid observations, so it must equal the exact average
    (1.5) resp. the prorated total (24 * P / 86400)"""
    years, P, rain = unit["years"], unit["P"], unit["rainfall"]
    idx = pd.date_range("1950-01-01", "%d-01-01" % (1950 + years), freq="D")
    val = 24.0 if rain else 1.5
    se = pd.Series(np.full(len(idx), val), index=idx)
    case = {"kind": "longspan", "years": years, "P": P, "rainfall": rain}
    try:
        out = dutils.var2h(se, nbsec_per_period=P, maxgapsec=5 * 86400, rainfall=bool(rain)).values
    except Exception as e:
        ctx.case(True)
        ctx.violation("var2h:longspan:raised", case, "raised %r" % (e,))
        return
    nexp = int((idx[-1] - idx[0]).total_seconds() // P)
    ctx.case(True, outcome=(len(out), float(np.nansum(out))))
    if len(out) != nexp:
        ctx.violation("var2h:longspan:length", case, "returned %d periods, expected %d" % (len(out), nexp))
        return
    exp = val * P / 86400.0 if rain else val
    # the series starts on the hour, so hstart = start + 3600 s; a period is judged when it ends at or
    # before the last observation (later ones must be missing) and is not the final output period
    span = int((idx[-1] - idx[0]).total_seconds())
    ends = 3600 + (np.arange(len(out)) + 1) * P
    covered = ends <= span
    covered[-1] = False
    bad = np.where(covered & ~(np.abs(out - exp) <= 1e-9 * exp))[0]
    unc = np.where(~covered & ~np.isnan(out))[0]
    unc = unc[unc < len(out) - 1]
    if len(unc):
        ctx.violation("var2h:longspan:P=%d:uncovered-not-missing" % P, case, "period %d ends after the last observation but holds %r" % (int(unc[0]), float(out[unc[0]])))
    ctx.count("period.value", int(covered.sum()))
    if len(bad):
        ctx.violation("var2h:longspan:P=%d:%s:value" % (P, "rain" if rain else "lin"), case,
                      "%d of %d covered periods differ from the exact value %r; first at period %d (%.1f years after the start): %r" % (
                          len(bad), int(covered.sum()), exp, int(bad[0]), bad[0] * P / 86400.0 / 365.25, float(out[bad[0]])),
                      observed=float(out[bad[0]]), expected=exp)


def ladder_cases(unit):
    k, seed = unit["k"], unit["seed"]
    pat = [1.0, 2.5, 0.0, 1.0, 2.5]
    for spacing in ("600", "5400", "irregular"):
        if spacing == "irregular":
            steps = [700, 1300, 600, 2500, 300]
            stamps, t = [], 900
            for i in range(k):
                stamps.append(t)
                t += steps[(i + seed) % len(steps)]
        else:
            stamps = [300 + int(spacing) * i for i in range(k)]
        for hole in (None, k // 2):
            vals = [pat[(i + seed) % len(pat)] for i in range(k)]
            if hole is not None:
                vals[hole] = float("nan")
            for P in (1800, 3600):
                if stamps[-1] - stamps[0] < 2 * P:
                    continue
                for rainfall in (0, 1):
                    yield tuple(stamps), vals, P, rainfall, 432000


def run_unit(unit, ctx):
    from hydrodiy.data import dutils
    first = True
    if unit["kind"] == "ladder":
        for i, (stamps, vals, P, rainfall, G) in enumerate(ladder_cases(unit)):
            if not ctx.sup.begin(i):
                continue
            if first:
                ctx.case(False, n=0, sample={"stamps": list(stamps[:6]) + ["..."], "k": unit["k"], "P": P, "rainfall": rainfall, "G": G})
                first = False
            ctx.count("ladder.series")
            run_case(ctx, dutils, stamps, vals, P, rainfall, G)
            # layout variants of the values (exactly representable): float32, int-valued object, read-only
            if rainfall == 0 and P == 3600:
                check_value_layouts(ctx, dutils, stamps, vals, P, G)
            ctx.sup.end()
        return
    if unit["kind"] == "longspan":
        if ctx.sup.begin(0):
            ctx.case(False, n=0, sample=dict(unit))
            check_longspan(ctx, dutils, unit)
            ctx.sup.end()
        return
    if unit["kind"] == "main":
        for i, (stamps, vals, P, rainfall, G) in enumerate(main_cases(unit)):
            if not ctx.sup.begin(i):
                continue
            if first:
                ctx.case(False, n=0, sample={"stamps": list(stamps), "vals": [None if math.isnan(v) else v for v in vals], "P": P, "rainfall": rainfall, "G": G})
                first = False
            run_case(ctx, dutils, stamps, vals, P, rainfall, G)
            ctx.sup.end()
    else:
        for i, (stamps, vals, P, rainfall, G) in enumerate(variant_cases(unit)):
            if not ctx.sup.begin(i):
                continue
            ref = run_case(ctx, dutils, stamps, vals, P, rainfall, G)
            for var in VARIANTS:
                if var["unit"] == "ns" and var["tz"] is None:
                    continue
                out = run_case(ctx, dutils, stamps, vals, P, rainfall, G, variant=var)
                if ref is not None and out is not None and len(out) == len(ref):
                    if not np.array_equal(out, ref, equal_nan=True):
                        case = {"stamps": list(stamps), "vals": [None if math.isnan(v) else v for v in vals], "P": P,
                                "rainfall": rainfall, "G": G, "variant": var}
                        ctx.violation("var2h:variant-differs:unit=%s:tz=%s" % (var["unit"], "naive" if var["tz"] is None else "aware"), case,
                                      "result depends on index storage: %s (unit=%s tz=%s) vs %s (naive ns)" % (out.tolist(), var["unit"], var["tz"], ref.tolist()))
            # the same series before the epoch (negative seconds since 1970: floor vs truncation), judged by the oracle
            for var in EPOCH_VARIANTS:
                out = run_case(ctx, dutils, stamps, vals, P, rainfall, G, variant=var)
                if ref is not None and out is not None and len(out) == len(ref) and not np.array_equal(out, ref, equal_nan=True):
                    case = {"stamps": list(stamps), "vals": [None if math.isnan(v) else v for v in vals], "P": P,
                            "rainfall": rainfall, "G": G, "variant": var}
                    ctx.violation("var2h:variant-differs:before-1970", case,
                                  "result depends on the date of the series: %s (starting %s) vs %s (starting 2001-01-01)" % (
                                      out.tolist(), pd.Timestamp(var["t0"], unit="s"), ref.tolist()))
            for var in DST_VARIANTS:
                refd = run_case(ctx, dutils, stamps, vals, P, rainfall, G, variant={"unit": "ns", "tz": None, "t0": var["t0"]})
                out = run_case(ctx, dutils, stamps, vals, P, rainfall, G, variant=var)
                if refd is not None and out is not None and len(out) == len(refd):
                    ctx.count("variant.dst.compared")
                    if not np.array_equal(out, refd, equal_nan=True):
                        case = {"stamps": list(stamps), "vals": [None if math.isnan(v) else v for v in vals], "P": P,
                                "rainfall": rainfall, "G": G, "variant": var}
                        ctx.violation("var2h:variant-differs:tz=aware:clock-change", case,
                                      "result depends on the time zone: %s (%s, clocks go %s during the series) vs %s (naive index, same "
                                      "wall-clock stamps)" % (out.tolist(), var["tz"], var["dst"], refd.tolist()))
            # the default index produced by date_range (regular stamps only)
            if len(set(np.diff(stamps))) == 1 and np.diff(stamps)[0] > 0:
                idx = pd.date_range(pd.Timestamp(T0 + stamps[0], unit="s"), periods=len(stamps), freq="%ds" % int(np.diff(stamps)[0]))
                se = pd.Series(np.array(vals), index=idx)
                try:
                    out = dutils.var2h(se, nbsec_per_period=P, maxgapsec=G, rainfall=bool(rainfall)).values
                    ctx.case(True, outcome=out.tobytes())
                    if ref is not None and not np.array_equal(out, ref, equal_nan=True):
                        ctx.violation("var2h:variant-differs:date_range-default", {"stamps": list(stamps), "vals": [None if math.isnan(v) else v for v in vals], "P": P, "rainfall": rainfall, "G": G, "variant": {"date_range": True}},
                                      "date_range default index (dtype %s): %s vs naive ns %s" % (idx.dtype, out.tolist(), ref.tolist()))
                except Exception as e:
                    ctx.case(True)
                    ctx.violation("var2h:raised:date_range-default", {"stamps": list(stamps), "vals": [None if math.isnan(v) else v for v in vals], "P": P, "rainfall": rainfall, "G": G, "variant": {"date_range": True}}, repr(e))
            ctx.sup.end()


def crash_violation(unit, idx, status, stderr):
    if unit["kind"] == "ladder":
        cases = list(ladder_cases(unit))
        st, vals, P, rf, G = cases[idx] if idx is not None and idx < len(cases) else ((), [], 0, 0, 0)
        return ("var2h:%s:ladder" % ("hang" if "timeout" in status else "crash"),
                {"stamps": list(st), "vals": [None if math.isnan(v) else v for v in vals], "P": P, "rainfall": rf, "G": G, "variant": None},
                "the interpreter did not survive var2h on a %d-observation series: %s" % (len(st), status))
    if unit["kind"] == "longspan":
        kind = "hang" if "timeout" in status else "crash"
        return ("var2h:longspan:%s" % kind, dict(unit), "the interpreter did not survive var2h on a %d-year daily series: %s" % (unit["years"], status))
    gen = main_cases(unit) if unit["kind"] == "main" else variant_cases(unit)
    case = None
    for i, (stamps, vals, P, rainfall, G) in enumerate(gen):
        if i == idx:
            case = {"stamps": list(stamps), "vals": [None if math.isnan(v) else v for v in vals], "P": P, "rainfall": rainfall, "G": G,
                    "variant": None if unit["kind"] == "main" else {"all": True}}
            break
    kind = "hang" if "timeout" in status else "crash"
    return ("var2h:%s" % kind, case, "the interpreter did not survive var2h on this series: %s" % status)


def replay(case):
    from mc.explore import Result
    from hydrodiy.data import dutils
    ctx = Result()
    if case.get("kind") == "longspan":
        check_longspan(ctx, dutils, case)
        return [v for lst in ctx.violations.values() for v in lst]
    vals = [float("nan") if v is None else v for v in case["vals"]]
    var = case.get("variant")
    if var and var.get("layout"):
        check_value_layouts(ctx, dutils, case["stamps"], vals, case["P"], case["G"])
        return [v for lst in ctx.violations.values() for v in lst]
    if var and var.get("all"):
        for v in [None] + VARIANTS:
            run_case(ctx, dutils, case["stamps"], vals, case["P"], case["rainfall"], case["G"], variant=v)
    elif var and var.get("date_range"):
        stamps = case["stamps"]
        ref = run_case(ctx, dutils, stamps, vals, case["P"], case["rainfall"], case["G"])
        idx = pd.date_range(pd.Timestamp(T0 + stamps[0], unit="s"), periods=len(stamps), freq="%ds" % int(np.diff(stamps)[0]))
        out = dutils.var2h(pd.Series(np.array(vals), index=idx), nbsec_per_period=case["P"], maxgapsec=case["G"], rainfall=bool(case["rainfall"])).values
        if not np.array_equal(out, ref, equal_nan=True):
            ctx.violation("var2h:variant-differs:date_range-default", case, "differs")
    elif var and var.get("epoch"):
        ref = run_case(ctx, dutils, case["stamps"], vals, case["P"], case["rainfall"], case["G"])
        out = run_case(ctx, dutils, case["stamps"], vals, case["P"], case["rainfall"], case["G"], variant=var)
        if ref is not None and out is not None and not np.array_equal(out, ref, equal_nan=True):
            ctx.violation("var2h:variant-differs:before-1970", case, "differs")
    elif var and var.get("dst"):
        refd = run_case(ctx, dutils, case["stamps"], vals, case["P"], case["rainfall"], case["G"], variant={"unit": "ns", "tz": None, "t0": var["t0"]})
        out = run_case(ctx, dutils, case["stamps"], vals, case["P"], case["rainfall"], case["G"], variant=var)
        if refd is not None and out is not None and not np.array_equal(out, refd, equal_nan=True):
            ctx.violation("var2h:variant-differs:tz=aware:clock-change", case, "differs")
    else:
        ref = run_case(ctx, dutils, case["stamps"], vals, case["P"], case["rainfall"], case["G"])
        if var:
            out = run_case(ctx, dutils, case["stamps"], vals, case["P"], case["rainfall"], case["G"], variant=var)
            if ref is not None and out is not None and not np.array_equal(out, ref, equal_nan=True):
                ctx.violation("var2h:variant-differs:unit=%s:tz=%s" % (var["unit"], "naive" if var["tz"] is None else "aware"), case, "differs")
    return [v for lst in ctx.violations.values() for v in lst]
