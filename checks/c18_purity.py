"""C18 - computational functions leave their arguments untouched and are repeatable.

Space: catalogue of call sites (every public function of the modules the property names
that takes array-like data) x input layout x size x {no NaN, one NaN} x the two-call
history (seed numpy.random; call; seed again; call); size ladder around powers of two / round
numbers for every call site whose arguments scale with the size; three-call history
(call A; call with a different argument of the same shape B; call A again) for the
call sites of stat/, data/ and gis/.
Oracle: byte-level snapshot (dtype, shape, strides, values, index/columns) of every
array / Series / DataFrame argument - and of the base array behind every view - is equal
before the first call, after the first call and after the second call; Grid arguments
keep their cell values; the second result equals the first (NaN-aware, recursive).
Three-call history: the arguments of A and of B are unchanged after every call, the third
call returns what the first returned (compared with a private copy taken right after the
first call) and the object returned by the first call still holds that value after the
other two calls.
"""
import copy
import math, pickle
import numpy as np
import pandas as pd

ID = "C18"
RULE = ("finite catalogue of call sites (name -> argument builders + call) crossed fully with the input "
        "layouts {C-contiguous native dtype (float64), strided view inside a larger base, reversed view, "
        "Fortran-ordered 2-D, int64, float32, pandas Series/DataFrame sharing a numpy base} x sizes x "
        "{without, with one NaN} x the history (seed; call; seed; call). One case = one site in one layout: "
        "both calls are executed on the same argument objects. Snapshots of all arguments and view bases "
        "are compared at byte level after each call, results compared recursively. A layout the function "
        "rejects with an exception is accepted (counted) but the arguments must still be unchanged and the "
        "second call must raise the same exception type. Non-trivial = the call returned normally. Cases "
        "are distinct by (site, layout, size, nan, deviation argument). Size ladder: every call site whose "
        "arguments scale with the size is run again at every ladder size (around powers of two and round "
        "numbers, 7..1025, thorough ..10001, capped per site where a call is super-linear) in the layouts "
        "{C-contiguous float64 without and with one NaN, pandas sharing a numpy base (+ strided with NaN, "
        "thorough)} - the layouts a function can take without a copy - with the same snapshot oracle and "
        "two-call history. Three-call history (sites of stat/, data/, gis/): arguments A and B (= the data "
        "patterns of seed and seed+1, same shapes) are built once; call(A), call(B), call(A); all "
        "snapshots compared after every call, third result against a private deep copy of the first, the "
        "object returned first against that copy after the later calls. Before every call of a history the "
        "C allocator's free lists are refilled with blocks holding a byte pattern (another pattern per call), "
        "so that a result cell read from memory the kernel never wrote differs between the calls. Method "
        "histories of one Catchment: every sequence of the operations {delineate_boundary (without/with mask), "
        "compute_flowpathlengths, intersect (unfilled/filled), extent, to_dict, clone, +, -, voronoi, "
        "delineate_area again, upstream, downstream (+ plot_area, plot_boundary, from_dict in thorough)} up to "
        "depth 2 (3 thorough) containing at least one state-changing operation before its last step, on three "
        "flow-direction grids (plain, with an inlet, ring whose filled area is larger), each on a fresh "
        "catchment; after every step all queries with fixed arguments are observed again and must equal the "
        "observations taken right after delineate_area (derived state from its first appearance). Pair histories: "
        "for each module (metrics, sutils, armodels, transform, dutils, qualitycontrol, signatures, gutils, grid) "
        "every ordered pair (S2, S1) of its call sites (option variants included) is executed back to back in one "
        "process on freshly built arguments; every result must equal the site's reference result, obtained as the "
        "first library call of a freshly forked process.")
ASSUMPTIONS = [
    "the catalogue lists the functions of the modules named by the property that accept numeric array-like data; pure scalar helpers (ppos, oz_timezone, compute_percentiles), plotting decorators without data arguments and file I/O (Grid.save/load) are not call sites",
    "arguments documented as output buffers are exempt (gutils.points_inside_polygon(inside=...)); methods whose purpose is to change their object (Grid.data setter, Grid.__setitem__, Catchment.delineate_*) may change self, their array arguments are still watched",
    "grid arguments: only shape and cell values are judged (accumulate/slope/delineate_river retype the caller's grid to int64/float64 keeping the values; that is counted, not flagged)",
    "Series/DataFrame snapshots hold dtype(s), shape, index and column labels and values; the .name attribute is not judged",
    "repeatability: results must be equal NaN-aware; a relative difference <= 1e-14 is counted as floating-point noise and accepted (none observed)",
    "matplotlib objects in results are compared through their plotted data; other opaque objects by type only",
    "int64 layout truncates the float data (values differ from the float layouts; only purity and repeatability are judged, not the numerical result)",
    "exceptions of any type are treated as 'layout not accepted'",
    "dutils.var2h is driven with a nanosecond-resolution DatetimeIndex (the resolution its wrapper assumes); with the microsecond default of pandas 3 the kernel scans outside its buffers (properties C05/C14) and its outcome depends on heap contents, which is not a C18 matter",
    "extension modules rebuilt from the working tree C sources; Cython wrapper C not re-translated",
    "size ladder: grids and catchments keep their 6x6 geometry (only index / point arguments of the Grid and Catchment methods scale); sites whose arguments do not depend on the size are not repeated; super-linear sites are capped (LADDER_CAP) and figure-drawing sites use every second ladder size (a call costs ~50 ms whatever the size)",
    "three-call history: 'returns the same result' is read as a value the caller may keep - a result object that a later, unrelated call overwrites (function returning a module-level buffer) is reported (key ...:history3:earlier-result-overwritten); the result of the middle call B is not judged (C18 does not judge numerical correctness), so a cache that answers B with A's result is only seen by the properties that judge values; state initialised once per process and never updated is not observable inside one worker process",
    "three-call history: when the first result cannot be deep-copied (no such site today) the comparison uses the live object and the case is counted (history3.result-not-copyable)",
]
TECHNIQUE = ("bounded exhaustive enumeration of call site x input layout x size ladder x two-call / three-call "
             "history on the real functions, and of every Catchment operation sequence up to depth 2 (3 thorough); "
             "invariance oracle (argument snapshots, observations of the object after every step) and differential "
             "oracle (call 1 vs call 2 with a re-patterned heap, call 1 vs call 3 after an unrelated call)")

LAYOUTS = ["c64", "strided", "fortran", "int64", "f32", "pandas"]
LAYOUTS_THOROUGH = LAYOUTS + ["reversed"]
RSEED = 20240517
WHAT_ORDER = ["type", "columns", "shape", "length", "index", "dtype", "strides", "cells", "values"]
SENTINEL = -777.25


def sizes(tier):
    return [12, 40] if tier == "quick" else [12, 31, 120, 365]


# size ladder: around powers of two and round numbers (thresholds of fast paths, resampling limits, int overflow)
LADDER = [7, 8, 9, 15, 16, 17, 31, 32, 33, 63, 64, 65, 100, 127, 128, 129, 255, 256, 257, 500, 501,
          511, 512, 513, 1000, 1001, 1023, 1024, 1025]
LADDER_X = [2047, 2048, 2049, 4095, 4096, 4097, 10001]
# (largest ladder size quick, thorough) of the sites whose cost grows faster than the size
# (measured: iqr 170 ms, dscore[ensemble] 190 ms, dscore[deterministic] 65 ms, pit 50 ms per case at n = 1025)
LADDER_CAP = {"metrics.iqr": (513, 1025), "metrics.dscore[ensemble]": (513, 1025),
              "metrics.dscore[deterministic]": (1025, 2049), "metrics.pit": (1025, 4097),
              "metrics.absolute_peak_error": (1025, 4097), "dutils.monthly2daily[flat]": (1025, 2049),
              "dutils.monthly2daily[cubic]": (1025, 2049), "dutils.water_year_end": (1025, 2049)}
LADDER_LAYOUTS = [("c64", False), ("c64", True), ("pandas", False)]
HISTORY3_PREFIX = ("metrics.", "sutils.", "armodels.", "transform.", "dutils.", "qualitycontrol.", "signatures.",
                   "gutils.", "grid.")


def ladder_sizes(site, tier):
    """ladder sizes of one call site (none when its arguments do not depend on the size)"""
    if not size_dependent(site):
        return []
    lad = LADDER if tier == "quick" else LADDER + LADDER_X
    cap = LADDER_CAP.get(site.name, (1025, 10001))[0 if tier == "quick" else 1]
    lad = [n for n in lad if n <= cap and n not in sizes(tier)]
    if site.name.startswith(("putils.ecdfplot", "putils.qqplot", "boxplot.Boxplot.draw", "violinplot.Violin.draw")):
        # drawing a figure costs ~50 ms whatever the size: every second ladder size (keeps 8, 16, 32, 64, 127,
        # 129, 256, 500, 511, 513, 1001, 1024 ...)
        lad = lad[1::2]
    return lad


_SIZE_DEP = {}


def size_dependent(site):
    if site.name not in _SIZE_DEP:
        def sig(n):
            out = []
            for k, sp in sorted(site.build(n, 0, "c64").items()):
                if isinstance(sp, A):
                    out.append(tuple(sp.base.shape))
                elif isinstance(sp.value, (np.ndarray, pd.Index, pd.Series, list, tuple)):
                    out.append(len(sp.value))
            return out
        _SIZE_DEP[site.name] = sig(40) != sig(65)
    return _SIZE_DEP[site.name]


def history3_sizes(site, tier):
    if not site.name.startswith(HISTORY3_PREFIX):
        return []
    ns = [12, 257] if tier == "quick" else [12, 31, 257, 1025]
    if site.name.startswith("metrics.crps"):
        # sizes whose weights 1/n sum to exactly 1 (outlier bins of the reliability table left undecided)
        ns = ns + ([16, 64] if tier == "quick" else [16, 64, 128, 512])
    if not size_dependent(site):
        ns = ns[:1]
    cap = LADDER_CAP.get(site.name, (1025, 10001))[0 if tier == "quick" else 1]
    return [n for n in ns if n <= cap]


def bound_text(tier, seed):
    st = all_sites(tier)
    nlad = sum(1 for x in st if ladder_sizes(x, tier))
    nh3 = sum(1 for x in st if history3_sizes(x, tier))
    return ("%s: %d call sites x layouts %s x sizes %s x {no NaN, one NaN} x two-call history%s; "
            "size ladder %s (per-site caps %s) x layouts %s x two-call history for the %d sites whose arguments "
            "scale with the size; three-call history (A, B = same shapes other data, A) x sizes %s x layouts %s "
            "for the %d sites of stat/, data/, gis/; %d Catchment operation sequences (depth <= %d, %d operations, 3 "
            "flow-direction grids); data patterns rotated by seed %d" % (
                tier, len(catalogue()), LAYOUTS if tier == "quick" else LAYOUTS_THOROUGH, sizes(tier),
                "" if tier == "quick" else "; plus every single argument alone in each layout (others C-contiguous float64) "
                "and the transform parameter lattice",
                LADDER if tier == "quick" else LADDER + LADDER_X,
                {k: v[0 if tier == "quick" else 1] for k, v in sorted(LADDER_CAP.items())},
                ["%s%s" % (l, "+NaN" if nn else "") for l, nn in ladder_layouts(tier)], nlad,
                [12, 257] if tier == "quick" else [12, 31, 257, 1025],
                history3_layouts(tier), nh3, sum(1 for _ in obj_cases(tier, seed)), obj_depth(tier),
                len(OBJ_OPS if tier == "quick" else OBJ_OPS_THOROUGH), seed))


def ladder_layouts(tier):
    return LADDER_LAYOUTS if tier == "quick" else LADDER_LAYOUTS + [("strided", True), ("f32", False)]


def history3_layouts(tier):
    return ["c64", "pandas", "strided"] if tier == "quick" else LAYOUTS_THOROUGH


# --------------------------------------------------------------------- data patterns
def pos(n, seed, off=0):
    i = np.arange(n)
    return ((i * 7 + 3 * seed + off) % 11) * 1.25 + ((i + off) % 3) * 0.5 + 0.25


def unif(n, seed, off=0):
    i = np.arange(n)
    return (((i * 37 + 11 * seed + 5 + off) % 101) + 0.5) / 102.


def centred(n, seed, off=0):
    return pos(n, seed, off) - 6.0


def mat(n, p, seed, fun=pos):
    return np.column_stack([fun(n, seed, off=3 * j + 1) + 0.125 * j for j in range(p)])


def runs(n, seed):
    """non-decreasing aggregation index"""
    return (np.arange(n) + seed % 2) // 3 + 199501


def bools(n, seed, off=0):
    return ((np.arange(n) * 5 + seed + off) % 7) < 3


# --------------------------------------------------------------------- argument specs
class A(object):
    """array argument: kind in f (float data), i (integer valued), b (boolean);
    wrap: None | 'dts' (Series with a DatetimeIndex, freq)"""

    def __init__(self, base, kind="f", nan_ok=True, wrap=None, freq=None, watch=True, frame=False):
        self.base = np.asarray(base)
        self.kind = kind
        self.nan_ok = nan_ok and kind == "f"
        self.wrap = wrap
        self.freq = freq
        self.watch = watch
        self.frame = frame          # 2-D data that only makes sense as a DataFrame


class Fixed(object):
    """argument passed as is (grids, catchments, indexes, scalars); watched when watch=True"""

    def __init__(self, value, watch=True):
        self.value = value
        self.watch = watch


def native_dtype(kind):
    return {"f": np.float64, "i": np.int64, "b": np.bool_}[kind]


def materialise(spec, layout, nan):
    """-> (object, [(label, base array)]) or None when the layout does not apply"""
    v = spec.base
    kind = spec.kind
    if layout == "int64":
        arr = np.trunc(v.astype(np.float64)).astype(np.int64)
    elif layout == "f32":
        arr = v.astype(np.float32)
    else:
        # natural dtype: float64 for data (and for integer-valued indexes given as floats), bool for flags
        arr = v.astype(np.bool_ if kind == "b" else np.float64)
    if nan and spec.nan_ok and arr.dtype.kind == "f" and arr.size > 3:
        arr = arr.copy()
        if arr.ndim == 1:
            arr[2] = np.nan
        else:
            arr[2 % arr.shape[0], 1 % arr.shape[1]] = np.nan
    extras = []
    if layout in ("c64", "int64", "f32"):
        obj = np.array(arr, order="C")
    elif layout == "strided":
        big = np.full(tuple(2 * s + 1 for s in arr.shape), SENTINEL).astype(arr.dtype)
        sl = tuple(slice(1, None, 2) for _ in arr.shape)
        big[sl] = arr
        obj = big[sl]
        extras.append(("base", big))
    elif layout == "reversed":
        sl = tuple(slice(None, None, -1) for _ in arr.shape)
        big = np.array(arr[sl], order="C")
        obj = big[sl]
        extras.append(("base", big))
    elif layout == "fortran":
        if arr.ndim < 2:
            return None
        obj = np.asfortranarray(arr)
    elif layout == "pandas":
        base = np.array(arr, order="C")
        if arr.ndim == 1:
            obj = pd.Series(base, copy=False)
        else:
            obj = pd.DataFrame(base, columns=["v%d" % j for j in range(arr.shape[1])], copy=False)
        extras.append(("base", base))
    else:
        raise ValueError(layout)
    if spec.wrap == "dts":
        if layout == "pandas":
            obj = obj.to_numpy()
        idx = make_index(len(spec.base), spec.freq)
        obj = pd.Series(obj, index=idx, copy=False)
    elif spec.frame and not isinstance(obj, pd.DataFrame):
        cols = ["v%d" % j for j in range(arr.shape[1])]
        if isinstance(obj, np.ndarray):
            extras.append(("frame-base", obj))
            obj = pd.DataFrame(obj, columns=cols, copy=False)
    return obj, extras


def make_index(n, freq):
    if freq == "irregular":
        secs = np.cumsum(((np.arange(n) * 7) % 5 + 1) * 1500)
        # nanosecond resolution: what the var2h wrapper assumes (a coarser unit makes the kernel scan
        # outside its buffers - a C05/C14 matter - and the outcome then depends on heap contents)
        return pd.DatetimeIndex(pd.Timestamp("2001-03-04 05:10:00") + pd.to_timedelta(secs, unit="s")).as_unit("ns")
    return pd.date_range("2001-01-01", periods=n, freq=freq)


# --------------------------------------------------------------------- snapshots
def snap_array(a):
    if a.dtype == object:
        body = pickle.dumps(a.tolist())
    else:
        body = a.tobytes()
    return {"t": "ndarray", "dtype": a.dtype.str, "shape": tuple(a.shape), "strides": tuple(a.strides),
            "values": body}


def snap_index(ix):
    arr = np.asarray(ix)
    return {"t": "index", "class": type(ix).__name__, "dtype": str(ix.dtype), "shape": (len(ix),),
            "values": pickle.dumps(arr.tolist()) if arr.dtype == object else arr.tobytes()}


def snap(obj):
    from hydrodiy.gis.grid import Grid, Catchment
    if isinstance(obj, np.ndarray):
        return snap_array(obj)
    if isinstance(obj, pd.DataFrame):
        return {"t": "DataFrame", "shape": tuple(obj.shape), "columns": tuple(repr(c) for c in obj.columns),
                "dtype": tuple(str(d) for d in obj.dtypes), "index": snap_index(obj.index),
                "values": tuple(snap_array(obj.iloc[:, j].to_numpy())["values"] for j in range(obj.shape[1]))}
    if isinstance(obj, pd.Series):
        return {"t": "Series", "shape": tuple(obj.shape), "dtype": str(obj.dtype), "index": snap_index(obj.index),
                "values": snap_array(obj.to_numpy())["values"]}
    if isinstance(obj, pd.Index):
        return snap_index(obj)
    if isinstance(obj, Grid):
        return {"t": "Grid", "shape": tuple(obj.data.shape), "cells": pickle.dumps(_nan_key(obj.data.tolist())),
                "unjudged_dtype": np.dtype(obj.dtype).str}
    if isinstance(obj, Catchment):
        return {"t": "Catchment", "flowdir": snap(obj.flowdir)}
    if isinstance(obj, (list, tuple)):
        return {"t": "seq", "items": [snap(o) for o in obj]}
    if isinstance(obj, dict):
        return {"t": "dict", "items": [snap(obj[k]) for k in sorted(obj)]}
    return {"t": "other", "repr": repr(obj) if isinstance(obj, (int, float, str, bool, type(None), np.generic)) else type(obj).__name__}


def _nan_key(x):
    """nested lists with NaN replaced by a token so that equality is NaN-aware"""
    if isinstance(x, list):
        return [_nan_key(v) for v in x]
    if isinstance(x, float) and math.isnan(x):
        return "nan"
    if isinstance(x, float) and math.isfinite(x) and x.is_integer():
        return int(x)           # 4.0 and 4 are the same cell value (grids may be retyped)
    if isinstance(x, bool):
        return int(x)
    return x


def snap_diff(s0, s1, path):
    """-> list of (path, what)"""
    out = []
    if s0.get("t") != s1.get("t"):
        return [(path, "type")]
    for k in s0:
        if k in ("t",) or k.startswith("unjudged"):
            continue
        a, b = s0[k], s1.get(k)
        if isinstance(a, dict):
            out += snap_diff(a, b, path + "." + k)
        elif isinstance(a, list) and a and isinstance(a[0], dict):
            if len(a) != len(b):
                out.append((path, "length"))
            else:
                for i, (x, y) in enumerate(zip(a, b)):
                    out += snap_diff(x, y, "%s[%d]" % (path, i))
        elif a != b:
            out.append((path, k))
    return out


# --------------------------------------------------------------------- result equality
def requal(a, b, path="result"):
    """-> ('same'|'close'|'diff', where)"""
    from hydrodiy.gis.grid import Grid, Catchment
    worst = ["same", ""]

    def note(st, where):
        order = {"same": 0, "close": 1, "diff": 2}
        if order[st] > order[worst[0]]:
            worst[0], worst[1] = st, where

    def rec(x, y, p):
        if worst[0] == "diff":
            return
        if isinstance(x, np.ndarray) and isinstance(y, np.ndarray):
            if x.dtype != y.dtype or x.shape != y.shape:
                return note("diff", p + " dtype/shape %s%s vs %s%s" % (x.dtype, x.shape, y.dtype, y.shape))
            if x.dtype == object:
                return rec(x.tolist(), y.tolist(), p)
            if x.tobytes() == y.tobytes():
                return
            if x.dtype.kind in "fc":
                if np.array_equal(x, y, equal_nan=True):
                    return
                if np.allclose(x, y, rtol=1e-14, atol=0, equal_nan=True):
                    return note("close", p)
            return note("diff", p + " values")
        if isinstance(x, pd.DataFrame) and isinstance(y, pd.DataFrame):
            if x.shape != y.shape or list(map(repr, x.columns)) != list(map(repr, y.columns)):
                return note("diff", p + " columns/shape")
            rec(np.asarray(x.index), np.asarray(y.index), p + ".index")
            for j in range(x.shape[1]):
                rec(x.iloc[:, j].to_numpy(), y.iloc[:, j].to_numpy(), p + "[:,%d]" % j)
            return
        if isinstance(x, pd.Series) and isinstance(y, pd.Series):
            if x.shape != y.shape:
                return note("diff", p + " shape")
            rec(np.asarray(x.index), np.asarray(y.index), p + ".index")
            return rec(x.to_numpy(), y.to_numpy(), p + ".values")
        if isinstance(x, pd.Index) and isinstance(y, pd.Index):
            return rec(np.asarray(x), np.asarray(y), p)
        if isinstance(x, Grid) and isinstance(y, Grid):
            for att in ("ncols", "nrows", "cellsize", "xllcorner", "yllcorner"):
                rec(float(getattr(x, att)), float(getattr(y, att)), p + "." + att)
            rec(np.dtype(x.dtype).str, np.dtype(y.dtype).str, p + ".dtype")
            rec(x.nodata, y.nodata, p + ".nodata")
            return rec(x.data, y.data, p + ".data")
        if isinstance(x, Catchment) and isinstance(y, Catchment):
            for att in ("_idxcell_outlet", "_idxinlets", "_idxcells_area", "_idxcells_area_filled",
                        "_idxcells_boundary", "_xycells_boundary", "_flowpathlengths"):
                rec(getattr(x, att), getattr(y, att), p + "." + att)
            return rec(x.flowdir, y.flowdir, p + ".flowdir")
        if isinstance(x, (list, tuple)) and isinstance(y, (list, tuple)):
            if len(x) != len(y):
                return note("diff", p + " length")
            for i, (u, v) in enumerate(zip(x, y)):
                rec(u, v, "%s[%d]" % (p, i))
            return
        if isinstance(x, dict) and isinstance(y, dict):
            if list(map(repr, x.keys())) != list(map(repr, y.keys())):
                return note("diff", p + " keys")
            for k in x:
                rec(x[k], y[k], "%s[%r]" % (p, k))
            return
        if isinstance(x, (float, np.floating)) and isinstance(y, (float, np.floating)):
            fx, fy = float(x), float(y)
            if (math.isnan(fx) and math.isnan(fy)) or fx == fy:
                return
            if math.isfinite(fx) and math.isfinite(fy) and abs(fx - fy) <= 1e-14 * max(abs(fx), abs(fy)):
                return note("close", p)
            return note("diff", p + " %r vs %r" % (fx, fy))
        if isinstance(x, (int, str, bool, type(None), np.integer, np.bool_, complex)) or \
                isinstance(y, (int, str, bool, type(None), np.integer, np.bool_, complex)):
            try:
                ok = bool(x == y) and (x is None) == (y is None)
            except Exception:
                ok = False
            if not ok:
                note("diff", p + " %r vs %r" % (x, y))
            return
        # matplotlib artists and other opaque things
        if hasattr(x, "get_xdata") and hasattr(y, "get_xdata"):
            rec(np.asarray(x.get_xdata(), dtype=float), np.asarray(y.get_xdata(), dtype=float), p + ".xdata")
            return rec(np.asarray(x.get_ydata(), dtype=float), np.asarray(y.get_ydata(), dtype=float), p + ".ydata")
        if type(x) is not type(y):
            return note("diff", p + " type %s vs %s" % (type(x).__name__, type(y).__name__))
        return

    rec(a, b, path)
    return worst[0], worst[1]


def outcome_hash(r):
    try:
        return hash(pickle.dumps(_plain(r)))
    except Exception:
        return hash(repr(type(r)))


def _plain(r):
    from hydrodiy.gis.grid import Grid
    if isinstance(r, np.ndarray):
        return (r.dtype.str, r.shape, r.tobytes() if r.dtype != object else repr(r.tolist()))
    if isinstance(r, (pd.Series, pd.DataFrame)):
        return _plain(r.to_numpy())
    if isinstance(r, Grid):
        return _plain(r.data)
    if isinstance(r, (list, tuple)):
        return tuple(_plain(x) for x in r)
    if isinstance(r, dict):
        return tuple((repr(k), _plain(v)) for k, v in r.items())
    if isinstance(r, (float, int, str, bool, type(None), np.generic)):
        return repr(r)
    return type(r).__name__


# --------------------------------------------------------------------- catalogue
class Site(object):
    def __init__(self, name, build, call, layouts=None, exempt=()):
        self.name = name
        self.build = build          # (n, seed, layout) -> dict argname -> A | Fixed
        self.call = call            # dict of materialised args -> result
        self.layouts = layouts      # None = all
        self.exempt = set(exempt)


_CATALOGUE = None


def catalogue():
    global _CATALOGUE
    if _CATALOGUE is None:
        _CATALOGUE = build_catalogue()
    return _CATALOGUE


def with_ax(fun):
    """run fun(ax) on a fresh figure that is closed afterwards"""
    import matplotlib
    matplotlib.use("Agg")
    import matplotlib.pyplot as plt
    fig, ax = plt.subplots()
    try:
        return fun(ax)
    finally:
        plt.close(fig)
        plt.close("all")


FLOWDIR = [[0, 4, 4, 4, 0, 0],
           [0, 4, 4, 8, 0, 0],
           [0, 2, 4, 8, 0, 0],
           [0, 0, 2, 0, 0, 0],
           [0, 0, 0, 4, 0, 0],
           [0, 0, 0, 0, 0, 0]]
GRID_LAYOUTS = ["c64", "int64", "f32"]


def grid_dtype(layout):
    return {"int64": np.int64, "f32": np.float32}.get(layout, np.float64)


def make_flowdir(layout, int32=False, nodata_cells=False):
    from hydrodiy.gis.grid import Grid
    dt = np.int32 if int32 else grid_dtype(layout)
    g = Grid("fd", 6, 6, dtype=dt, nodata=-1, cellsize=0.5, xllcorner=10., yllcorner=-3.)
    g.data[...] = np.array(FLOWDIR)
    if nodata_cells:
        # cells holding the grid's (non-zero) no-data marker, as a real flow direction raster has outside the basin
        g.data[0, 0] = -1
        g.data[5, 5] = -1
        g.data[4, 0] = -1
    return g


def make_valgrid(layout, seed, nrows=6, ncols=6, cellsize=0.5, xll=10., yll=-3., name="val", special=False):
    from hydrodiy.gis.grid import Grid
    g = Grid(name, ncols, nrows, dtype=grid_dtype(layout), nodata=-9, cellsize=cellsize, xllcorner=xll, yllcorner=yll)
    g.data[...] = pos(nrows * ncols, seed, off=2).reshape(nrows, ncols)
    if special and np.dtype(g.dtype).kind == "f":
        # cells that a "clean-up" of the caller's grid would rewrite: NaN, +-inf and the no-data marker itself
        g.data[1, 2] = np.nan
        g.data[4, 4] = np.inf
        g.data[2, 0] = -np.inf
        g.data[3, 3] = -9
    return g


def make_catchment(layout, delineate=True, boundary=False):
    from hydrodiy.gis.grid import Catchment
    ca = Catchment("ca", make_flowdir(layout))
    if delineate:
        ca.delineate_area(27, nval=200)
    if boundary:
        ca.delineate_boundary()
    return ca


def build_catalogue():
    from hydrodiy.stat import metrics, sutils, armodels, transform
    from hydrodiy.data import dutils, qualitycontrol, signatures
    from hydrodiy.gis import grid as gridmod, gutils
    from hydrodiy.plot import putils, boxplot, violinplot
    S = []

    def add(name, build, call, layouts=None, exempt=()):
        S.append(Site(name, build, call, layouts, exempt))

    P = 4

    def obs_ens(n, s, lay):
        return {"obs": A(pos(n, s)), "ens": A(mat(n, P, s))}

    def obs_sim(n, s, lay):
        return {"obs": A(pos(n, s)), "sim": A(pos(n, s, off=4))}

    # ---- metrics
    add("metrics.pit", obs_ens, lambda a: metrics.pit(a["obs"], a["ens"]))
    add("metrics.pit[random]", obs_ens, lambda a: metrics.pit(a["obs"], a["ens"], random=True))
    add("metrics.crps", obs_ens, lambda a: metrics.crps(a["obs"], a["ens"]))

    def obs_ens_out(n, s, lay):
        # every observation outside its ensemble: below all members (even seed) / above all (odd seed);
        # the outlier bins of the reliability table are then decided by one side only
        e = mat(n, P, s)
        o = e.min(axis=1) - 1.5 - (np.arange(n) % 3) if s % 2 == 0 else e.max(axis=1) + 1.5 + (np.arange(n) % 3)
        return {"obs": A(o), "ens": A(e)}

    add("metrics.crps[obs-outside-ensemble]", obs_ens_out, lambda a: metrics.crps(a["obs"], a["ens"]))
    add("metrics.anderson_darling_test", lambda n, s, lay: {"unifdata": A(unif(n, s))},
        lambda a: metrics.anderson_darling_test(a["unifdata"]))
    add("metrics.cramer_von_mises_test", lambda n, s, lay: {"data": A(unif(n, s))},
        lambda a: metrics.cramer_von_mises_test(a["data"]))
    for ty in ("CV", "KS", "AD"):
        add("metrics.alpha[%s]" % ty, obs_ens, lambda a, ty=ty: metrics.alpha(a["obs"], a["ens"], type=ty))
    add("metrics.iqr", lambda n, s, lay: {"ens": A(mat(n, P, s)), "ref": A(mat(n, P + 1, s + 1))},
        lambda a: metrics.iqr(a["ens"], a["ref"]))
    for ty in ("standard", "normalised", "log"):
        add("metrics.bias[%s]" % ty, obs_sim, lambda a, ty=ty: metrics.bias(a["obs"], a["sim"], type=ty))
    add("metrics.bias[Log,excludenull]", obs_sim,
        lambda a: metrics.bias(a["obs"], a["sim"], trans=transform.Log(), excludenull=True))
    add("metrics.nse", obs_sim, lambda a: metrics.nse(a["obs"], a["sim"]))
    add("metrics.nse[BoxCox2,excludenull]", obs_sim,
        lambda a: metrics.nse(a["obs"], a["sim"], trans=transform.get_transform("BoxCox2", lam=0.5, nu=0.1), excludenull=True))
    add("metrics.dscore[deterministic]", lambda n, s, lay: {"obs": A(pos(n, s)), "sim": A(mat(n, 1, s))},
        lambda a: metrics.dscore(a["obs"], a["sim"]))
    add("metrics.dscore[ensemble]", obs_ens, lambda a: metrics.dscore(a["obs"], a["ens"]))
    add("metrics.kge", obs_sim, lambda a: metrics.kge(a["obs"], a["sim"]))
    add("metrics.kge[Log,excludenull]", obs_sim,
        lambda a: metrics.kge(a["obs"], a["sim"], trans=transform.Log(), excludenull=True))
    add("metrics.corr[Pearson]", obs_ens, lambda a: metrics.corr(a["obs"], a["ens"]))
    add("metrics.corr[Spearman,mean,excludenull]", obs_ens,
        lambda a: metrics.corr(a["obs"], a["ens"], type="Spearman", stat="mean", excludenull=True))
    add("metrics.corr[1d]", obs_sim, lambda a: metrics.corr(a["obs"], a["sim"]))

    # ---- shapes that a wrapper normalises (row vector, single column): the caller's array must keep its shape
    def obs_row(n, s, lay):
        return {"obs": A(pos(n, s)), "ens": A(pos(n, s, off=4).reshape(1, n))}

    def obs_col(n, s, lay):
        return {"obs": A(pos(n, s)), "ens": A(pos(n, s, off=4).reshape(n, 1))}

    def obs2d_col(n, s, lay):
        return {"obs": A(pos(n, s).reshape(n, 1)), "sim": A(pos(n, s, off=4).reshape(n, 1))}

    add("metrics.corr[row-vector]", obs_row, lambda a: metrics.corr(a["obs"], a["ens"]))
    add("metrics.corr[one-column]", obs_col, lambda a: metrics.corr(a["obs"], a["ens"]))
    add("metrics.crps[one-member]", obs_col, lambda a: metrics.crps(a["obs"], a["ens"]))
    add("metrics.pit[one-member]", obs_col, lambda a: metrics.pit(a["obs"], a["ens"]))
    add("metrics.alpha[one-member]", obs_col, lambda a: metrics.alpha(a["obs"], a["ens"]))
    add("metrics.dscore[one-column]", obs_col, lambda a: metrics.dscore(a["obs"], a["ens"]))
    add("metrics.kge[columns]", obs2d_col, lambda a: metrics.kge(a["obs"], a["sim"]))
    add("metrics.nse[columns]", obs2d_col, lambda a: metrics.nse(a["obs"], a["sim"]))
    add("metrics.bias[columns]", obs2d_col, lambda a: metrics.bias(a["obs"], a["sim"]))
    add("metrics.absolute_peak_error", obs_sim,
        lambda a: metrics.absolute_peak_error(a["obs"], a["sim"], winerase=2, winpeakbefore=1, winpeakafter=2))
    add("metrics.relative_percentile_error", obs_sim,
        lambda a: metrics.relative_percentile_error(a["obs"], a["sim"], [10, 90], neval=7))
    add("metrics.relative_percentile_error[modified]", obs_sim,
        lambda a: metrics.relative_percentile_error(a["obs"], a["sim"], [10, 90], modified=True, neval=7))
    add("metrics.confusion_matrix", lambda n, s, lay: {"obs": A(bools(n, s), "b"), "sim": A(bools(n, s, 3), "b")},
        lambda a: metrics.confusion_matrix(a["obs"], a["sim"]))
    add("metrics.binary", lambda n, s, lay: {"conf_mat": A(np.array([[5., 2.], [1., 4.]]) + s, "i")},
        lambda a: metrics.binary(a["conf_mat"]))

    # ---- sutils
    add("sutils.acf", lambda n, s, lay: {"data": A(pos(n, s))}, lambda a: sutils.acf(a["data"], maxlag=3))
    add("sutils.acf[idx]", lambda n, s, lay: {"data": A(pos(n, s)), "idx": A(~bools(n, s), "b")},
        lambda a: sutils.acf(a["data"], maxlag=3, idx=a["idx"]))
    add("sutils.lhs", lambda n, s, lay: {"pmin": A(np.array([0., 1., -2.]) + s), "pmax": A(np.array([1., 3., 1.]) + s)},
        lambda a: sutils.lhs(5, a["pmin"], a["pmax"]))
    add("sutils.lhs_norm", lambda n, s, lay: {"mean": A(np.array([0., 1., -2.]) + s),
                                               "cov": A(np.array([[2., .5, 0.], [.5, 1., .25], [0., .25, 3.]]))},
        lambda a: sutils.lhs_norm(6, a["mean"], a["cov"]))
    add("sutils.standard_normal", lambda n, s, lay: {"x": A(pos(n, s))}, lambda a: sutils.standard_normal(a["x"]))
    add("sutils.standard_normal[sorted]", lambda n, s, lay: {"x": A(np.sort(pos(n, s)))},
        lambda a: sutils.standard_normal(a["x"], cst=0.3, sorted=True))
    add("sutils.semicorr", lambda n, s, lay: {"unorm": A(mat(n, 2, s, centred))}, lambda a: sutils.semicorr(a["unorm"]))
    add("sutils.pareto_front", lambda n, s, lay: {"data": A(mat(n, 3, s))}, lambda a: sutils.pareto_front(a["data"]))
    add("sutils.pareto_front[-1]", lambda n, s, lay: {"data": A(mat(n, 3, s))},
        lambda a: sutils.pareto_front(a["data"], orientation=-1))

    def xy_reg(n, s, lay):
        X = mat(n, 2, s)
        X[:, 1] = X[:, 1] ** 2 / 7. + np.arange(n) % 4
        return {"X": A(X), "y": A(pos(n, s, off=5) + 0.5 * X[:, 0])}

    add("sutils.lstsq", xy_reg, lambda a: sutils.lstsq(a["X"], a["y"]))
    add("sutils.lstsq[add_intercept]", xy_reg, lambda a: sutils.lstsq(a["X"], a["y"], add_intercept=True))

    def xy_reg_R(n, s, lay):
        d = xy_reg(n, s, lay)
        d["R"] = A(np.array([[0., 1.]]), nan_ok=False)
        d["r"] = A(np.array([0.5]), nan_ok=False)
        return d

    add("sutils.lstsq[Rtest]", xy_reg_R, lambda a: sutils.lstsq(a["X"], a["y"], Rtest=[a["R"]], rtest=[a["r"]]))

    # ---- armodels
    def ar_in(n, s, lay):
        return {"params": A(np.array([0.5, 0.25]), nan_ok=False), "innov": A(centred(n, s))}

    add("armodels.armodel_sim", ar_in, lambda a: armodels.armodel_sim(a["params"], a["innov"], 0.5, 1.))
    add("armodels.armodel_sim[order1]", lambda n, s, lay: {"params": A(np.array([0.5]), nan_ok=False), "innov": A(centred(n, s))},
        lambda a: armodels.armodel_sim(a["params"], a["innov"]))
    add("armodels.armodel_residual", ar_in, lambda a: armodels.armodel_residual(a["params"], a["innov"]))
    add("armodels.armodel_residual[order1,mean]", lambda n, s, lay: {"params": A(np.array([0.5]), nan_ok=False), "inputs": A(centred(n, s))},
        lambda a: armodels.armodel_residual(a["params"], a["inputs"], sim_mean=0.25, sim_ini=0.))
    add("armodels.yule_walker", lambda n, s, lay: {"acf": A(np.array([1., 0.5, 0.25, 0.125]), nan_ok=False)},
        lambda a: armodels.yule_walker(a["acf"]))

    # ---- transforms
    for tname, kw in transform_configs("quick"):
        add_transform_sites(add, tname, kw)

    # ---- dutils
    add("dutils.sequence_true", lambda n, s, lay: {"values": A(bools(n, s), "b")}, lambda a: dutils.sequence_true(a["values"]))
    add("dutils.cast", lambda n, s, lay: {"x": A(pos(n, s)), "y": A(pos(n, s, 2))}, lambda a: dutils.cast(a["x"], a["y"]))
    add("dutils.dayofyear", lambda n, s, lay: {"days": Fixed(pd.date_range("2003-12-20", periods=n + 80, freq="D"))},
        lambda a: dutils.dayofyear(a["days"]), layouts=["c64"])
    for ts in ("MS", "D", "h", "AS", "AS-JUL"):
        add("dutils.compute_aggindex[%s]" % ts,
            lambda n, s, lay: {"time": Fixed(pd.date_range("2003-12-20", periods=n + 40, freq="6h"))},
            lambda a, ts=ts: dutils.compute_aggindex(a["time"], ts), layouts=["c64"])

    def agg_in(n, s, lay):
        return {"aggindex": A(runs(n, s), "i"), "inputs": A(pos(n, s))}

    for op in (0, 1, 2, 3):
        add("dutils.aggregate[oper=%d]" % op, agg_in, lambda a, op=op: dutils.aggregate(a["aggindex"], a["inputs"], op, 1))
    add("dutils.flathomogen", agg_in, lambda a: dutils.flathomogen(a["aggindex"], a["inputs"], 1))
    for lg in (2, -1, 0):
        add("dutils.lag[%d]" % lg, lambda n, s, lay: {"data": A(pos(n, s))}, lambda a, lg=lg: dutils.lag(a["data"], lg))
    add("dutils.lag[2d]", lambda n, s, lay: {"data": A(mat(n, 2, s))}, lambda a: dutils.lag(a["data"], 1))
    add("dutils.water_year_end", lambda n, s, lay: {"x": A(pos(max(n, 30), s), wrap="dts", freq="MS")},
        lambda a: dutils.water_year_end(a["x"]))
    for ip in ("flat", "cubic"):
        add("dutils.monthly2daily[%s]" % ip, lambda n, s, lay: {"se": A(pos(n, s), wrap="dts", freq="MS")},
            lambda a, ip=ip: dutils.monthly2daily(a["se"], ip))
    for nb in (3600, 1800):
        add("dutils.var2h[%d]" % nb, lambda n, s, lay: {"se": A(pos(n, s), wrap="dts", freq="irregular")},
            lambda a, nb=nb: dutils.var2h(a["se"], nbsec_per_period=nb))

    # ---- qualitycontrol / signatures
    add("qualitycontrol.ismisscens", lambda n, s, lay: {"x": A(pos(n, s) - 1.5)}, lambda a: qualitycontrol.ismisscens(a["x"]))
    add("qualitycontrol.ismisscens[2d]", lambda n, s, lay: {"x": A(mat(n, 3, s) - 1.5)}, lambda a: qualitycontrol.ismisscens(a["x"]))
    add("qualitycontrol.islinear", lambda n, s, lay: {"data": A(np.cumsum(pos(n, s) // 4))},
        lambda a: qualitycontrol.islinear(a["data"], npoints=1))
    add("signatures.eckhardt", lambda n, s, lay: {"flow": A(pos(n, s))}, lambda a: signatures.eckhardt(a["flow"]))
    add("signatures.eckhardt[hourly]", lambda n, s, lay: {"flow": A(pos(n, s))},
        lambda a: signatures.eckhardt(a["flow"], timestep_type=0))
    add("signatures.eckhardt[tau=50,thresh=0.5]", lambda n, s, lay: {"flow": A(pos(n, s))},
        lambda a: signatures.eckhardt(a["flow"], thresh=0.5, tau=50, BFI_max=0.5))
    add("signatures.fdcslope", lambda n, s, lay: {"x": A(pos(n, s))}, lambda a: signatures.fdcslope(a["x"], q1=20, q2=90))
    add("signatures.fdcslope[Log]", lambda n, s, lay: {"x": A(pos(n, s))},
        lambda a: signatures.fdcslope(a["x"], q1=20, q2=90, trans=transform.Log()))
    add("signatures.goue", lambda n, s, lay: {"aggindex": A(runs(n, s), "i"), "values": A(pos(n, s), nan_ok=False)},
        lambda a: signatures.goue(a["aggindex"], a["values"]))

    # ---- gutils
    POLY = np.array([[10.2, -2.8], [12.6, -2.6], [12.4, -0.4], [11.3, -1.1], [10.4, -0.2]])

    def pip_in(n, s, lay):
        pts = np.column_stack([10. + unif(n, s) * 3, -3. + unif(n, s, 7) * 3])
        return {"points": A(pts, nan_ok=False), "polygon": A(POLY + 0.01 * s, nan_ok=False)}

    add("gutils.points_inside_polygon", pip_in, lambda a: gutils.points_inside_polygon(a["points"], a["polygon"]))

    def pip_in2(n, s, lay):
        d = pip_in(n, s, lay)
        d["inside"] = Fixed(np.ones(n, dtype=np.int32), watch=False)
        return d

    add("gutils.points_inside_polygon[inside=buffer]", pip_in2,
        lambda a: gutils.points_inside_polygon(a["points"], a["polygon"], inside=a["inside"]).copy(), exempt=["inside"])

    # ---- Grid methods
    def gpts(n, s):
        p = np.column_stack([10. + unif(n, s) * 3, -3. + unif(n, s, 7) * 3])
        # special positions of the 6x6 value grid (extent [10,13] x [-3,0]): exactly on the right / top edge,
        # the two corners, just outside
        special = [(13.0, -1.0), (11.0, 0.0), (10.0, -3.0), (13.0, 0.0), (14.0, 1.0), (13.0 - 1e-11, -2.0)]
        for i, xy in enumerate(special[:max(0, min(len(special), n - 2))]):
            p[i] = xy
        return p

    add("grid.Grid.coord2cell", lambda n, s, lay: {"self": Fixed(make_valgrid("c64", s)), "xycoords": A(gpts(n, s), nan_ok=False)},
        lambda a: a["self"].coord2cell(a["xycoords"]))
    add("grid.Grid.cell2coord", lambda n, s, lay: {"self": Fixed(make_valgrid("c64", s)), "idxcells": A((np.arange(n) * 5 + s) % 36, "i")},
        lambda a: a["self"].cell2coord(a["idxcells"]))
    add("grid.Grid.cell2rowcol", lambda n, s, lay: {"self": Fixed(make_valgrid("c64", s)), "idxcells": A((np.arange(n) * 5 + s) % 36, "i")},
        lambda a: a["self"].cell2rowcol(a["idxcells"]))
    add("grid.Grid.slice", lambda n, s, lay: {"self": Fixed(make_valgrid("c64", s)), "xyslice": A(gpts(n, s), nan_ok=False)},
        lambda a: a["self"].slice(a["xyslice"]))
    add("grid.Grid.__getitem__", lambda n, s, lay: {"self": Fixed(make_valgrid("c64", s)), "index": A((np.arange(n) * 5 + s) % 36, "i")},
        lambda a: a["self"][a["index"]])

    def setitem(a):
        a["self"][a["index"]] = a["value"]
        return a["self"].data.copy()

    add("grid.Grid.__setitem__", lambda n, s, lay: {"self": Fixed(make_valgrid("c64", s), watch=False),
                                                     "index": A((np.arange(n) * 5 + s) % 36, "i"), "value": A(pos(n, s, 3))},
        setitem, exempt=["self"])

    def setdata(a):
        a["self"].data = a["value"]
        return a["self"].data.copy()

    add("grid.Grid.data[setter]", lambda n, s, lay: {"self": Fixed(make_valgrid("c64", s), watch=False), "value": A(mat(6, 6, s))},
        setdata, exempt=["self"])

    # the setter on a grid that carries finite value bounds (out-of-range values of the caller's array are clipped
    # in the grid, not in the caller's array), and what the grid does afterwards with ITS data
    def bounded_grid(s):
        g = make_valgrid("c64", s)
        g.mindata, g.maxdata = 2.0, 8.0
        return g

    add("grid.Grid.data[setter,bounded grid]", lambda n, s, lay: {"self": Fixed(bounded_grid(s), watch=False), "value": A(mat(6, 6, s))},
        setdata, exempt=["self"])

    def setdata_fill(a):
        a["self"].data = a["value"]
        a["self"].fill(-3.5)
        a["self"].data[0, 0] = 77.
        return a["self"].data.copy()

    add("grid.Grid.data[setter] then fill", lambda n, s, lay: {"self": Fixed(make_valgrid("c64", s), watch=False), "value": A(mat(6, 6, s))},
        setdata_fill, exempt=["self"])

    def gridself(n, s, lay):
        return {"self": Fixed(make_valgrid(lay, s))}

    def clip_fill(a):
        # a band over the full width of the parent, then the child is overwritten: the parent keeps its cells
        child = a["self"].clip(10.1, -2.4, 12.9, -0.9)
        out = child.data.copy()
        child.fill(5.5)
        child.data[0, 0] = -1.
        return out

    add("grid.Grid.clip[full width] then fill", gridself, clip_fill, layouts=GRID_LAYOUTS)

    def apply_inplace(a):
        def fun(x):
            x[x < 3.] = 0
            return x
        return a["self"].apply(fun)

    add("grid.Grid.apply[function working in place]", gridself, apply_inplace, layouts=GRID_LAYOUTS)
    add("grid.Grid.apply[ufunc out=]", gridself, lambda a: a["self"].apply(lambda x: np.add(x, 1, out=x)), layouts=GRID_LAYOUTS)

    add("grid.Grid.clip", gridself, lambda a: a["self"].clip(10.6, -2.4, 12.1, -0.9), layouts=GRID_LAYOUTS)
    add("grid.Grid.clone", gridself, lambda a: a["self"].clone(), layouts=GRID_LAYOUTS)
    add("grid.Grid.clone[int32]", gridself, lambda a: a["self"].clone(np.int32), layouts=GRID_LAYOUTS)
    add("grid.Grid.apply", gridself, lambda a: a["self"].apply(np.sqrt), layouts=GRID_LAYOUTS)
    add("grid.Grid.to_dict", gridself, lambda a: a["self"].to_dict(), layouts=GRID_LAYOUTS)
    add("grid.Grid.interpolate", lambda n, s, lay: {"self": Fixed(make_valgrid(lay, s)),
                                                     "grid": Fixed(make_valgrid(lay, s + 1, 4, 5, 0.6, 10.1, -2.9, "other"))},
        lambda a: a["self"].interpolate(a["grid"]), layouts=GRID_LAYOUTS)
    add("grid.Grid.interpolate[same geometry]", lambda n, s, lay: {"self": Fixed(make_valgrid(lay, s)),
                                                                    "grid": Fixed(make_valgrid(lay, s + 1))},
        lambda a: a["self"].interpolate(a["grid"]), layouts=GRID_LAYOUTS)
    add("grid.Grid.same_geometry", lambda n, s, lay: {"self": Fixed(make_valgrid(lay, s)), "grd": Fixed(make_valgrid(lay, s + 1))},
        lambda a: a["self"].same_geometry(a["grd"]), layouts=GRID_LAYOUTS)
    add("grid.Grid.cells_inside_polygon", lambda n, s, lay: {"self": Fixed(make_valgrid("c64", s)), "polygon": A(POLY, nan_ok=False)},
        lambda a: a["self"].cells_inside_polygon(a["polygon"]))
    add("grid.Grid.plot", gridself, lambda a: with_ax(lambda ax: np.asarray(a["self"].plot(ax).get_array())), layouts=GRID_LAYOUTS)
    add("grid.Grid.plot_values", gridself,
        lambda a: with_ax(lambda ax: [t.get_text() for t in a["self"].plot_values(ax)]), layouts=GRID_LAYOUTS)

    # ---- Catchment methods and grid level functions
    add(OBJ_SITE, lambda n, s, lay: {}, lambda a: None, layouts=["int64"])

    def catch_idx(n, s, lay):
        return {"self": Fixed(make_catchment("int64", False)), "idx": A((np.arange(n) * 5 + s) % 36, "i")}

    add("grid.Catchment.upstream", catch_idx, lambda a: a["self"].upstream(a["idx"]))
    add("grid.Catchment.downstream", catch_idx, lambda a: a["self"].downstream(a["idx"]))

    def delin(a):
        ca = a["self"]
        ca.delineate_area(27, a["idxinlets"], nval=200)
        return (ca.idxcells_area.copy(), ca.idxcells_area_filled.copy())

    add("grid.Catchment.delineate_area", lambda n, s, lay: {"self": Fixed(make_catchment("int64", False)),
                                                             "idxinlets": A(np.array([8, 2 + s % 2]), "i")}, delin)

    def delin_b(a):
        ca = a["self"]
        ca.delineate_boundary(a["mask"])
        return (ca.idxcells_boundary.copy(), ca.xycells_boundary.copy())

    def mask_in(n, s, lay):
        ca = make_catchment("int64")
        m = np.zeros(36)
        m[ca.idxcells_area_filled] = 1
        return {"self": Fixed(ca), "mask": A(m, "i")}

    add("grid.Catchment.delineate_boundary[mask]", mask_in, delin_b)

    def catchself(n, s, lay):
        return {"self": Fixed(make_catchment(lay, True, True))}

    def fpl(a):
        a["self"].compute_flowpathlengths()
        return a["self"].flowpathlengths

    add("grid.Catchment.compute_flowpathlengths", catchself, fpl, layouts=GRID_LAYOUTS)
    add("grid.Catchment.extent", catchself, lambda a: a["self"].extent(), layouts=GRID_LAYOUTS)
    add("grid.Catchment.to_dict", catchself, lambda a: a["self"].to_dict(), layouts=GRID_LAYOUTS)
    add("grid.Catchment.clone", catchself, lambda a: a["self"].clone(), layouts=GRID_LAYOUTS)
    add("grid.Catchment.intersect", lambda n, s, lay: {"self": Fixed(make_catchment("int64")),
                                                        "grid": Fixed(make_valgrid(lay, s, 3, 3, 1.0, 10., -3., "coarse"))},
        lambda a: a["self"].intersect(a["grid"]), layouts=GRID_LAYOUTS)

    def two_catch(n, s, lay):
        c1 = make_catchment(lay)
        c2 = make_catchment(lay, False)
        c2.delineate_area(20, nval=200)
        return {"self": Fixed(c1), "other": Fixed(c2)}

    add("grid.Catchment.__add__", two_catch, lambda a: a["self"] + a["other"], layouts=GRID_LAYOUTS)
    add("grid.Catchment.__sub__", two_catch, lambda a: a["self"] - a["other"], layouts=GRID_LAYOUTS)
    add("grid.delineate_river", lambda n, s, lay: {"flowdir": Fixed(make_flowdir(lay))},
        lambda a: gridmod.delineate_river(a["flowdir"], 2, nval=50), layouts=GRID_LAYOUTS)
    add("grid.delineate_river[int32]", lambda n, s, lay: {"flowdir": Fixed(make_flowdir(lay, True))},
        lambda a: gridmod.delineate_river(a["flowdir"], 1, nval=50), layouts=["c64"])
    add("grid.accumulate", lambda n, s, lay: {"flowdir": Fixed(make_flowdir(lay))},
        lambda a: gridmod.accumulate(a["flowdir"], nprint=10), layouts=GRID_LAYOUTS)
    add("grid.accumulate[flowdir with no-data cells]", lambda n, s, lay: {"flowdir": Fixed(make_flowdir(lay, nodata_cells=True))},
        lambda a: gridmod.accumulate(a["flowdir"], nprint=10), layouts=GRID_LAYOUTS)
    add("grid.slope[flowdir with no-data cells]", lambda n, s, lay: {"flowdir": Fixed(make_flowdir("int64", nodata_cells=True)),
                                                                    "altitude": Fixed(make_valgrid(lay, s))},
        lambda a: gridmod.slope(a["flowdir"], a["altitude"], nprint=10), layouts=GRID_LAYOUTS)
    add("grid.delineate_river[flowdir with no-data cells]", lambda n, s, lay: {"flowdir": Fixed(make_flowdir(lay, nodata_cells=True))},
        lambda a: gridmod.delineate_river(a["flowdir"], 2, nval=50), layouts=GRID_LAYOUTS)

    def catch_nd(a):
        from hydrodiy.gis.grid import Catchment
        ca = Catchment("ca", a["flowdir"])
        ca.delineate_area(27, nval=200)
        ca.delineate_boundary()
        ca.compute_flowpathlengths()
        return (ca.idxcells_area.copy(), ca.idxcells_boundary.copy(), ca.flowpathlengths.values.copy())

    add("grid.Catchment[flowdir with no-data cells]", lambda n, s, lay: {"flowdir": Fixed(make_flowdir(lay, nodata_cells=True))},
        catch_nd, layouts=GRID_LAYOUTS)
    add("grid.accumulate[to_accumulate]", lambda n, s, lay: {"flowdir": Fixed(make_flowdir("int64")),
                                                              "to_accumulate": Fixed(make_valgrid(lay, s))},
        lambda a: gridmod.accumulate(a["flowdir"], a["to_accumulate"], nprint=10), layouts=GRID_LAYOUTS)
    add("grid.slope", lambda n, s, lay: {"flowdir": Fixed(make_flowdir("int64")), "altitude": Fixed(make_valgrid(lay, s))},
        lambda a: gridmod.slope(a["flowdir"], a["altitude"], nprint=10), layouts=GRID_LAYOUTS)
    FLOAT_GRIDS = ["c64", "f32"]
    add("grid.accumulate[to_accumulate,special cells]", lambda n, s, lay: {"flowdir": Fixed(make_flowdir("int64")),
                                                                            "to_accumulate": Fixed(make_valgrid(lay, s, special=True))},
        lambda a: gridmod.accumulate(a["flowdir"], a["to_accumulate"], nprint=10), layouts=FLOAT_GRIDS)
    add("grid.slope[special cells]", lambda n, s, lay: {"flowdir": Fixed(make_flowdir("int64")),
                                                         "altitude": Fixed(make_valgrid(lay, s, special=True))},
        lambda a: gridmod.slope(a["flowdir"], a["altitude"], nprint=10), layouts=FLOAT_GRIDS)
    add("grid.gsmooth[special cells]", lambda n, s, lay: {"grid": Fixed(make_valgrid(lay, s, special=True))},
        lambda a: gridmod.gsmooth(a["grid"], coastwin=3, sigma=0.3), layouts=FLOAT_GRIDS)
    add("grid.Grid.interpolate[special cells]", lambda n, s, lay: {"self": Fixed(make_valgrid(lay, s, special=True)),
                                                                    "grid": Fixed(make_valgrid(lay, s + 1, 4, 5, 0.6, 10.1, -2.9, "other"))},
        lambda a: a["self"].interpolate(a["grid"]), layouts=FLOAT_GRIDS)
    add("grid.Grid.clip[special cells]", lambda n, s, lay: {"self": Fixed(make_valgrid(lay, s, special=True))},
        lambda a: a["self"].clip(10.6, -2.4, 12.1, -0.9), layouts=FLOAT_GRIDS)
    add("grid.Grid.apply[special cells]", lambda n, s, lay: {"self": Fixed(make_valgrid(lay, s, special=True))},
        lambda a: a["self"].apply(np.sqrt), layouts=FLOAT_GRIDS)
    add("grid.Catchment.intersect[special cells]", lambda n, s, lay: {"self": Fixed(make_catchment("int64")),
                                                                       "grid": Fixed(make_valgrid(lay, s, 3, 3, 1.0, 10., -3., "coarse", special=False))},
        lambda a: a["self"].intersect(a["grid"], filled=True), layouts=FLOAT_GRIDS)
    add("grid.voronoi", lambda n, s, lay: {"catchment": Fixed(make_catchment("int64")), "xypoints": A(gpts(min(n, 6), s), nan_ok=False)},
        lambda a: gridmod.voronoi(a["catchment"], a["xypoints"]))

    def smooth_in(n, s, lay):
        m = make_valgrid("int64", s, name="mask")
        m.data[...] = (np.arange(36).reshape(6, 6) % 5 > 0).astype(np.int64)
        return {"grid": Fixed(make_valgrid(lay, s)), "mask": Fixed(m)}

    add("grid.gsmooth[mask]", smooth_in, lambda a: gridmod.gsmooth(a["grid"], a["mask"], coastwin=3, sigma=0.3),
        layouts=GRID_LAYOUTS)
    add("grid.gsmooth", lambda n, s, lay: {"grid": Fixed(make_valgrid(lay, s))},
        lambda a: gridmod.gsmooth(a["grid"], coastwin=3, sigma=0.3), layouts=GRID_LAYOUTS)

    # ---- plots
    def xy_in(n, s, lay):
        return {"xy": A(np.column_stack([pos(n, s), pos(n, s, 5) + 0.25 * np.arange(n)]), nan_ok=False)}

    add("putils.kde", xy_in, lambda a: putils.kde(a["xy"], ngrid=8))
    add("putils.kde[eps=0]", lambda n, s, lay: {"xy": A(np.column_stack([unif(n, s) * 5, unif(n, s, 9) * 3 + np.arange(n) * 0.1]), nan_ok=False)},
        lambda a: putils.kde(a["xy"], ngrid=8, eps=0.))
    add("putils.kde[2xN]", lambda n, s, lay: {"xy": A(np.column_stack([pos(n, s), pos(n, s, 5) + 0.25 * np.arange(n)]).T.copy(), nan_ok=False)},
        lambda a: putils.kde(a["xy"], ngrid=8))
    add("putils.ecdfplot", lambda n, s, lay: {"df": A(mat(n, 3, s), frame=True)},
        lambda a: with_ax(lambda ax: {k: (np.asarray(l.get_xdata(), float), np.asarray(l.get_ydata(), float))
                                      for k, l in putils.ecdfplot(ax, a["df"], label_stat="mean").items()}))
    add("putils.qqplot", lambda n, s, lay: {"data": A(pos(n, s))},
        lambda a: with_ax(lambda ax: (putils.qqplot(ax, a["data"]), [np.asarray(l.get_ydata(), float) for l in ax.get_lines()])))
    add("putils.qqplot[addline,censor]", lambda n, s, lay: {"data": A(pos(n, s))},
        lambda a: with_ax(lambda ax: (putils.qqplot(ax, a["data"], addline=True, censor=1.),
                                      [np.asarray(l.get_ydata(), float) for l in ax.get_lines()])))
    add("boxplot.boxplot_stats", lambda n, s, lay: {"data": A(pos(n, s))}, lambda a: boxplot.boxplot_stats(a["data"], 50, 90))
    add("boxplot.Boxplot", lambda n, s, lay: {"data": A(mat(n, 3, s))}, lambda a: boxplot.Boxplot(a["data"]).stats)
    add("boxplot.Boxplot[1d]", lambda n, s, lay: {"data": A(pos(n, s))}, lambda a: boxplot.Boxplot(a["data"]).stats)
    add("boxplot.Boxplot[by]", lambda n, s, lay: {"data": A(pos(n, s)), "by": A(np.arange(n) % 3, "i")},
        lambda a: boxplot.Boxplot(a["data"], by=a["by"]).stats)

    def bp_draw(a, **kw):
        def f(ax):
            bp = boxplot.Boxplot(a["data"], **kw)
            bp.draw(ax=ax)
            bp.show_count()
            return bp.stats
        return with_ax(f)

    add("boxplot.Boxplot.draw", lambda n, s, lay: {"data": A(mat(n, 3, s))}, bp_draw)
    add("boxplot.Boxplot.draw[narrow,text]", lambda n, s, lay: {"data": A(mat(n, 3, s))},
        lambda a: bp_draw(a, style="narrow", show_text=True, show_mean=True))

    def vl(a, draw):
        def f(ax):
            v = violinplot.Violin(a["data"], npoints_kde=20)
            if draw:
                v.draw(ax=ax)
            return (v.stats, v.kde_x, v.kde_y)
        return with_ax(f)

    add("violinplot.Violin", lambda n, s, lay: {"data": A(mat(n, 3, s))}, lambda a: vl(a, False))
    add("violinplot.Violin.draw", lambda n, s, lay: {"data": A(mat(n, 3, s))}, lambda a: vl(a, True))
    return S


TRANSFORM_BASE = [
    ("Identity", {}), ("Logit", {}), ("Log", {"nu": 0.1}), ("BoxCox2", {"nu": 0.1, "lam": 0.5}),
    ("BoxCox1lam", {"nu": 0.1, "lam": 0.5}), ("BoxCox1nu", {"nu": 0.1, "lam": 0.5}),
    ("BoxCox2sym", {"nu": 0.1, "lam": 0.5}), ("YeoJohnson", {"nu": 0., "scale": 1., "lam": 0.5}),
    ("LogSinh", {"xmax": 1., "loga": -1., "logb": 0.}), ("Reciprocal", {"nu": 0.1}), ("Softmax", {}),
    ("Sinh", {"nu": 0., "scale": 2.}), ("Manly", {"xmax": 1., "lam": 0.5}),
]
TRANSFORM_LATTICE = [
    ("Logit", {"lower": -1., "logdelta": 1.}), ("Log", {"nu": 1e-10}), ("BoxCox2", {"nu": 0.1, "lam": 0.}),
    ("BoxCox2", {"nu": 1., "lam": 1.}), ("BoxCox2", {"nu": 0.1, "lam": 2.}), ("BoxCox1lam", {"nu": 1., "lam": 0.}),
    ("BoxCox1nu", {"nu": 1., "lam": 0.}), ("BoxCox2sym", {"nu": 1., "lam": 0.}),
    ("YeoJohnson", {"nu": -0.5, "scale": 3., "lam": 0.}), ("YeoJohnson", {"nu": -0.5, "scale": 3., "lam": 2.}),
    ("YeoJohnson", {"nu": 0.5, "scale": 0.5, "lam": 1.}), ("LogSinh", {"xmax": 0.5, "loga": -5., "logb": 1.}),
    ("Reciprocal", {"nu": 1.}), ("Sinh", {"nu": 0.5, "scale": 0.1}), ("Manly", {"xmax": 0.5, "lam": -2.}),
]


def transform_configs(tier):
    return TRANSFORM_BASE if tier == "quick" else TRANSFORM_BASE + TRANSFORM_LATTICE


def add_transform_sites(add, tname, kw):
    from hydrodiy.stat import transform
    tag = tname if (tname, kw) in TRANSFORM_BASE else "%s{%s}" % (tname, ",".join("%s=%g" % kv for kv in sorted(kw.items())))

    def build(n, s, lay, tname=tname, kw=kw):
        tr = transform.get_transform(tname, **kw)
        if tname == "Softmax":
            x = mat(n, 3, s, unif) / 4.
        else:
            x = unif(n, s) * 0.8 + 0.1
        return {"trans": Fixed(tr, watch=False), "x": A(x)}

    for meth in ("forward", "backward", "jacobian", "backward_censored"):
        def call(a, meth=meth):
            f = getattr(a["trans"], meth)
            if meth == "backward_censored":
                return f(a["x"], 0.2)
            return f(a["x"])
        add("transform.%s.%s" % (tag, meth), build, call)


_LATTICE_SITES = None


def lattice_sites():
    """extra transform sites of the thorough tier"""
    global _LATTICE_SITES
    if _LATTICE_SITES is None:
        S = []
        for tname, kw in TRANSFORM_LATTICE:
            add_transform_sites(lambda name, build, call, layouts=None, exempt=(): S.append(Site(name, build, call, layouts, exempt)),
                                tname, kw)
        _LATTICE_SITES = S
    return _LATTICE_SITES


def all_sites(tier):
    return catalogue() + ([] if tier == "quick" else lattice_sites())


def find_site(name):
    for s in catalogue() + lattice_sites():
        if s.name == name:
            return s
    raise KeyError(name)


# --------------------------------------------------------------------- one case
def prepare(site, case):
    """-> (args dict, watched list of (label, obj)) or None when the layout does not apply"""
    layout, n, seed, nan = case["layout"], case["n"], case["seed"], case["nan"]
    only = case.get("only")         # thorough: this argument alone takes the layout, the others are c64
    specs = site.build(n, seed, layout)
    args, watched = {}, []
    applied = False
    has2d = any(isinstance(sp, A) and sp.base.ndim == 2 and sp.wrap is None for sp in specs.values())
    nlay = sum(1 for sp in specs.values() if isinstance(sp, A))
    if layout == "fortran" and not has2d:
        return None
    if only is not None and (only not in specs or not isinstance(specs[only], A) or nlay < 2):
        return None
    for name, sp in specs.items():
        if isinstance(sp, Fixed):
            args[name] = sp.value
            if sp.watch and name not in site.exempt:
                watched.append((name, sp.value))
            continue
        lay = layout if (only is None or only == name) else "c64"
        m = materialise(sp, lay, nan)
        if m is None:
            if only == name:
                return None
            m = materialise(sp, "c64", nan)
        else:
            applied = applied or (lay == layout)
        obj, extras = m
        args[name] = obj
        if sp.watch and name not in site.exempt:
            watched.append((name, obj))
            for lab, ex in extras:
                watched.append(("%s.%s" % (name, lab), ex))
    if nlay == 0:
        applied = True
    if nan and not any(isinstance(sp, A) and sp.nan_ok for sp in specs.values()):
        return None
    if nan and layout == "int64":
        return None
    if not applied:
        return None
    return args, watched


def compare_snapshots(ctx, site, case, before, watched, icall, tag, reported, who=""):
    """snapshot oracle after one call: one finding per changed argument (the most structural change names it)"""
    changed_here = set()
    for (lab, s0), (_, obj) in zip(before, watched):
        try:
            s1 = snap(obj)
        except Exception as e:
            s1 = {"t": "unreadable:%r" % (e,)}
        diffs = snap_diff(s0, s1, lab)
        if diffs:
            # one finding per argument: the most structural change names it
            diffs.sort(key=lambda d: WHAT_ORDER.index(d[1]) if d[1] in WHAT_ORDER else len(WHAT_ORDER))
            path, what = diffs[0]
            changed_here.add(lab)
            parent = lab.rsplit(".", 1)[0]
            if not (lab.endswith((".base", ".frame-base")) and parent in changed_here):
                kind = "grid-cells-changed" if what == "cells" else "argument-mutated"
                key = "%s:%s:%s.%s:%s" % (site.name, kind, path, what, tag)
                if key not in reported:
                    reported.add(key)
                    ctx.violation(key, case, "%s (n=%d): %sargument %s changed (%s) during call %d; before %s, after %s" % (
                        site.name, case["n"], who, path, ", ".join(sorted(set(d[1] for d in diffs))), icall,
                        describe(s0), describe(s1)))
        if s0.get("unjudged_dtype") is not None and s1.get("unjudged_dtype") != s0.get("unjudged_dtype"):
            ctx.count("unjudged.grid_dtype_changed.%s" % site.name)


def run_case(ctx, site, case):
    if case.get("history") == "pair":
        return run_pairs(ctx, case["group"], "thorough", case["seed"], only=case["pair"])
    if case.get("history") == "object":
        return run_case_object(ctx, site, case)
    if case.get("history") == 3:
        return run_case3(ctx, site, case)
    pr = prepare(site, case)
    if pr is None:
        ctx.count("not_applicable.layout=%s" % case["layout"])
        return
    args, watched = pr
    tag = "layout=%s" % case["layout"] + (":only=%s" % case["only"] if case.get("only") else "")
    before = [(lab, snap(o)) for lab, o in watched]
    results = []
    mutated_reported = set()
    for icall in (1, 2):
        heap_scribble(icall)
        np.random.seed(RSEED + case["seed"])
        try:
            res = ("ok", site.call(args))
        except Exception as e:      # layout not accepted (or a genuine error: repeated identically)
            res = ("raise", type(e).__name__, str(e)[:200])
        results.append(res)
        ctx.transitions += 1
        ctx.states += 1
        compare_snapshots(ctx, site, case, before, watched, icall, tag, mutated_reported)
    ctx.states += 1
    ctx.traces += 1
    r1, r2 = results
    ok = r1[0] == "ok"
    ctx.case(ok, outcome=outcome_hash(r1[1]) if ok else hash(r1[1:2]))
    if case["n"] not in (12, 31, 40, 120, 365):
        ctx.count("ladder.cases")
    if not ok:
        ctx.count("rejected.%s" % r1[1])
        ctx.count("rejected.layout=%s" % case["layout"])
    else:
        ctx.count("accepted.layout=%s" % case["layout"])
    if r1[0] != r2[0] or (r1[0] == "raise" and r1[1] != r2[1]):
        ctx.violation("%s:not-repeatable:outcome:%s" % (site.name, tag), case,
                      "%s (n=%d): first call %s, second call %s" % (site.name, case["n"], short(r1), short(r2)))
    elif ok:
        st, where = requal(r1[1], r2[1])
        if st == "diff":
            ctx.violation("%s:not-repeatable:%s" % (site.name, tag), case,
                          "%s (n=%d): the second call with the same arguments and seed returned a different result at %s" % (
                              site.name, case["n"], where))
        elif st == "close":
            ctx.count("repeat.float_noise_accepted")


def private_copy(res):
    """deep copy of a result (None when it cannot be copied)"""
    try:
        return copy.deepcopy(res)
    except Exception:
        try:
            return pickle.loads(pickle.dumps(res))
        except Exception:
            return None


def run_case3(ctx, site, case):
    """three-call history: call(A); call(B) with other data of the same shapes; call(A) again"""
    prA = prepare(site, case)
    prB = prepare(site, dict(case, seed=case["seed"] + 1))
    if prA is None or prB is None:
        ctx.count("not_applicable.layout=%s" % case["layout"])
        return
    argsA, watchedA = prA
    argsB, watchedB = prB
    tag = "layout=%s:history3" % case["layout"]
    beforeA = [(lab, snap(o)) for lab, o in watchedA]
    beforeB = [(lab, snap(o)) for lab, o in watchedB]

    def shapes(bf):
        return [(lab, s.get("t"), s.get("shape"), s.get("dtype")) for lab, s in bf]
    if shapes(beforeA) != shapes(beforeB):
        ctx.count("history3.B-has-other-shapes")
    if [s for _, s in beforeA] == [s for _, s in beforeB]:
        ctx.count("history3.B-equals-A(no-seed-dependent-argument)")
    repA, repB = set(), set()

    ncalls = [0]

    def call(args):
        ncalls[0] += 1
        heap_scribble(ncalls[0])
        np.random.seed(RSEED + case["seed"])
        try:
            return ("ok", site.call(args))
        except Exception as e:
            return ("raise", type(e).__name__, str(e)[:200])

    def watch(icall):
        ctx.transitions += 1
        ctx.states += 1
        compare_snapshots(ctx, site, case, beforeA, watchedA, icall, tag, repA, who="(arguments A) ")
        compare_snapshots(ctx, site, case, beforeB, watchedB, icall, tag, repB, who="(arguments B) ")

    r1 = call(argsA)
    watch(1)
    keep = private_copy(r1[1]) if r1[0] == "ok" else None
    copied = keep is not None or (r1[0] == "ok" and r1[1] is None)
    if r1[0] == "ok" and not copied:
        ctx.count("history3.result-not-copyable")
        keep = r1[1]
    rb = call(argsB)
    watch(2)
    if r1[0] == "ok" and copied:
        st, where = requal(keep, r1[1])
        if st == "diff":
            ctx.violation("%s:history3:earlier-result-overwritten:%s" % (site.name, "layout=%s" % case["layout"]), case,
                          "%s (n=%d): the object returned by the first call changed while the function was called with "
                          "other arguments (at %s)" % (site.name, case["n"], where))
    r3 = call(argsA)
    watch(3)
    ctx.states += 1
    ctx.traces += 1
    ok = r1[0] == "ok"
    ctx.case(ok, outcome=("h3", outcome_hash(r1[1])) if ok else hash(("h3",) + r1[1:2]))
    ctx.count("history3.cases")
    if ok and rb[0] == "ok" and requal(keep, rb[1])[0] != "diff":
        ctx.count("history3.B-result-equals-A-result")
    if not ok:
        ctx.count("rejected.%s" % r1[1])
        ctx.count("rejected.layout=%s" % case["layout"])
    else:
        ctx.count("accepted.layout=%s" % case["layout"])
    if r1[0] != r3[0] or (r1[0] == "raise" and r1[1] != r3[1]):
        ctx.violation("%s:history3:outcome:layout=%s" % (site.name, case["layout"]), case,
                      "%s (n=%d): first call %s, the same call after a call with other arguments %s" % (
                          site.name, case["n"], short(r1), short(r3)))
    elif ok:
        st, where = requal(keep, r3[1])
        if st == "diff":
            ctx.violation("%s:history3:first-call-not-reproduced:layout=%s" % (site.name, case["layout"]), case,
                          "%s (n=%d): call(A), call(B), call(A): the third call does not return what the first returned "
                          "(at %s); B = the same shapes with the data pattern of seed %d" % (
                              site.name, case["n"], where, case["seed"] + 1))
        elif st == "close":
            ctx.count("repeat.float_noise_accepted")


def short(r):
    return "returned" if r[0] == "ok" else "raised %s(%s)" % (r[1], r[2])


def describe(s):
    d = {k: v for k, v in s.items() if k not in ("values", "cells", "index")}
    v = s.get("values")
    if isinstance(v, bytes) and s.get("t") == "ndarray":
        try:
            arr = np.frombuffer(v, dtype=np.dtype(s["dtype"]))
            d["values"] = np.array2string(arr[:8], precision=12)
        except Exception:
            pass
    return repr(d)


# --------------------------------------------------------------------- heap scribble
# Between the calls of a history the free lists of the C allocator are refilled with blocks holding a
# recognisable byte pattern (another pattern before each call).  A kernel that reads a malloc'ed or
# np.empty'ed cell it never wrote then returns another value at each call, so that "same arguments, same
# result" is decided instead of depending on what the previous call happened to leave on the heap.
SCRIBBLE_BYTES = [0x5A, 0xA5, 0x3C]      # as float64: 1.2e127, -1.8e-127, 1.5e-18 (finite, distinct, not NaN)
SCRIBBLE_SIZES = [sz for sz in range(16, 1041, 16) for _ in range(9)] + \
                 [sz for k in range(11, 17) for sz in (2 ** k, 2 ** k + 2 ** (k - 1))] * 2 + [120000]
_LIBC = None


def heap_scribble(icall):
    global _LIBC
    if _LIBC is None:
        import ctypes
        lib = ctypes.CDLL(None)
        lib.malloc.restype = ctypes.c_void_p
        lib.malloc.argtypes = [ctypes.c_size_t]
        lib.memset.restype = ctypes.c_void_p
        lib.memset.argtypes = [ctypes.c_void_p, ctypes.c_int, ctypes.c_size_t]
        lib.free.restype = None
        lib.free.argtypes = [ctypes.c_void_p]
        _LIBC = lib
    lib = _LIBC
    byte = SCRIBBLE_BYTES[(icall - 1) % len(SCRIBBLE_BYTES)]
    try:
        lib.mallopt(-6, 0xFF ^ byte)     # M_PERTURB: from now on every malloc'ed block is filled with `byte`
    except Exception:
        pass
    blocks = []
    for sz in SCRIBBLE_SIZES:
        ptr = lib.malloc(sz)
        if ptr:
            lib.memset(ptr, byte, sz)
            blocks.append(ptr)
    for ptr in blocks:
        lib.free(ptr)


# --------------------------------------------------------------------- method histories of one Catchment
# explicit enumeration of every sequence of Catchment operations up to a depth, on a fresh catchment each;
# after every operation all observations (queries with fixed arguments) are taken again and must equal the
# ones taken right after delineate_area: no operation may change what another returns for the same arguments.
OBJ_SITE = "grid.Catchment[method-history]"
OBJ_FLOWDIRS = {
    "nohole": (FLOWDIR, 27, None),
    "inlets": (FLOWDIR, 27, [8]),
    # ring of cells around a sink: the filled area has one more cell than the area
    "ring": ([[0, 0, 0, 0, 0, 0],
              [0, 1, 1, 4, 0, 0],
              [0, 4, 0, 4, 0, 0],
              [0, 1, 1, 4, 0, 0],
              [0, 0, 0, 0, 0, 0],
              [0, 0, 0, 0, 0, 0]], 19, None),
}
OBJ_OPS = ["boundary", "boundary_mask", "fpl", "intersect", "intersect_filled", "extent", "to_dict", "clone",
           "add", "sub", "voronoi", "area_again", "upstream", "downstream"]
OBJ_OPS_THOROUGH = OBJ_OPS + ["plot_area", "plot_boundary", "from_dict"]


def obj_depth(tier):
    return 2 if tier == "quick" else 3


def obj_cases(tier, seed):
    import itertools
    ops = OBJ_OPS if tier == "quick" else OBJ_OPS_THOROUGH
    for fd in sorted(OBJ_FLOWDIRS):
        for d in range(1, obj_depth(tier) + 1):
            for seq in itertools.product(ops, repeat=d):
                if d > 1 and not any(o in ("boundary", "boundary_mask", "fpl", "area_again", "add", "sub", "clone", "from_dict") for o in seq[:-1]):
                    # a sequence of queries only: its prefixes are covered by the shorter sequences and the
                    # observations taken after every step already call every query
                    continue
                yield {"site": OBJ_SITE, "layout": "int64", "n": 0, "seed": seed, "nan": False,
                       "history": "object", "fd": fd, "ops": list(seq)}


def obj_build(fd):
    from hydrodiy.gis.grid import Grid, Catchment
    codes, outlet, inlets = OBJ_FLOWDIRS[fd]
    g = Grid("fd", 6, 6, dtype=np.int64, nodata=-1, cellsize=0.5, xllcorner=10., yllcorner=-3.)
    g.data[...] = np.array(codes)
    ca = Catchment("ca", g)
    ca.delineate_area(outlet, inlets, nval=200)
    other = Catchment("other", g)
    other.delineate_area(20 if fd != "ring" else 9, nval=200)
    coarse = make_valgrid("c64", 0, 3, 3, 1.0, 10., -3., "coarse")
    return ca, other, coarse, (outlet, inlets)


def obj_apply(op, ca, other, coarse, how):
    from hydrodiy.gis import grid as gridmod
    if op == "boundary":
        ca.delineate_boundary()
    elif op == "boundary_mask":
        m = np.zeros(36, dtype=np.int64)
        m[ca.idxcells_area_filled] = 1
        ca.delineate_boundary(m)
    elif op == "fpl":
        ca.compute_flowpathlengths()
    elif op == "intersect":
        ca.intersect(coarse)
    elif op == "intersect_filled":
        ca.intersect(coarse, filled=True)
    elif op == "extent":
        ca.extent()
    elif op == "to_dict":
        ca.to_dict()
    elif op == "from_dict":
        gridmod.Catchment.from_dict(ca.to_dict())
    elif op == "clone":
        ca.clone()
    elif op == "add":
        ca + other
    elif op == "sub":
        ca - other
    elif op == "voronoi":
        gridmod.voronoi(ca, np.array([[10.4, -1.2], [11.6, -0.4], [12.1, -2.2]]))
    elif op == "area_again":
        ca.delineate_area(how[0], how[1], nval=200)
    elif op == "upstream":
        ca.upstream(ca.idxcells_area)
    elif op == "downstream":
        ca.downstream(ca.idxcells_area)
    elif op == "plot_area":
        with_ax(lambda ax: ca.plot_area(ax))
    elif op == "plot_boundary":
        with_ax(lambda ax: ca.plot_boundary(ax))
    else:
        raise KeyError(op)


def obj_observe(ca, other, coarse):
    """every query with fixed arguments -> name -> value (copies)"""
    obs = {}

    def put(name, fun):
        try:
            obs[name] = ("ok", copy.deepcopy(fun()))
        except Exception as e:
            obs[name] = ("raise", type(e).__name__)

    put("idxcells_area", lambda: ca.idxcells_area)
    put("idxcells_area_filled", lambda: ca.idxcells_area_filled)
    put("idxcell_outlet", lambda: ca.idxcell_outlet)
    put("idxinlets", lambda: ca.idxinlets)
    put("extent", lambda: ca.extent())

    def inter(filled):
        g, i, w = ca.intersect(coarse, filled=filled)
        return [g.data, g.xllcorner, g.yllcorner, i, w]
    put("intersect(grid)", lambda: inter(False))
    put("intersect(grid, filled=True)", lambda: inter(True))
    put("upstream(area)", lambda: ca.upstream(ca.idxcells_area))
    put("downstream(area)", lambda: ca.downstream(ca.idxcells_area))
    put("other.idxcells_area", lambda: other.idxcells_area)
    put("coarse.data", lambda: coarse.data)
    put("flowdir.data", lambda: ca.flowdir.data)
    # derived state that exists only after the operation that computes it: compared from its first appearance
    put("?idxcells_boundary", lambda: ca.idxcells_boundary)
    put("?xycells_boundary", lambda: ca.xycells_boundary)
    put("?flowpathlengths", lambda: ca.flowpathlengths)
    return obs


def run_case_object(ctx, site, case):
    ca, other, coarse, how = obj_build(case["fd"])
    ref = obj_observe(ca, other, coarse)
    # the queries themselves must not have changed anything: observe twice
    hist = ["delineate_area"]
    again = obj_observe(ca, other, coarse)
    steps = [("observe", again)]
    ctx.states += 1
    failed = False
    for k, op in enumerate(case["ops"]):
        heap_scribble(k + 1)
        try:
            obj_apply(op, ca, other, coarse, how)
            hist.append(op)
        except Exception as e:
            hist.append("%s!%s" % (op, type(e).__name__))
            ctx.count("object-history.op-raised.%s.%s" % (op, type(e).__name__))
        ctx.transitions += 1
        ctx.states += 1
        steps.append((op, obj_observe(ca, other, coarse)))
    for op, cur in steps:
        for name, val in cur.items():
            r = ref[name]
            if name.startswith("?") and (r[0] == "raise" or r[1] is None) and not (val[0] == "raise" or val[1] is None):
                ref[name] = val       # first appearance of the derived state
                continue
            if name.startswith("?") and op in ("area_again",) and (val[0] == "raise" or val[1] is None):
                # delineating the area again may reset the derived state
                ref[name] = val
                continue
            st = "same"
            if r[0] != val[0] or (r[0] == "raise" and r[1] != val[1]):
                st, where = "diff", "outcome %s -> %s" % (r[:2] if r[0] == "raise" else "returned", val[:2] if val[0] == "raise" else "returned")
            elif r[0] == "ok":
                st, where = requal(r[1], val[1], path=name)
            if st == "diff" and not failed:
                failed = True
                ctx.violation("%s:%s-changed-by:%s" % (site.name, name.lstrip("?"), op), case,
                              "Catchment (%s flow directions) after %s: %s no longer returns what it returned before "
                              "'%s' (at %s)" % (case["fd"], " ; ".join(hist[:1] + case["ops"]), name.lstrip("?"), op, where))
    ctx.traces += 1
    ctx.case(True, outcome=("obj", case["fd"], tuple(sorted((k, outcome_hash(v[1]) if v[0] == "ok" else v[1]) for k, v in ref.items()))))
    ctx.count("object-history.cases")
    ctx.count("object-history.depth=%d" % len(case["ops"]))


# --------------------------------------------------------------------- pair histories inside one module
# every ordered pair (S2, S1) of call sites of one module (option variants of a function included) is executed
# back to back in one process; the result of every call must equal the reference result of its site, obtained
# as the FIRST library call of a freshly forked process: whatever one call leaves behind at module, class or C
# static level (a memo keyed on part of the arguments, a shared work buffer) shows as a difference.
PAIR_SITE = "history[pairs:%s]"
PAIR_GROUPS = ["metrics", "sutils", "armodels", "transform", "dutils", "qualitycontrol", "signatures", "gutils", "grid"]
PAIR_N = 12


def pair_group_sites(group, tier):
    out = [x for x in all_sites(tier) if x.name.startswith(group + ".") and x.name != OBJ_SITE
           and (x.layouts is None or "c64" in x.layouts)]
    return out


def pair_base_case(site, seed):
    return {"site": site.name, "layout": "c64", "n": PAIR_N, "seed": seed, "nan": False}


def pair_call(site, seed):
    pr = prepare(site, pair_base_case(site, seed))
    if pr is None:
        return None
    np.random.seed(RSEED + seed)
    try:
        return ("ok", site.call(pr[0]))
    except Exception as e:
        return ("raise", type(e).__name__)


def fresh_reference(site, seed):
    """result of the site when it is the first library call of a freshly forked process (None: not transferable)"""
    import os
    rfd, wfd = os.pipe()
    pid = os.fork()
    if pid == 0:
        code = 1
        try:
            os.close(rfd)
            r = pair_call(site, seed)
            blob = pickle.dumps(r, protocol=4)
            with os.fdopen(wfd, "wb") as f:
                f.write(blob)
            code = 0
        except BaseException:
            code = 1
        finally:
            os._exit(code)
    os.close(wfd)
    with os.fdopen(rfd, "rb") as f:
        blob = f.read()
    _, status = os.waitpid(pid, 0)
    if status != 0 or not blob:
        return None
    try:
        return pickle.loads(blob)
    except Exception:
        return None


def run_pairs(ctx, group, tier, seed, only=None):
    sites = pair_group_sites(group, tier)
    refs = {}
    for x in sites:
        r = fresh_reference(x, seed)
        if r is None:
            ctx.count("pair-history.site-without-transferable-result")
            continue
        refs[x.name] = r
    sites = [x for x in sites if x.name in refs]
    npairs = 0

    def judge(x, r, prev):
        ref = refs[x.name]
        ctx.transitions += 1
        if r[0] != ref[0] or (r[0] == "raise" and r[1] != ref[1]):
            st, where = "diff", "outcome"
        elif r[0] == "ok":
            st, where = requal(ref[1], r[1])
        else:
            st = "same"
        if st == "diff":
            k = "%s:pair-history:differs-from-fresh-process" % x.name
            case = {"site": PAIR_SITE % group, "layout": "c64", "n": PAIR_N, "seed": seed, "nan": False,
                    "history": "pair", "group": group, "pair": [prev.name, x.name]}
            ctx.violation(k, case, "%s called right after %s does not return what it returns as the first call of a fresh "
                                   "process (at %s)" % (x.name, prev.name, where))
    for s2 in sites:
        for s1 in sites:
            if only is not None and [s2.name, s1.name] != only:
                continue
            r2 = pair_call(s2, seed)
            r1 = pair_call(s1, seed)
            if r2 is None or r1 is None:
                continue
            npairs += 1
            judge(s1, r1, s2)
            ctx.case(r1[0] == "ok", outcome=("pair", s1.name, outcome_hash(r1[1]) if r1[0] == "ok" else r1[1]))
    ctx.states += len(sites)
    ctx.traces += npairs
    ctx.count("pair-history.pairs", npairs)
    ctx.count("pair-history.sites", len(sites))


# --------------------------------------------------------------------- units
def cases_of(site, tier, seed):
    if site.name == OBJ_SITE:
        for c in obj_cases(tier, seed):
            yield c
        return
    lays = LAYOUTS if tier == "quick" else LAYOUTS_THOROUGH
    if site.layouts is not None:
        lays = [l for l in lays if l in site.layouts]
    for n in sizes(tier):
        for lay in lays:
            for nan in (False, True):
                yield {"site": site.name, "layout": lay, "n": n, "seed": seed, "nan": nan}
        if tier != "quick" and site.layouts is None:
            specs = site.build(n, seed, "c64")
            names = [k for k, sp in specs.items() if isinstance(sp, A)]
            if len(names) >= 2:
                for only in names:
                    for lay in lays:
                        if lay == "c64":
                            continue
                        yield {"site": site.name, "layout": lay, "n": n, "seed": seed, "nan": False, "only": only}
    # size ladder (two-call history)
    for n in ladder_sizes(site, tier):
        for lay, nan in ladder_layouts(tier):
            if site.layouts is not None and lay not in site.layouts:
                continue
            yield {"site": site.name, "layout": lay, "n": n, "seed": seed, "nan": nan}
    # three-call history
    for n in history3_sizes(site, tier):
        for lay in history3_layouts(tier):
            if site.layouts is not None and lay not in site.layouts:
                continue
            yield {"site": site.name, "layout": lay, "n": n, "seed": seed, "nan": False, "history": 3}
        if site.layouts is None:
            yield {"site": site.name, "layout": "c64", "n": n, "seed": seed, "nan": True, "history": 3}


TRANSFORM_CLASSES = ["Logit", "Log", "BoxCox2", "BoxCox1lam", "BoxCox1nu", "BoxCox2sym", "YeoJohnson", "Reciprocal", "Sinh",
                     "LogSinh", "Manly"]


def units(tier, seed):
    return [{"site": s.name, "tier": tier, "seed": seed} for s in all_sites(tier)] + \
           [{"site": PAIR_SITE % g, "pairs": g, "tier": tier, "seed": seed} for g in PAIR_GROUPS] + \
           [{"site": "transform.%s[params_sample then use]" % c, "thistory": c, "tier": tier, "seed": seed} for c in TRANSFORM_CLASSES]


def run_unit(unit, ctx):
    if unit.get("thistory"):
        # a transform object on which params_sample was called, one value then changed by name, then used: it must
        # answer like a fresh object at the same configuration (machinery shared with C01 / C02)
        from checks import _transforms as H
        from hydrodiy.stat import transform as T
        ctx.case(False, n=0, sample={"site": unit["site"], "history": "transform"})
        H.run_history(ctx, T, unit["thistory"], unit["tier"], unit["seed"], ["forward", "backward", "jacobian"], f1s=["params_sample"])
        return
    if unit.get("pairs"):
        ctx.case(False, n=0, sample={"site": unit["site"], "group": unit["pairs"], "history": "pair"})
        run_pairs(ctx, unit["pairs"], unit["tier"], unit["seed"])
        return
    site = find_site(unit["site"])
    first = True
    for case in cases_of(site, unit["tier"], unit["seed"]):
        if first:
            ctx.case(False, sample=case, n=0)
            first = False
        run_case(ctx, site, case)


def replay(case):
    from mc.explore import Result
    ctx = Result()
    if isinstance(case.get("history"), dict):
        from checks import _transforms as H
        from hydrodiy.stat import transform as T
        return H.replay_history(T, case)
    run_case(ctx, None if case.get("history") == "pair" else find_site(case["site"]), case)
    return [v for lst in ctx.violations.values() for v in lst]
