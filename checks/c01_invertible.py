"""C01 - every data transform is invertible on its domain.

Space: 13 transform classes x constructor options (mininu, minilam, base) x
parameter / constant lattice (every bound, default, every branch value) x an
x-lattice of the domain x a y-lattice (reference forward images + an independent
grid of the range) x array shapes (length n, length 1; Softmax (N,d), (1,d), (d,))
x every public route of setting the parameters.
Oracle: round trips to 1e-6 relative at every point the independent textbook
float64 reference puts in scope (checks/_transforms.py); backward_censored.
"""
import numpy as np
from checks import _transforms as H

ID = "C01"
# computational entry points whose results are watched by the engine's retained-result oracle (mc/explore.py)
RETAIN = [('hydrodiy.stat.transform', 'Transform.forward'), ('hydrodiy.stat.transform', 'Transform.backward'), ('hydrodiy.stat.transform', 'Transform.backward_censored')]
RULE = ("every configuration (class x constructor options x parameter/constant lattice incl. all "
        "bounds, defaults and branch values lam in {0, +-1e-11, +-1e-9, 2, 2+-1e-9, 2+-1e-4,..}) is "
        "instantiated through get_transform(**kw), attribute, item and params.values assignment "
        "(stored values and results must agree bit for bit, also on an object reused across "
        "configurations); on the real forward/backward/backward_censored every lattice point of the "
        "domain (signed log-spaced magnitudes 1e-6..1e6, 0, points either side of the domain edge / "
        "branch point) is run as one length-n array and as length-1 arrays, and every y of the "
        "y-lattice (reference images + independent grid). A point is judged (non-trivial) when it is "
        "in the documented domain, in the conditioning region the property states and an independent "
        "textbook float64 reference round-trips there to 1e-8; judged points must round-trip to 1e-6 "
        "relative (NaN / exception = violation). Cases are distinct lattice points of distinct "
        "configurations (nested enumeration). "
        "OBJECT HISTORIES: per class, every pair of configurations (X = defaults with <= 1 deviation, Y = X with one "
        "parameter or constant moved to another lattice value) x f1, f2 in {forward, backward, backward_censored} x route of the change {attribute, "
        "item, params/constants item, values vector} (+ f1 made on another object of the class): f1 at X, change by name, "
        "f2 at Y on the same array object must equal, bit for bit, f2 of a fresh object built at Y.")
ASSUMPTIONS = [
    "scope is decided by the reference model only (domain, stated conditioning region, reference round trip <= 1e-8); implementation output never filters a case",
    "relative accuracy is measured against |x| (|y|); at exactly 0 against the natural unit of the class (nu, exp(logdelta), xmax, 1/scale)",
    "the reference switches to the limiting formula for |lam| <= 1e-10 (resp. |lam-2| <= 1e-10), the switch the property names; where the plain textbook formula is itself inaccurate (e.g. |lam| = 1e-9) the point is out of scope and only counted",
    "points outside the conditioning region are executed and counted (exceptions by type) but not judged",
    "scalar (non-array) inputs are outside the quantifier except the censor argument of backward_censored",
]
LEVEL_NOTE = "trusted base: numpy elementary functions (log, exp, power, sinh, arcsinh) in the reference model"
TECHNIQUE = "bounded exhaustive enumeration of configurations x lattice points on the real implementation against an independent reference model (scope) and the round-trip invariance relation (oracle)"

TOL = H.TOL
PER_UNIT = {"quick": 6, "thorough": 12}


def bound_text(tier, seed):
    if tier == "quick":
        return ("all 13 classes; configurations with <= 3 coordinates (constructor options, parameters, "
                "constants) off the default call; 53-point general x-lattice (+ class specific edge/branch "
                "points, Logit 60-point unit lattice); Softmax all rows of dimension 1-3 over "
                "{0.01,0.1,0.2,0.3,seed value} with sum < 1; 4 parameter routes + reused object; seed %d "
                "rotates one mantissa, one lam value and one Softmax value" % seed)
    return ("all 13 classes; full product of constructor options x parameter/constant lattices (extended "
            "lattices); 365-point general x-lattice (+ edge/branch points, Logit ~230-point unit lattice); "
            "Softmax dimension 1-4; 4 parameter routes + reused object; seed %d rotates mantissas, lam "
            "values and one Softmax value" % seed)


def units(tier, seed):
    us = H.make_units(tier, seed, PER_UNIT.get(tier, 12))
    # histories of one object: used at X, one parameter / constant changed by name, used again (see _transforms.py)
    us += [{"kind": "history", "cls": cls, "tier": tier, "seed": seed} for cls in H.CLASSES
           if cls not in ("Identity", "Softmax")]
    return us


# ---------------------------------------------------------------------------

def call(f, *args):
    """-> (float64 ndarray | None, exception | None)"""
    try:
        out = f(*args)
        return np.asarray(out, dtype=np.float64), None
    except Exception as e:      # noqa
        return None, e


def xlabels(cls, p, x):
    """point-level branch label (part of the key)"""
    if cls == "YeoJohnson":
        w = p["nu"] + p["scale"] * x
        return np.where(w >= 0, "w>=0", "w<0")
    if cls == "BoxCox2sym":
        return np.where(x > 0, "x>0", np.where(x < 0, "x<0", "x=0"))
    if cls == "Logit":
        v = (x - p["lower"]) / np.exp(p["logdelta"])
        return np.where(v < 1e-9, "v<1e-9", np.where(v > 1 - 1e-9, "v>1-1e-9", "mid"))
    return None


def ylabels(cls, p, y, xref):
    if cls == "Logit":
        return xlabels(cls, p, xref)
    if cls in ("YeoJohnson", "BoxCox2sym"):
        return np.where(y > 0, "y>0", np.where(y < 0, "y<0", "y=0"))
    return None


def judge(ctx, key, case, pts, got, want, floor, labels, what):
    """relative round-trip oracle on in-scope points; one violation per label"""
    with np.errstate(all="ignore"):
        bad = ~(np.abs(got - want) <= TOL * H.relscale(want, floor))
    if not bad.any():
        return
    idx = np.nonzero(bad)[0]
    seen = set()
    for i in idx:
        lab = None if labels is None else str(labels[i])
        if lab in seen:
            continue
        seen.add(lab)
        k = key if lab is None else "%s:%s" % (key, lab)
        n = int(bad.sum()) if labels is None else int((bad & (labels == lab)).sum())
        c = dict(case, key=k, point=H.fl(pts[i]))
        ctx.violation(k, c, "%s: at %r expected %r, got %r (%d of %d in-scope points fail)" % (
            what, float(pts[i]), float(want[i]), float(got[i]), n, len(pts)),
            observed=H.fl(got[i]), expected=H.fl(want[i]))


def raised(ctx, key, case, e, what):
    k = "%s:raised:%s" % (key, type(e).__name__)
    ctx.violation(k, dict(case, key=k), "%s raised %r on in-scope points" % (what, e))


def check_config(ctx, T, cfg, tier, seed):
    cls = cfg["cls"]
    p = H.P(cfg)
    br = H.pbranch(cfg)
    case = {"cfg": H.jcfg(cfg), "tier": tier, "seed": seed}

    # ---- every public route of setting the parameters
    objs = {}
    for r in H.ROUTES:
        try:
            objs[r] = H.make(T, cfg, r)
        except Exception as e:
            k = "%s:route=%s:raised:%s" % (br, r, type(e).__name__)
            ctx.violation(k, dict(case, key=k), "setting parameters through route %s raised %r" % (r, e))
    # an object that was used with the default configuration first (stale inner state)
    # (two of them: the first call after the change is backward on one, forward on the other)
    for rname in ("reused-backward-first", "reused-forward-first"):
        try:
            reuse = H.used_object(T, cfg)
            H.set_values(reuse, cfg, "attr")
            objs[rname] = reuse
        except Exception as e:
            k = "%s:route=%s:raised:%s" % (br, rname, type(e).__name__)
            ctx.violation(k, dict(case, key=k), "re-setting parameters on a used object raised %r" % (e,))
    want = {k: float(v) for k, v in cfg["vals"].items()}
    for r, t in objs.items():
        st = H.stored(t)
        ctx.case(cfg["ndev"] > 0, outcome=repr(sorted(st.items())))
        if st != want:
            k = "%s:route=%s:stored-values" % (cls, r)
            ctx.violation(k, dict(case, key=k), "route %s stored %r instead of the admissible values %r" % (r, st, want),
                          observed=st, expected=want)
    if not objs:
        return
    r0 = "kw" if "kw" in objs else sorted(objs)[0]
    t0 = objs[r0]

    # ---- x lattice and scope (reference only)
    xs = H.x_candidates(cfg, tier, seed)
    dom, sc, yref = H.scope_x(cls, p, xs)
    xin, yrin = xs[sc], yref[sc]
    xoc = xs[dom & ~sc]
    ctx.count("x.in_scope", int(sc.sum()))
    ctx.count("x.in_domain_outside_conditioning", int((dom & ~sc).sum()))
    ctx.count("x.outside_domain", int((~dom).sum()))
    ctx.count("branch." + br.split(":", 1)[-1] if ":" in br else "branch.-", 1)
    xflo, yflo = H.xfloor(cls, p), H.yfloor(cls, p)

    res = {}
    if len(xin):
        y, e = call(t0.forward, xin.copy())
        if e is not None:
            ctx.case(True, n=len(xin))
            raised(ctx, br + ":forward", case, e, "forward(x)")
        else:
            xb, e = call(t0.backward, y.copy())
            ctx.case(True, outcome=y.tobytes(), n=len(xin))
            if e is not None:
                raised(ctx, br + ":backward(forward)", case, e, "backward(forward(x))")
            elif xb.shape != xin.shape:
                k = br + ":backward∘forward:shape"
                ctx.violation(k, dict(case, key=k), "shape %r != %r" % (xb.shape, xin.shape))
            else:
                res["fwd"] = y
                judge(ctx, br + ":backward∘forward", case, xin, xb, xin, xflo,
                      xlabels(cls, p, xin), "backward(forward(x))")
        # length-1 arrays
        labs = xlabels(cls, p, xin)
        got = np.full(xin.shape, np.nan)
        err1 = None
        for i, x in enumerate(xin):
            y1, e = call(t0.forward, np.array([x]))
            if e is None:
                x1, e = call(t0.backward, y1)
            if e is not None:
                err1 = err1 or e
                continue
            if x1.shape == (1,):
                got[i] = x1[0]
        ctx.case(True, outcome=got.tobytes(), n=len(xin))
        if err1 is not None:
            raised(ctx, br + ":len1", case, err1, "backward(forward([x]))")
        else:
            judge(ctx, br + ":backward∘forward:len1", case, xin, got, xin, xflo, labs,
                  "backward(forward([x])) on a length-1 array")

    # ---- y lattice
    ys = H.y_candidates(cfg, tier, seed, yrin)
    scy, xref = H.scope_y(cls, p, ys)
    yin, xrin = ys[scy], xref[scy]
    ctx.count("y.in_scope", int(scy.sum()))
    ctx.count("y.out_of_scope", int((~scy).sum()))
    if len(yin):
        xb, e = call(t0.backward, yin.copy())
        if e is not None:
            ctx.case(True, n=len(yin))
            raised(ctx, br + ":backward", case, e, "backward(y)")
        else:
            res["back"] = xb
            yf, e = call(t0.forward, xb.copy())
            ctx.case(True, outcome=xb.tobytes(), n=len(yin))
            if e is not None:
                raised(ctx, br + ":forward(backward)", case, e, "forward(backward(y))")
            elif yf.shape != yin.shape:
                k = br + ":forward∘backward:shape"
                ctx.violation(k, dict(case, key=k), "shape %r != %r" % (yf.shape, yin.shape))
            else:
                judge(ctx, br + ":forward∘backward", case, yin, yf, yin, yflo,
                      ylabels(cls, p, yin, xrin), "forward(backward(y))")

        # ---- backward_censored
        censors = [("default", None), ("0.0", 0.0)]
        if len(xin):
            censors.append(("mid", float(xin[len(xin) // 2])))
        for cname, c in censors:
            if c is None:
                xc, e = call(t0.backward_censored, yin.copy())
                c = 0.0
            else:
                xc, e = call(t0.backward_censored, yin.copy(), c)
            ctx.case(True, outcome=None if xc is None else xc.tobytes(), n=len(yin))
            kb = br + ":backward_censored"
            if e is not None:
                raised(ctx, cls + ":backward_censored", case, e, "backward_censored(y, censor=%s)" % cname)
                continue
            if xc.shape != yin.shape:
                k = kb + ":shape"
                ctx.violation(k, dict(case, key=k), "shape %r != %r" % (xc.shape, yin.shape))
                continue
            with np.errstate(all="ignore"):
                below = ~(xc >= c)
                if below.any():
                    i = int(np.nonzero(below)[0][0])
                    k = kb + ":below-censor"
                    ctx.violation(k, dict(case, key=k, censor=c, point=H.fl(yin[i])),
                                  "backward_censored(y=%r, censor=%r) = %r is not >= censor" % (
                                      float(yin[i]), c, float(xc[i])), observed=H.fl(xc[i]))
                # which side of the censor a point is on is decided by the implementation's own backward
                # (not by the textbook reference: near a branch switch - e.g. |lam-2| <= 2e-5 where the
                # implementation uses the limiting log form - the two differ by more than the margin in x space
                # although forward and backward stay consistent with each other)
                xside = res["back"] if ("back" in res and res["back"] is not None and np.shape(res["back"]) == np.shape(xrin)) else xrin
                xside = np.where(np.isfinite(xside), xside, xrin)
                margin = TOL * np.maximum(np.maximum(np.abs(xside), abs(c)), xflo)
                above = xside > c + margin
                under = xside < c - margin
                ctx.count("censored.above", int(above.sum()))
                ctx.count("censored.below", int(under.sum()))
                if "back" in res:
                    xb0 = res["back"]
                    bad = above & np.isfinite(xb0) & ~(np.abs(xc - xb0) <= TOL * H.relscale(xb0, xflo))
                    if bad.any():
                        i = int(np.nonzero(bad)[0][0])
                        k = kb + ":differs-from-backward"
                        ctx.violation(k, dict(case, key=k, censor=c, point=H.fl(yin[i])),
                                      "above the censor backward_censored(y=%r, censor=%r) = %r but backward = %r" % (
                                          float(yin[i]), c, float(xc[i]), float(xb0[i])),
                                      observed=H.fl(xc[i]), expected=H.fl(xb0[i]))
                bad = under & ~(np.abs(xc - c) <= TOL * max(abs(c), xflo))
                if bad.any():
                    i = int(np.nonzero(bad)[0][0])
                    k = kb + ":not-censored"
                    ctx.violation(k, dict(case, key=k, censor=c, point=H.fl(yin[i])),
                                  "backward(y=%r) ~ %r lies below censor=%r but backward_censored returned %r" % (
                                      float(yin[i]), float(xrin[i]), c, float(xc[i])),
                                  observed=H.fl(xc[i]), expected=c)

    # ---- all routes agree bit for bit
    for r, t in objs.items():
        if r == r0:
            continue
        calls = [("forward", xin, t.forward), ("backward", yin, t.backward)]
        if r == "reused-backward-first":
            calls.reverse()
        for name, arr, f in calls:
            if not len(arr):
                continue
            ref = res.get("fwd" if name == "forward" else "back")
            if ref is None:
                continue
            out, e = call(f, arr.copy())
            ctx.case(True, n=len(arr))
            if e is not None or out.tobytes() != ref.tobytes():
                k = "%s:route=%s:%s-differs" % (cls, r, name)
                ctx.violation(k, dict(case, key=k),
                              "%s through route %s differs from route %s (%s)" % (
                                  name, r, r0, repr(e) if e is not None else "values"))

    # ---- outside the conditioning region: executed, counted, not judged
    if len(xoc):
        y, e = call(t0.forward, xoc.copy())
        ctx.case(False, n=len(xoc))
        if e is not None:
            ctx.count("unjudged.outside_conditioning.forward_raised.%s" % type(e).__name__)
        else:
            xb, e = call(t0.backward, y)
            if e is not None:
                ctx.count("unjudged.outside_conditioning.backward_raised.%s" % type(e).__name__)
            else:
                with np.errstate(all="ignore"):
                    okk = np.abs(xb - xoc) <= TOL * H.relscale(xoc, xflo)
                ctx.count("unjudged.outside_conditioning.roundtrip_ok", int(okk.sum()))
                ctx.count("unjudged.outside_conditioning.roundtrip_not_ok", int((~okk).sum()))


# ---------------------------------------------------------------------------
# Softmax

def softmax_judge(ctx, key, case, pts, got, want, what):
    got = np.asarray(got, dtype=np.float64)
    if got.size != want.size:
        ctx.violation(key + ":shape", dict(case, key=key + ":shape"),
                      "%s: %d values returned for %d inputs" % (what, got.size, want.size))
        return
    got = got.reshape(want.shape)
    with np.errstate(all="ignore"):
        bad = ~(np.abs(got - want) <= TOL * H.relscale(want, 1.0))
    if bad.any():
        i = int(np.nonzero(bad.any(axis=1))[0][0])
        ctx.violation(key, dict(case, key=key, point=[H.fl(v) for v in pts[i]]),
                      "%s: row %r expected %r, got %r (%d rows fail)" % (
                          what, pts[i].tolist(), want[i].tolist(), got[i].tolist(), int(bad.any(axis=1).sum())),
                      observed=[H.fl(v) for v in got[i]], expected=[H.fl(v) for v in want[i]])


def check_softmax(ctx, T, d, tier, seed):
    case = {"softmax_d": d, "tier": tier, "seed": seed}
    br = "Softmax:d=%d" % d
    rows = H.softmax_rows(d, seed)
    yref = H.softmax_ref_forward(rows)
    with np.errstate(all="ignore"):
        okx = np.all(np.abs(H.softmax_ref_backward(yref) - rows) <= H.REF_RTOL * rows, axis=1)
    rows, yref = rows[okx], yref[okx]
    ctx.count("x.in_scope", len(rows))
    ctx.count("branch.softmax.d=%d" % d)
    ys = np.concatenate([yref, H.softmax_ygrid(d, tier)])
    xr = H.softmax_ref_backward(ys)
    with np.errstate(all="ignore"):
        oky = np.all(xr > 0, axis=1) & (np.sum(xr, axis=1) < 1 - 1e-9) & \
            np.all(np.abs(H.softmax_ref_forward(xr) - ys) <= H.REF_RTOL * H.relscale(ys, 1.0), axis=1)
    ys, xr = ys[oky], xr[oky]
    ctx.count("y.in_scope", len(ys))
    for route in ("kw", "class"):
        t = T.get_transform("Softmax") if route == "kw" else T.Softmax()
        # (N, d) array
        y, e = call(t.forward, rows.copy())
        ctx.case(d > 1, outcome=None if y is None else y.tobytes(), n=len(rows))
        if e is not None:
            raised(ctx, br + ":forward", case, e, "forward(X)")
        else:
            xb, e = call(t.backward, y.copy())
            if e is not None:
                raised(ctx, br + ":backward(forward)", case, e, "backward(forward(X))")
            else:
                softmax_judge(ctx, br + ":backward∘forward", case, rows, xb, rows, "backward(forward(X))")
        xb, e = call(t.backward, ys.copy())
        ctx.case(d > 1, outcome=None if xb is None else xb.tobytes(), n=len(ys))
        if e is not None:
            raised(ctx, br + ":backward", case, e, "backward(Y)")
        else:
            yf, e = call(t.forward, xb.copy())
            if e is not None:
                raised(ctx, br + ":forward(backward)", case, e, "forward(backward(Y))")
            else:
                softmax_judge(ctx, br + ":forward∘backward", case, ys, yf, ys, "forward(backward(Y))")
            for cname, args in (("default", ()), ("0.0", (0.0,))):
                xc, e = call(t.backward_censored, ys.copy(), *args)
                ctx.case(d > 1, n=len(ys))
                if e is not None:
                    raised(ctx, "Softmax:backward_censored", case, e, "backward_censored(Y, censor=%s)" % cname)
                    continue
                if xc.size == xb.size:
                    xc = xc.reshape(xb.shape)
                    with np.errstate(all="ignore"):
                        bad = ~(xc >= 0) | ~(np.abs(xc - xb) <= TOL * np.abs(xb))
                    if bad.any():
                        k = br + ":backward_censored:differs-from-backward"
                        ctx.violation(k, dict(case, key=k), "backward_censored(Y, 0) differs from backward(Y) > 0")
        if route == "class":
            continue
        # single rows, as (1, d) and as 1-D (d,)
        for shape in ("(1,d)", "(d,)"):
            got = np.full(rows.shape, np.nan)
            err = None
            for i, r in enumerate(rows):
                xi = r.copy().reshape(1, d) if shape == "(1,d)" else r.copy()
                y1, e = call(t.forward, xi)
                if e is None:
                    x1, e = call(t.backward, y1)
                if e is not None:
                    err = err or e
                    continue
                if x1.size == d:
                    got[i] = x1.reshape(d)
            ctx.case(d > 1, outcome=got.tobytes(), n=len(rows))
            if err is not None:
                raised(ctx, br + ":row" + shape, case, err, "backward(forward(row)) on a %s array" % shape)
            else:
                softmax_judge(ctx, br + ":backward∘forward:row" + shape, case, rows, got, rows,
                              "backward(forward(row)) on a %s array" % shape)


# ---------------------------------------------------------------------------

def run_unit(unit, ctx):
    from hydrodiy.stat import transform as T
    tier, seed, cls = unit["tier"], unit["seed"], unit["cls"]
    if cls == "Softmax":
        ctx.case(False, n=0, sample={"softmax_d": unit["d"], "tier": tier, "seed": seed})
        check_softmax(ctx, T, unit["d"], tier, seed)
        return
    if unit.get("kind") == "history":
        ctx.case(False, n=0, sample={"history-unit": cls, "tier": tier, "seed": seed})
        H.run_history(ctx, T, cls, tier, seed, ['forward', 'backward', 'backward_censored'])
        return
    first = True
    for cfg in H.unit_configs(unit):
        if first:
            ctx.case(False, n=0, sample={"cfg": H.jcfg(cfg), "tier": tier, "seed": seed})
            first = False
        check_config(ctx, T, cfg, tier, seed)


def replay(case):
    from mc.explore import Result
    from hydrodiy.stat import transform as T
    ctx = Result()
    if "history" in case:
        return H.replay_history(T, case)
    if "softmax_d" in case:
        check_softmax(ctx, T, case["softmax_d"], case["tier"], case["seed"])
    else:
        check_config(ctx, T, case["cfg"], case["tier"], case["seed"])
    out = [v for lst in ctx.violations.values() for v in lst]
    if case.get("key"):
        same = [v for v in out if v["key"] == case["key"]]
        if same:
            return same
    return out
