"""C12 - bounded vectors keep their invariants under any history (explicit-state search),
and read-only uses of a transform leave its parameters/constants/bounds unchanged.

Vector part: breadth-first search over the *real* object.  A state is the observable state
(flags, values, hitbounds); it is re-created by replaying the shortest history that reached
it on a freshly constructed Vector.  Every operation of the alphabet is applied in every
reachable state (run to the fixpoint - the value alphabet is finite after clipping), and the
observed successor is compared with a stateless reference transition function
model_step(previous observed state, operation).
"""
import itertools, math, copy, collections
import numpy as np

ID = "C12"
RULE = ("Vector: for every configuration (0..2 names quick / 0..3 thorough; per-element bounds from 4 kinds; flags "
        "check_hitbounds x accept_nan, plus check_bounds=False) an explicit-state BFS from the constructed object to the "
        "fixpoint of reachable observable states; in every state every operation of the alphabet {set by attribute, set by key "
        "(values below/on/inside/above/1e-6 beyond each bound, NaN), whole-vector assignments (inside, each element outside on "
        "each side, all on bounds, all outside, NaN, wrong lengths), unknown key, reset, clone-and-continue, "
        "to_dict/from_dict-and-continue} is executed on the real object (state rebuilt by replaying its history) and compared "
        "with a reference transition function; invariants (bounds, NaN policy, construction data bit-identical, rejected "
        "assignment leaves everything untouched, copies equal and independent) on every transition; the observation includes "
        "the hidden aliasing relation numpy.shares_memory(values, defaults|mins|maxs) (part of the state key, must be all-false); "
        "differential oracle over alternative histories: a state reached through another kind of last operation than its canonical "
        "history must have the same futures under every operation. states/transitions are "
        "those of the search; traces = histories replayed on the implementation. Transform: for each of the 13 classes and "
        "each parameter state of a small lattice, every sequence up to depth 3 (4 thorough) over {forward, backward, jacobian, "
        "backward_censored, params_sample, params_logprior, str, set a parameter}; after every read-only call params, "
        "constants and their bounds/defaults/names equal the snapshot. evaluations = transitions + transform calls; "
        "non-trivial = transition that is an assignment with clipping, NaN, rejection, copy, or a transform call.")
ASSUMPTIONS = [
    "values are on a bound or at least 1e-6 away from it (as the property states), so strict and EPS-tolerant comparisons agree",
    "with check_hitbounds off the flag is always False",
    "reset is an assignment of the defaults (never clipped)",
    "numpy.random is seeded by the harness before params_sample",
]
TECHNIQUE = "explicit-state BFS over the real Vector object to the reachable-state fixpoint, reference transition function compared on every transition, differential check of alternative histories; depth-bounded exhaustive call sequences for transforms"

NAN = float("nan")
INF = float("inf")

BOUND_KINDS = {
    "free": (-INF, INF, 0.0, [-3.0, 0.0, 2.5]),
    "unit": (0.0, 1.0, 0.5, [-1.0, 0.0, 0.25, 1.0, 1.0 + 1e-6, 2.0, -1e-6]),
    "upper": (-INF, 5.0, 1.0, [-3.0, 4.5, 5.0, 6.0]),
    "lower": (2.0, INF, 3.0, [1.0, 2.0, 3.5]),
}
KINDS = ["free", "unit", "upper", "lower"]
FLAGSETS = [  # (check_bounds, check_hitbounds, accept_nan)
    (True, False, False), (True, True, False), (True, False, True), (True, True, True),
    (False, False, False),
]


def bound_text(tier, seed):
    return ("Vector: 0..%d names x 4 bound kinds per element x 5 flag settings, BFS to fixpoint (no depth cap); "
            "Transform: 13 classes x parameter lattice x all op sequences of length <= %d" % (
                2 if tier == "quick" else 3, 3 if tier == "quick" else 4))


def units(tier, seed):
    us = []
    nmax = 2 if tier == "quick" else 3
    names_all = ["a", "b", "c", "d"]
    for n in range(0, nmax + 1):
        for kinds in itertools.product(KINDS, repeat=n):
            if n == 3 and tier != "quick":
                # 3 names: reduced (2 kinds in the last position) to keep the fixpoint small
                if kinds[2] not in ("unit", "lower"):
                    continue
            for fl in FLAGSETS:
                us.append({"kind": "vector", "names": names_all[:n], "kinds": list(kinds), "flags": list(fl),
                           "differential": (tier != "quick") or n <= 1 or list(fl) == [True, True, True]})
    if tier != "quick":
        # 4 names, all 'unit' / mixed, one flag set each
        us.append({"kind": "vector", "names": names_all[:4], "kinds": ["unit", "free", "lower", "upper"], "flags": [True, True, True], "small": True})
        us.append({"kind": "vector", "names": names_all[:4], "kinds": ["unit", "unit", "unit", "unit"], "flags": [True, True, False], "small": True})
    for cls in TRANSFORMS:
        us.append({"kind": "transform", "cls": cls, "depth": 3 if tier == "quick" else 4, "seed": seed})
    # wide vectors (size ladder): scripted histories, every step compared with the reference transition function
    for n in ([5, 16, 17, 64, 65, 257] if tier == "quick" else [5, 16, 17, 64, 65, 257, 1025]):
        for fl in ([True, True, True], [True, True, False]):
            us.append({"kind": "wide", "n": n, "flags": fl})
    return us


# --------------------------------------------------------------------------- Vector

def nanfix(v):
    return None if (isinstance(v, float) and math.isnan(v)) else v


def tup(a):
    return tuple(nanfix(float(x)) for x in np.asarray(a, dtype=np.float64).ravel())


def make_vector(unit):
    from hydrodiy.data.containers import Vector
    names = unit["names"]
    mins = [BOUND_KINDS[k][0] for k in unit["kinds"]]
    maxs = [BOUND_KINDS[k][1] for k in unit["kinds"]]
    defaults = [BOUND_KINDS[k][2] for k in unit["kinds"]]
    cb, ch, an = unit["flags"]
    if not names:
        return Vector([], check_bounds=cb, check_hitbounds=ch, accept_nan=an)
    return Vector(names, defaults, mins, maxs, check_bounds=cb, check_hitbounds=ch, accept_nan=an)


def observe(v):
    """full observable state of a Vector"""
    d = v.to_dict()
    return {
        "values": tup(v.values), "mins": tup(v.mins), "maxs": tup(v.maxs), "defaults": tup(v.defaults),
        "names": tuple(str(s) for s in v.names), "hitbounds": bool(v.hitbounds),
        "check_bounds": bool(v.check_bounds), "check_hitbounds": bool(v.check_hitbounds),
        "accept_nan": bool(v.accept_nan), "nval": int(v.nval),
        # hidden state made visible: does the value array share memory with construction data?
        "alias": tuple(bool(v.nval) and bool(np.shares_memory(v.values, a)) for a in (v.defaults, v.mins, v.maxs)),
        "dict": (int(d["nval"]), bool(d["hitbounds"]), bool(d["check_bounds"]), bool(d["check_hitbounds"]),
                 bool(d["accept_nan"]),
                 tuple((str(e["name"]), nanfix(float(e["value"])), float(e["min"]), float(e["max"]), float(e["default"]))
                       for e in d["data"])),
    }


def state_key(obs):
    return (obs["values"], obs["hitbounds"], obs["check_bounds"], obs["check_hitbounds"], obs["accept_nan"], obs["alias"])


def ops_for(unit):
    names, kinds = unit["names"], unit["kinds"]
    n = len(names)
    small = unit.get("small", False)
    ops = []
    for i, k in enumerate(kinds):
        vals = list(BOUND_KINDS[k][3]) + [NAN]
        if small:
            vals = [BOUND_KINDS[k][3][0], BOUND_KINDS[k][3][-2], NAN]
        for v in vals:
            ops.append(("attr", i, v))
            ops.append(("key", i, v))
    inside = [BOUND_KINDS[k][2] for k in kinds]
    inside2 = [BOUND_KINDS[k][3][1] if k != "lower" else 3.5 for k in kinds]
    if n:
        ops.append(("all", inside))
        ops.append(("all", inside2))
        for i, k in enumerate(kinds):
            lo, hi = BOUND_KINDS[k][0], BOUND_KINDS[k][1]
            if math.isfinite(lo):
                w = list(inside); w[i] = lo - 1.0; ops.append(("all", w))
                w = list(inside); w[i] = lo; ops.append(("all", w))
            if math.isfinite(hi):
                w = list(inside); w[i] = hi + 1.0; ops.append(("all", w))
                w = list(inside); w[i] = hi; ops.append(("all", w))
                w = list(inside); w[i] = hi + 1e-6; ops.append(("all", w))      # just outside (1e-6, as the property allows)
            if math.isfinite(lo):
                w = list(inside); w[i] = lo - 1e-6; ops.append(("all", w))
            w = list(inside); w[i] = NAN; ops.append(("all", w))
        allout = [(BOUND_KINDS[k][1] + 2.0) if math.isfinite(BOUND_KINDS[k][1]) else
                  ((BOUND_KINDS[k][0] - 2.0) if math.isfinite(BOUND_KINDS[k][0]) else 7.0) for k in kinds]
        ops.append(("all", allout))
        ops.append(("all", inside + [0.5]))          # too long
        ops.append(("all", inside[:-1]))             # too short
        ops.append(("all_scalar", 0.5))              # scalar: length 1
    else:
        ops.append(("all", []))
        ops.append(("all", [1.0]))
    ops.append(("badkey", 1.0))
    ops.append(("reset",))
    ops.append(("clone",))
    ops.append(("dict",))
    return ops


def apply_op(v, op):
    """apply op to the real object; returns (new_object, exception or None, extra violations list)"""
    extra = []
    kind = op[0]
    names = [str(s) for s in v.names]
    try:
        if kind == "attr":
            setattr(v, names[op[1]], op[2])
        elif kind == "key":
            v[names[op[1]]] = op[2]
        elif kind == "all":
            v.values = list(op[1])
        elif kind == "all_scalar":
            v.values = op[1]
        elif kind == "badkey":
            v["zz_unknown"] = op[1]
        elif kind == "reset":
            v.reset()
        elif kind in ("clone", "dict"):
            before = observe(v)
            if kind == "clone":
                w = v.clone()
            else:
                from hydrodiy.data.containers import Vector
                w = Vector.from_dict(v.to_dict())
            ow = observe(w)
            if ow != before:
                diff = sorted(k for k in before if before[k] != ow[k])
                extra.append(("%s:copy-differs:%s" % (kind, "+".join(diff)),
                              "copy differs from the original in %s: original %s, copy %s" % (
                                  diff, {k: before[k] for k in diff}, {k: ow[k] for k in diff})))
            # independence: mutate the original, the copy must not move; then mutate the copy
            if names:
                try:
                    v.values = [BOUND_KINDS_BYVAL(v, i) for i in range(len(names))]
                except Exception:
                    pass
                if observe(w) != ow:
                    extra.append(("%s:copy-not-independent" % kind, "mutating the original changed the copy"))
                ov = observe(v)
                try:
                    w.reset()
                except Exception:
                    pass
                if observe(v) != ov:
                    extra.append(("%s:copy-not-independent" % kind, "mutating the copy changed the original"))
                # put the copy back in the copied state through the public setter is not neutral for the flag:
                # rebuild the copy instead
                if kind == "clone":
                    pass
            return ("copy", kind), None, extra
    except Exception as e:
        return v, e, extra
    return v, None, extra


def BOUND_KINDS_BYVAL(v, i):
    lo, hi = float(v.mins[i]), float(v.maxs[i])
    if math.isfinite(lo) and math.isfinite(hi):
        return lo + 0.75 * (hi - lo)
    if math.isfinite(lo):
        return lo + 1.25
    if math.isfinite(hi):
        return hi - 1.25
    return 1.25


def model_step(prev, op, cfg):
    """reference transition: previous observed state x op -> (expected values, expected hitbounds, rejected?)
    cfg = construction data (mins, maxs, defaults, flags)"""
    mins, maxs, defaults = cfg["mins"], cfg["maxs"], cfg["defaults"]
    cb, ch, an = cfg["flags"]
    vals = [NAN if x is None else x for x in prev["values"]]
    hit = prev["hitbounds"]
    n = len(mins)
    kind = op[0]

    def clip(x, i):
        if math.isnan(x):
            return x
        return min(max(x, mins[i]), maxs[i])

    if kind in ("attr", "key"):
        i, x = op[1], op[2]
        if math.isnan(x) and not an:
            return None           # rejected
        nv = list(vals)
        nv[i] = clip(x, i)
        nh = ch and (not math.isnan(x)) and (x < mins[i] or x > maxs[i])
        return nv, nh
    if kind in ("all", "all_scalar"):
        w = [op[1]] if kind == "all_scalar" else list(op[1])
        if len(w) != n:
            return None
        if any(math.isnan(x) for x in w) and not an:
            return None
        nv = [clip(x, i) for i, x in enumerate(w)]
        nh = ch and any((not math.isnan(x)) and (x < mins[i] or x > maxs[i]) for i, x in enumerate(w))
        return nv, nh
    if kind == "badkey":
        return None
    if kind == "reset":
        return list(defaults), False
    if kind in ("clone", "dict"):
        return vals, hit
    raise ValueError(op)


def op_json(op):
    return [nanfix(x) if not isinstance(x, list) else [nanfix(y) for y in x] for x in op]


def op_from_json(j):
    def un(x):
        if x is None:
            return NAN
        if isinstance(x, list):
            return [NAN if y is None else y for y in x]
        return x
    return tuple(un(x) for x in j)


def rebuild(unit, history):
    """fresh object + replay of the history (copies are followed: the copy continues)"""
    v = make_vector(unit)
    for op in history:
        v = step_object(v, op)
    return v


def step_object(v, op):
    if op[0] == "clone":
        return v.clone()
    if op[0] == "dict":
        from hydrodiy.data.containers import Vector
        return Vector.from_dict(v.to_dict())
    try:
        apply_op(v, op)
    except Exception:
        pass
    return v


def check_transition(ctx, unit, cfg, history, op, prev_obs, case_extra=None):
    """executes op in the state reached by history; returns observed successor (or None)"""
    v = rebuild(unit, history)
    ctx.traces += 1
    case = {"kind": "vector", "unit": {k: unit[k] for k in ("names", "kinds", "flags")},
            "history": [op_json(o) for o in history], "op": op_json(op)}
    obs0 = observe(v)
    if obs0 != prev_obs:
        ctx.violation("vector:replay-diverged", case, "replaying the history gave a different state: %s vs %s" % (obs0, prev_obs))
        return None
    kindtag = op[0]
    res, exc, extra = apply_op(v, op)
    for k, msg in extra:
        ctx.violation("vector:" + k, case, msg)
    if isinstance(res, tuple):      # copy op: continue with a pristine copy
        w = step_object(rebuild(unit, history), op)
    else:
        w = v
    try:
        obs = observe(w)
    except Exception as e:
        ctx.violation("vector:%s:observe-failed" % kindtag, case, "cannot observe the object after the operation: %r" % (e,))
        return None
    exp = model_step(prev_obs, op, cfg)
    # construction data never changes
    for f in ("mins", "maxs", "defaults", "names", "check_bounds", "check_hitbounds", "accept_nan", "nval"):
        if obs[f] != prev_obs[f] or obs[f] != cfg["obs0"][f]:
            ctx.violation("vector:%s:construction-data-changed:%s" % (kindtag, f), case,
                          "%s changed from %r to %r" % (f, cfg["obs0"][f], obs[f]))
    if any(obs["alias"]):
        ctx.violation("vector:%s:values-alias-construction-data" % kindtag, case,
                      "after the operation the value array shares memory with (defaults, mins, maxs) = %s: a later element assignment would change them" % (obs["alias"],))
    nontriv = True
    if exp is None:
        if exc is None and not isinstance(res, tuple):
            ctx.violation("vector:%s:bad-assignment-accepted" % kindtag, case,
                          "assignment should be rejected (NaN not accepted / wrong length / unknown key) but was accepted; state now %s" % (obs["values"],))
        elif not isinstance(exc, ValueError) and exc is not None:
            ctx.violation("vector:%s:wrong-exception" % kindtag, case, "raised %r instead of ValueError" % (exc,))
        if obs != prev_obs:
            diff = sorted(k for k in obs if obs[k] != prev_obs[k])
            ctx.violation("vector:%s:rejected-assignment-changed-state:%s" % (kindtag, "+".join(diff)), case,
                          "a rejected assignment changed %s: %s -> %s" % (diff, {k: prev_obs[k] for k in diff}, {k: obs[k] for k in diff}))
        ctx.count("vector.rejected")
    else:
        ev, eh = exp
        evt = tuple(nanfix(float(x)) for x in ev)
        if exc is not None:
            ctx.violation("vector:%s:raised" % kindtag, case, "valid operation raised %r" % (exc,))
        else:
            if obs["values"] != evt:
                ctx.violation("vector:%s:values" % kindtag, case, "values %s, expected %s" % (obs["values"], evt),
                              observed=list(obs["values"]), expected=list(evt))
            if obs["hitbounds"] != bool(eh):
                ctx.violation("vector:%s:hitbounds" % kindtag, case,
                              "hitbounds %s, expected %s (flag must tell whether the latest assignment was clipped)" % (obs["hitbounds"], bool(eh)))
            if eh:
                ctx.count("vector.clipped_assignment_flagged")
            if any(x is None for x in obs["values"]):
                ctx.count("vector.nan_stored")
        # generic invariants
        for i, x in enumerate(obs["values"]):
            if x is None:
                if not cfg["flags"][2]:
                    ctx.violation("vector:%s:nan-stored-not-allowed" % kindtag, case, "NaN stored in element %d although accept_nan is False" % i)
            elif not (cfg["mins"][i] <= x <= cfg["maxs"][i]):
                ctx.violation("vector:%s:out-of-bounds" % kindtag, case, "element %d = %r outside [%r, %r]" % (i, x, cfg["mins"][i], cfg["maxs"][i]))
        # to_dict agrees with the properties
        d = obs["dict"]
        if d[0] != obs["nval"] or d[1] != obs["hitbounds"] or tuple(e[1] for e in d[5]) != obs["values"] \
                or tuple(e[0] for e in d[5]) != obs["names"] or tuple(e[2] for e in d[5]) != obs["mins"] \
                or tuple(e[3] for e in d[5]) != obs["maxs"] or tuple(e[4] for e in d[5]) != obs["defaults"]:
            ctx.violation("vector:%s:to_dict-inconsistent" % kindtag, case, "to_dict() %s disagrees with the properties %s" % (d, obs))
    ctx.case(nontriv, outcome=hash((state_key(obs), kindtag)))
    ctx.transitions += 1
    return obs


def run_vector_unit(unit, ctx):
    v0 = make_vector(unit)
    obs0 = observe(v0)
    cfg = {"mins": [BOUND_KINDS[k][0] for k in unit["kinds"]],
           "maxs": [BOUND_KINDS[k][1] for k in unit["kinds"]],
           "defaults": [BOUND_KINDS[k][2] for k in unit["kinds"]],
           "flags": unit["flags"], "obs0": obs0}
    # construction itself
    if obs0["values"] != tuple(cfg["defaults"]) or obs0["hitbounds"] or obs0["mins"] != tuple(cfg["mins"]) \
            or obs0["maxs"] != tuple(cfg["maxs"]) or obs0["defaults"] != tuple(cfg["defaults"]) \
            or obs0["names"] != tuple(unit["names"]) \
            or (obs0["check_bounds"], obs0["check_hitbounds"], obs0["accept_nan"]) != tuple(unit["flags"]):
        ctx.violation("vector:construction", {"kind": "vector", "unit": unit, "history": [], "op": ["reset"]},
                      "constructed vector does not show its construction data: %s" % (obs0,))
    ops = ops_for(unit)
    seen = {state_key(obs0): ([], obs0)}
    frontier = collections.deque([state_key(obs0)])
    ctx.case(False, n=0, sample={"kind": "vector", "unit": {k: unit[k] for k in ("names", "kinds", "flags")},
                                 "history": [], "op": op_json(ops[0])})
    maxdepth = 0
    succ = {}          # (state key, op index) -> observed successor from the canonical history
    alts = {}          # state key -> {last op kind: alternative history}
    while frontier:
        key = frontier.popleft()
        hist, obs = seen[key]
        for oi, op in enumerate(ops):
            nobs = check_transition(ctx, unit, cfg, hist, op, obs)
            if nobs is None:
                continue
            succ[(key, oi)] = nobs
            k = state_key(nobs)
            if k not in seen:
                seen[k] = (hist + [op], nobs)
                frontier.append(k)
                maxdepth = max(maxdepth, len(hist) + 1)
            else:
                chist = seen[k][0]
                lastkind = chist[-1][0] if chist else "init"
                if op[0] != lastkind:
                    alts.setdefault(k, {}).setdefault(op[0], hist + [op])
    ctx.states += len(seen)
    # differential oracle: a state reached by a different route (different kind of last operation) must have
    # the same futures as the same observable state reached by its canonical (shortest) history
    if unit.get("differential", True):
        for k, byk in alts.items():
            for kind, ahist in byk.items():
                for oi, op in enumerate(ops):
                    ref = succ.get((k, oi))
                    if ref is None:
                        continue
                    try:
                        w = rebuild(unit, ahist)
                        res, exc, extra = apply_op(w, op)
                        if isinstance(res, tuple):
                            w = step_object(rebuild(unit, ahist), op)
                        o2 = observe(w)
                    except Exception as e:
                        o2 = {"error": repr(e)}
                    ctx.traces += 1
                    ctx.transitions += 1
                    ctx.case(True, outcome=hash((k, oi, kind)))
                    ctx.count("vector.differential_transitions")
                    if o2 != ref:
                        diff = sorted(f for f in ref if o2.get(f) != ref[f])
                        case = {"kind": "vector-diff", "unit": {q: unit[q] for q in ("names", "kinds", "flags")},
                                "history": [op_json(o) for o in ahist], "canonical": [op_json(o) for o in seen[k][0]], "op": op_json(op)}
                        ctx.violation("vector:history-dependent:after-%s:then-%s:%s" % (kind, op[0], "+".join(diff)), case,
                                      "the same observable state reached through %s and through %s behaves differently under %s: %s vs %s" % (
                                          [op_json(o) for o in ahist], [op_json(o) for o in seen[k][0]], op_json(op),
                                          {f: o2.get(f) for f in diff}, {f: ref[f] for f in diff}))
    ctx.counters["vector.sum_over_configs_of_bfs_depth"] = max(ctx.counters.get("vector.sum_over_configs_of_bfs_depth", 0), maxdepth)


# --------------------------------------------------------------------------- Transform

TRANSFORMS = ["Identity", "Logit", "Log", "BoxCox2", "BoxCox1lam", "BoxCox1nu", "BoxCox2sym",
              "YeoJohnson", "Reciprocal", "Softmax", "Sinh", "LogSinh", "Manly"]

# parameter / constant settings per class: list of dicts (applied with trans[key] = value)
TPARAMS = {
    "Identity": [{}],
    "Logit": [{}, {"lower": -1.0, "logdelta": 1.0}],
    "Log": [{}, {"nu": 0.5}],
    "BoxCox2": [{}, {"nu": 0.5, "lam": 0.0}, {"nu": 0.1, "lam": 0.3}],
    "BoxCox1lam": [{"nu": 0.5}, {"nu": 0.5, "lam": 0.0}],
    "BoxCox1nu": [{"lam": 0.5}, {"lam": 0.0, "nu": 0.2}],
    "BoxCox2sym": [{}, {"nu": 0.5, "lam": 0.3}],
    "YeoJohnson": [{}, {"nu": 0.1, "scale": 2.0, "lam": 0.0}, {"lam": 2.0}],
    "Reciprocal": [{}, {"nu": 0.5}],
    "Softmax": [{}],
    "Sinh": [{}, {"nu": 0.2, "scale": 2.0}],
    "LogSinh": [{"xmax": 2.0}, {"xmax": 2.0, "loga": -2.0, "logb": 0.5}],
    "Manly": [{"xmax": 2.0}, {"xmax": 2.0, "lam": 0.5}],
}
TSET = {"Logit": ("lower", -2.0), "Log": ("nu", 0.25), "BoxCox2": ("lam", 0.5), "BoxCox1lam": ("lam", 0.5),
        "BoxCox1nu": ("nu", 0.3), "BoxCox2sym": ("lam", 0.5), "YeoJohnson": ("lam", 1.5), "Reciprocal": ("nu", 0.25),
        "Sinh": ("scale", 1.5), "LogSinh": ("logb", 0.25), "Manly": ("lam", -0.5)}
TX = {"Softmax": np.array([[0.1, 0.2], [0.3, 0.3]]), "Logit": np.array([0.2, 0.7])}
TY = {"Softmax": np.array([[0.1, -0.2], [0.3, 0.0]])}


def tobserve(t):
    def ov(v):
        return (tup(v.values), tup(v.mins), tup(v.maxs), tup(v.defaults), tuple(str(s) for s in v.names),
                bool(v.check_hitbounds), bool(v.accept_nan))
    return {"params": ov(t.params), "constants": ov(t.constants), "name": t.name}


def tops(cls):
    return ["forward", "backward", "jacobian", "backward_censored", "params_sample", "params_logprior", "str", "set"]


def tapply(t, cls, op, setk):
    x = TX.get(cls, np.array([0.3, 1.2, 2.0]))
    y = TY.get(cls, np.array([-0.2, 0.4, 0.9]))
    if cls == "Logit":
        x = t.lower + np.array([0.2, 0.7]) * (math.exp(t.logdelta))
    if op == "forward":
        t.forward(x)
    elif op == "backward":
        t.backward(y)
    elif op == "jacobian":
        t.jacobian(x)
    elif op == "backward_censored":
        if cls == "Softmax":
            t.backward(y)
        else:
            t.backward_censored(y, 0.1)
    elif op == "params_sample":
        np.random.seed(5)
        t.params_sample(7)
    elif op == "params_logprior":
        t.params_logprior()
    elif op == "str":
        str(t)
        str(t.params)
    elif op == "set":
        # assign a parameter through the public item route (alternating between two admissible values)
        if setk is not None:
            k, v1, v0 = setk
            t[k] = v1 if t[k] != v1 else v0


def run_transform_unit(unit, ctx):
    from hydrodiy.stat import transform
    cls = unit["cls"]
    depth = unit["depth"]
    ops = tops(cls)
    for pi, pset in enumerate(TPARAMS[cls]):
        for seq in itertools.chain.from_iterable(itertools.product(ops, repeat=d) for d in range(1, depth + 1)):
            check_transform_seq(ctx, cls, pset, list(seq))


def check_transform_seq(ctx, cls, pset, seq):
    from hydrodiy.stat import transform
    case = {"kind": "transform", "cls": cls, "params": pset, "seq": list(seq)}
    t = getattr(transform, cls)()
    for k, v in pset.items():
        t[k] = v
    setk = None
    if cls in TSET:
        k, v1 = TSET[cls]
        setk = (k, v1, float(t[k]))
    snap = tobserve(t)
    fresh_default = tobserve(getattr(transform, cls)())
    for i, op in enumerate(seq):
        try:
            tapply(t, cls, op, setk)
            err = None
        except Exception as e:
            err = e
        now = tobserve(t)
        ctx.case(True, outcome=hash((cls, op, str(now))))
        if op == "set" and setk is not None:
            # only the assigned value may differ
            idx = snap["params"][4].index(setk[0])
            vals = list(snap["params"][0])
            expv = setk[1] if vals[idx] != setk[1] else setk[2]
            vals[idx] = expv
            snap = dict(snap, params=(tuple(vals),) + snap["params"][1:])
            ctx.count("transform.param_assignments")
        if now != snap:
            diff = []
            for part in ("params", "constants"):
                for j, f in enumerate(("values", "mins", "maxs", "defaults", "names", "check_hitbounds", "accept_nan")):
                    if now[part][j] != snap[part][j]:
                        diff.append("%s.%s" % (part, f))
            ctx.violation("transform:%s:%s:changed:%s" % (cls if op != "params_sample" else "*", op, "+".join(diff)), dict(case, step=i),
                          "%s.%s changed %s: %s -> %s" % (cls, op, diff,
                                                           {d: snap[d.split('.')[0]] for d in diff}, {d: now[d.split('.')[0]] for d in diff}))
            return
    # a fresh instance created afterwards must still have pristine construction data (no shared mutable defaults)
    after = tobserve(getattr(transform, cls)())
    if after != fresh_default:
        ctx.violation("transform:%s:fresh-instance-polluted" % cls, case,
                      "a new %s() built after the calls differs from one built before: %s vs %s" % (cls, after, fresh_default))


def wide_unit_cfg(unit):
    n = unit["n"]
    names = ["p%d" % i for i in range(n)]
    kinds = [KINDS[i % 4] for i in range(n)]
    return {"kind": "vector", "names": names, "kinds": kinds, "flags": unit["flags"]}


def wide_history(u):
    """a scripted history that touches every element by attribute and by key with every letter of its kind,
    interleaved with whole-vector assignments, reset, clone and dict copies"""
    n = len(u["names"])
    hist = []
    for i, k in enumerate(u["kinds"]):
        vals = BOUND_KINDS[k][3] + [NAN]
        hist.append(("attr" if i % 2 else "key", i, vals[i % len(vals)]))
        if i % 16 == 5:
            hist.append(("clone",))
        if i % 16 == 11:
            hist.append(("dict",))
        if i % 32 == 7:
            hist.append(("all", [BOUND_KINDS[kk][2] if j % 3 else BOUND_KINDS[kk][3][0] for j, kk in enumerate(u["kinds"])]))
        if i % 32 == 23:
            hist.append(("reset",))
    hist += [("all", [BOUND_KINDS[kk][2] for kk in u["kinds"]] + [0.5]), ("badkey", 1.0), ("clone",), ("dict",), ("reset",)]
    return hist


def run_wide_unit(unit, ctx):
    u = wide_unit_cfg(unit)
    v = make_vector(u)
    obs0 = observe(v)
    cfg = {"mins": [BOUND_KINDS[k][0] for k in u["kinds"]], "maxs": [BOUND_KINDS[k][1] for k in u["kinds"]],
           "defaults": [BOUND_KINDS[k][2] for k in u["kinds"]], "flags": u["flags"], "obs0": obs0}
    ctx.case(False, n=0, sample={"kind": "wide", "n": unit["n"], "flags": unit["flags"], "step": 0})
    prev = obs0
    hist = wide_history(u)
    for si, op in enumerate(hist):
        case = {"kind": "wide", "n": unit["n"], "flags": unit["flags"], "step": si}
        exp = model_step(prev, op, cfg)
        if op[0] in ("clone", "dict"):
            # the copy continues (the independence test of apply_op would disturb the scripted history)
            res, exc, extra = ("copy", op[0]), None, []
            try:
                v = v.clone() if op[0] == "clone" else type(v).from_dict(v.to_dict())
            except Exception as e:
                exc = e
        else:
            res, exc, extra = apply_op(v, op)
        for k, msg in extra:
            ctx.violation("vector:wide:" + k, case, msg)
        obs = observe(v)
        ctx.case(True, outcome=hash((si, obs["values"][:4], obs["hitbounds"])))
        ctx.transitions += 1
        for f in ("mins", "maxs", "defaults", "names", "check_bounds", "check_hitbounds", "accept_nan", "nval"):
            if obs[f] != obs0[f]:
                ctx.violation("vector:wide:%s:construction-data-changed:%s" % (op[0], f), case, "%s changed at step %d (%s) of the scripted history on %d names" % (f, si, op_json(op)[:2], unit["n"]))
        if any(obs["alias"]):
            ctx.violation("vector:wide:%s:values-alias-construction-data" % op[0], case, "values share memory with construction data after step %d" % si)
        if exp is None:
            if exc is None and not isinstance(res, tuple):
                ctx.violation("vector:wide:%s:bad-assignment-accepted" % op[0], case, "step %d should be rejected" % si)
            if obs != prev:
                ctx.violation("vector:wide:%s:rejected-assignment-changed-state" % op[0], case, "rejected step %d changed the state" % si)
        else:
            ev, eh = exp
            evt = tuple(nanfix(float(x)) for x in ev)
            if exc is not None:
                ctx.violation("vector:wide:%s:raised" % op[0], case, "valid step %d raised %r" % (si, exc))
            elif obs["values"] != evt or obs["hitbounds"] != bool(eh):
                bad = [i for i, (a, b) in enumerate(zip(obs["values"], evt)) if a != b][:5]
                ctx.violation("vector:wide:%s:%s" % (op[0], "values" if obs["values"] != evt else "hitbounds"), case,
                              "after step %d (%s) on %d names: elements %s differ / hitbounds %s expected %s" % (si, op_json(op)[:2], unit["n"], bad, obs["hitbounds"], bool(eh)))
        prev = obs
    ctx.states += len(hist)
    ctx.traces += 1


def run_unit(unit, ctx):
    if unit["kind"] == "wide":
        run_wide_unit(unit, ctx)
        return
    if unit["kind"] == "vector":
        run_vector_unit(unit, ctx)
    else:
        ctx.case(False, n=0, sample={"kind": "transform", "cls": unit["cls"], "params": TPARAMS[unit["cls"]][-1], "seq": ["forward", "params_sample", "str"]})
        run_transform_unit(unit, ctx)


def replay(case):
    from mc.explore import Result
    ctx = Result()
    if case["kind"] == "wide":
        run_wide_unit({"kind": "wide", "n": case["n"], "flags": case["flags"]}, ctx)
        return [v for lst in ctx.violations.values() for v in lst]
    if case["kind"] == "vector-diff":
        unit = dict(case["unit"]); unit["kind"] = "vector"
        op = op_from_json(case["op"])
        outs = []
        for h in (case["history"], case["canonical"]):
            hist = [op_from_json(o) for o in h]
            w = rebuild(unit, hist)
            res, exc, extra = apply_op(w, op)
            if isinstance(res, tuple):
                w = step_object(rebuild(unit, hist), op)
            outs.append(observe(w))
        if outs[0] != outs[1]:
            ctx.violation("vector:history-dependent", case, "futures differ: %s vs %s" % (outs[0], outs[1]))
    elif case["kind"] == "vector":
        unit = dict(case["unit"])
        unit["kind"] = "vector"
        hist = [op_from_json(o) for o in case["history"]]
        op = op_from_json(case["op"])
        v0 = make_vector(unit)
        obs0 = observe(v0)
        cfg = {"mins": [BOUND_KINDS[k][0] for k in unit["kinds"]],
               "maxs": [BOUND_KINDS[k][1] for k in unit["kinds"]],
               "defaults": [BOUND_KINDS[k][2] for k in unit["kinds"]],
               "flags": unit["flags"], "obs0": obs0}
        prev = observe(rebuild(unit, hist))
        check_transition(ctx, unit, cfg, hist, op, prev)
    else:
        check_transform_seq(ctx, case["cls"], case["params"], case["seq"])
    return [v for lst in ctx.violations.values() for v in lst]
