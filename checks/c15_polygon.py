"""C15 - points_inside_polygon / Grid.cells_inside_polygon against the even-odd rule.

Space (crossed fully):
  polygons = EVERY vertex sequence of length n over the integer lattice {0..K}^2
             (repeated vertices, collinear runs, horizontal / vertical edges, both
             orientations, every starting vertex, self-intersections and zero-area
             polygons all arise by exhaustion), each in open form and in closed form
             (first vertex repeated at the end);
  query points = the quarter-integer lattice from -1/2 to K+1/2 in x and y
             ((4K+5)^2 points: inside and outside the bounding box, many level with
             vertices); points exactly on an edge are excluded by an exact integer test;
  transforms = identity, translation (+1000, -77), scaling x2^10, x2^-10, x1e-3, and one
             seed-selected affine map (polygon and points transformed together);
  cells_inside_polygon on three small grids whose cell centres are lattice points.
The sequences are organised by orbit under rotation / reversal of the vertex list: a unit
owns the orbits whose lexicographically smallest member starts with its (v0, v1); every
member of the orbit is executed and compared with the oracle, so every sequence is executed
exactly once and the rotation / reversal invariance is checked explicitly.
Oracle: crossing parity of the ray towards +x in integer arithmetic (coordinates x4).
"""
import itertools
from fractions import Fraction
import numpy as np

ID = "C15"
TECHNIQUE = ("bounded exhaustive enumeration of lattice polygons x query lattice x transforms on the real "
             "points_inside_polygon / cells_inside_polygon, judged by an exact integer even-odd oracle")
RULE = ("every vertex sequence of length n over {0..K}^2 (tier bound), open and closed form, x every point of "
        "the quarter-integer lattice on [-1/2, K+1/2]^2 that is not exactly on an edge (exact integer test) x "
        "6 transforms applied to polygon and points together; plus cells_inside_polygon on 3 grids per "
        "sequence. A case is one (vertex list, form, transform, query point) or one (vertex list, form, grid, "
        "cell); it is non-trivial when the point lies in the closed bounding box of the polygon, i.e. the "
        "crossing loop of the kernel decides it. Sequences are partitioned into orbits under rotation and "
        "reversal (canonical = lexicographic minimum), each orbit is owned by one unit and each member is "
        "executed once, so cases are distinct by construction.")
ASSUMPTIONS = [
    "query points exactly on an edge or vertex (exact integer test) are not judged; every other lattice point is at least 1/(4*sqrt(2)*K) ~ 0.06 lattice units from every edge, far beyond the tolerance 1e-8 and the 1e-6 x size margin of the property, also after scaling by 1e-3 / 2^-10",
    "the even-odd answer of a zero-area or self-overlapping vertex list is the crossing parity of the closed polyline (well defined off the polyline)",
    "transforms are computed as k*s+t in float64 for vertices and points alike; lattice relations (level with a vertex) are preserved exactly because both use the same float operations",
    "cells_inside_polygon: cells whose centre is exactly on an edge may or may not be returned; the x, y columns must be the centres of the returned cells; no duplicates",
    "extension modules rebuilt from the working tree C sources; Cython wrapper C not re-translated",
]

TRANSFORMS = [("id", 1.0, 0.0, 0.0), ("translate", 1.0, 1000.0, -77.0), ("scale", 2.0 ** 10, 0.0, 0.0),
              ("scale", 2.0 ** -10, 0.0, 0.0), ("scale", 1.0e-3, 0.0, 0.0),
              # far from the origin relative to the polygon size (projected coordinates): offset/size ~ 1e7, exact in float64
              ("translate-far", 1.0, 1.0e7, -2.0e7)]
SEED_TRANSFORMS = [("affine", 3.0, -3.25, 17.5), ("affine", 2.0 ** -4, 0.0, 1.0e4),
                   ("affine", 7.5, 123.0, -0.125), ("affine", 0.1, 0.0, 0.0),
                   ("affine", 1.0e3, -5.0e5, 2.5e5), ("affine", 0.7, 0.3, -0.9)]

# grids for cells_inside_polygon: (ncols, nrows, csz, xll, yll); centres are quarter-lattice points
GRIDS = {
    2: [(4, 4, 0.5, 0.0, 0.0), (5, 3, 0.5, -0.25, 0.25), (5, 3, 0.75, -0.625, -0.125)],
    3: [(6, 6, 0.5, 0.0, 0.0), (7, 5, 0.5, -0.25, 0.25), (5, 3, 0.75, -0.625, -0.125)],
}


def transforms(seed):
    return TRANSFORMS + [SEED_TRANSFORMS[seed % len(SEED_TRANSFORMS)]]


def spaces(tier):
    """list of (K, n, with_cells)"""
    if tier == "quick":
        return [(2, 3, True), (2, 4, True), (3, 3, True)]
    return [(2, 3, True), (2, 4, True), (2, 5, True), (2, 6, False),
            (3, 3, True), (3, 4, True), (3, 5, False)]


def bound_text(tier, seed):
    sp = spaces(tier)
    return ("all vertex sequences: " + ", ".join("length %d over {0..%d}^2 (%d)%s" % (
        n, K, ((K + 1) ** 2) ** n, "" if wc else " [no cells_inside_polygon]") for K, n, wc in sp) +
        "; open + closed form; quarter lattice on [-1/2, K+1/2]^2; transforms %s" % (transforms(seed),))


def units(tier, seed):
    us = []
    for K, n, wc in spaces(tier):
        nv = (K + 1) ** 2
        for v0 in range(nv):
            for v1 in range(v0, nv):       # canonical minimum starts with its smallest vertex
                us.append({"K": K, "n": n, "v0": v0, "v1": v1, "cells": wc, "seed": seed})
    return us


# ---------------------------------------------------------------------------
# exact oracle (integers, coordinates x4)

def lattice_points(K):
    q = np.arange(-2, 4 * K + 3, dtype=np.int64)
    PX, PY = np.meshgrid(q, q, indexing="ij")
    return PX.ravel(), PY.ravel()


def oracle(verts4, PX, PY):
    """verts4: list of (x, y) ints (x4). -> (inside bool array, onedge bool array)"""
    n = len(verts4)
    inside = np.zeros(len(PX), dtype=bool)
    onedge = np.zeros(len(PX), dtype=bool)
    for i in range(n):
        ax, ay = verts4[i]
        bx, by = verts4[(i + 1) % n]
        cross = (bx - ax) * (PY - ay) - (PX - ax) * (by - ay)
        onedge |= ((cross == 0) & (PX >= min(ax, bx)) & (PX <= max(ax, bx))
                   & (PY >= min(ay, by)) & (PY <= max(ay, by)))
        if ay == by:
            continue
        straddle = (ay > PY) != (by > PY)
        if by > ay:
            left = cross > 0
        else:
            left = cross < 0
        inside ^= (straddle & left)
    return inside, onedge


def orbit(s):
    n = len(s)
    r = s[::-1]
    out = set()
    for k in range(n):
        out.add(s[k:] + s[:k])
        out.add(r[k:] + r[:k])
    return out


def vert_xy(v, K):
    return (v // (K + 1), v % (K + 1))


def float_poly(vxy, closed, tr):
    _, s, tx, ty = tr
    pts = [[float(x) * s + tx, float(y) * s + ty] for x, y in vxy]
    if closed:
        pts.append(list(pts[0]))
    return np.array(pts, dtype=np.float64)


def float_points(PX, PY, tr):
    _, s, tx, ty = tr
    return np.ascontiguousarray(np.column_stack([(PX * 0.25) * s + tx, (PY * 0.25) * s + ty]))


def check_pip(ctx, gutils, vxy, closed, tr, PX, PY, P, exp, onedge, inbox, level, prealloc=False, base_fail=None):
    """one call of points_inside_polygon over the whole lattice.
    base_fail: set of failure classes already seen for the base call (open form, identity transform) of this
    vertex list; a class that fails there keeps its short key, a class that fails ONLY in another form /
    under a transform gets the form / transform appended (a different defect)."""
    poly = float_poly(vxy, closed, tr)
    case = {"kind": "pip", "K": int((int(PX.max()) - 2) // 4), "verts": [list(v) for v in vxy], "closed": closed,
            "transform": list(tr), "prealloc": prealloc}
    judged = ~onedge
    nj = int(judged.sum())
    try:
        if prealloc:
            buf = np.ones(len(P), dtype=np.int32)
            res = gutils.points_inside_polygon(P, poly, inside=buf)
        else:
            res = gutils.points_inside_polygon(P, poly)
    except Exception as e:
        ctx.case(True, n=nj)
        ctx.violation("pip:raised:%s" % type(e).__name__, case, "points_inside_polygon raised %r" % (e,))
        return None
    res = np.asarray(res)
    ntriv = int((judged & inbox).sum())
    ctx.case(True, outcome=res.tobytes(), n=ntriv)
    if nj - ntriv:
        ctx.case(False, n=nj - ntriv)
    if res.shape != (len(P),):
        ctx.violation("pip:shape", case, "result shape %r for %d points" % (res.shape, len(P)))
        return None
    bad01 = judged & (res != 0) & (res != 1)
    if bad01.any():
        i = int(np.flatnonzero(bad01)[0])
        ctx.violation("pip:value-not-0-1", dict(case, point=[int(PX[i]), int(PY[i])]),
                      "answer %r for point %r" % (int(res[i]), P[i].tolist()))
    wrong = judged & ((res == 1) != exp) & ~bad01
    if wrong.any():
        form = ("closed" if closed else "open") + (":prealloc" if prealloc else "")
        for i in np.flatnonzero(wrong):
            i = int(i)
            rel = "inside-reported-outside" if exp[i] else "outside-reported-inside"
            cls = "level-with-vertex" if level[i] else "generic"
            box = "in-bbox" if inbox[i] else "outside-bbox"
            kcls = (rel, cls, box)
            key = "pip:%s:%s:%s" % kcls
            if base_fail is None:
                if not (form == "open" and tr[0] == "id"):
                    key += ":%s:%s" % (form, tr[0])        # replay of a single call
            elif form == "open" and tr[0] == "id":
                base_fail.add(kcls)
            elif kcls not in base_fail:
                key += ":only-%s-%s" % (form, tr[0])
            ctx.violation(key, dict(case, point=[int(PX[i]), int(PY[i])]),
                          "polygon %s (%s, transform x%r + (%r, %r)): point %r (lattice (%g, %g)) is %s under the "
                          "even-odd rule, points_inside_polygon says %d" % (
                              [list(v) for v in vxy], "closed" if closed else "open", tr[1], tr[2], tr[3],
                              P[i].tolist(), PX[i] / 4.0, PY[i] / 4.0, "inside" if exp[i] else "outside", int(res[i])),
                          observed=int(res[i]), expected=int(exp[i]))
    else:
        ctx.count("pip.calls_agree")
    return res


def grid_centres4(gdef):
    """exact centres (x4, ints) of every cell, numbered row by row from the top-left"""
    ncols, nrows, csz, xll, yll = gdef
    cx, cy = [], []
    for c in range(nrows * ncols):
        row, col = divmod(c, ncols)
        x = (Fraction(xll) + Fraction(csz) * (Fraction(col) + Fraction(1, 2))) * 4
        y = (Fraction(yll) + Fraction(csz) * (Fraction(nrows - 1 - row) + Fraction(1, 2))) * 4
        if x.denominator != 1 or y.denominator != 1:
            raise RuntimeError("grid %r: centres are not quarter-lattice points" % (gdef,))
        cx.append(int(x))
        cy.append(int(y))
    return np.array(cx, dtype=np.int64), np.array(cy, dtype=np.int64)


_GRID_CACHE = {}


def get_grid(K, gi):
    key = (K, gi)
    if key not in _GRID_CACHE:
        from hydrodiy.gis.grid import Grid
        gdef = GRIDS[K][gi]
        ncols, nrows, csz, xll, yll = gdef
        g = Grid("g%d" % gi, ncols=ncols, nrows=nrows, cellsize=csz, xllcorner=xll, yllcorner=yll)
        _GRID_CACHE[key] = (g, grid_centres4(gdef))
    return _GRID_CACHE[key]


MOVING = {      # two geometries of the same shape: one Grid object is moved between them by attribute assignment
    2: [(5, 3, 0.5, -0.25, 0.25), (5, 3, 0.75, -0.625, -0.125)],
    3: [(7, 5, 0.5, -0.25, 0.25), (7, 5, 0.75, -0.625, -0.125)],
}
_MOVING = {}


def moving_grid(K, phase, fresh=False):
    """the single Grid object of this worker for K, re-georeferenced to MOVING[K][phase] through its public
    attributes (history: it was queried in the other geometry before, except on the very first call)"""
    from hydrodiy.gis.grid import Grid
    if fresh or K not in _MOVING:
        ncols, nrows, csz, xll, yll = MOVING[K][1 - phase]
        g = Grid("moving", ncols=ncols, nrows=nrows, cellsize=csz, xllcorner=xll, yllcorner=yll)
        _MOVING[K] = [g, {p: grid_centres4(MOVING[K][p]) for p in (0, 1)}, None]
    ent = _MOVING[K]
    g = ent[0]
    ncols, nrows, csz, xll, yll = MOVING[K][phase]
    g.cellsize = np.float64(csz)
    g.xllcorner = np.float64(xll)
    g.yllcorner = np.float64(yll)
    return g, ent[1][phase]


def check_cells(ctx, K, vxy, verts4, closed, gi, moving=None):
    poly = float_poly(vxy, closed, TRANSFORMS[0])
    if moving is None:
        g, (CX, CY) = get_grid(K, gi)
        case = {"kind": "cells", "K": K, "verts": [list(v) for v in vxy], "closed": closed, "grid": gi}
    else:
        # moving = (phase, replaying): in a replay the grid is created in the other geometry and queried once first
        phase, replaying = moving
        if replaying:
            g0, _ = moving_grid(K, 1 - phase, fresh=True)
            try:
                g0.cells_inside_polygon(poly)
            except Exception:
                pass
        g, (CX, CY) = moving_grid(K, phase)
        case = {"kind": "cells", "K": K, "verts": [list(v) for v in vxy], "closed": closed, "grid": "moving", "phase": phase}
        gi = "moving-phase%d" % phase
        ctx.count("cells.moved_grid_calls")
    inside, onedge = oracle(verts4, CX, CY)
    ncell = len(CX)
    try:
        df = g.cells_inside_polygon(poly)
        cells = [int(c) for c in df["cell"].values]
        xs = [float(v) for v in df["x"].values]
        ys = [float(v) for v in df["y"].values]
    except Exception as e:
        ctx.case(True, n=ncell)
        ctx.violation("cells_inside_polygon:raised:%s" % type(e).__name__, case, "raised %r" % (e,))
        return
    nj = int((~onedge).sum())
    ctx.case(bool(inside.any()), outcome=tuple(cells), n=nj)
    gname = "grid%s" % gi
    if len(set(cells)) != len(cells):
        ctx.violation("cells_inside_polygon:duplicate-cells", case, "cells %r" % (cells,), observed=cells)
    got = set(cells)
    must = set(int(c) for c in np.flatnonzero(inside & ~onedge))
    may = set(int(c) for c in np.flatnonzero(onedge))
    missing = sorted(must - got)
    extra = sorted(got - must - may)
    if missing:
        ctx.violation("cells_inside_polygon:missing-cell", case,
                      "%s %r, polygon %s: cells %r have their centre inside but are not returned (got %r)" % (
                          gname, GRIDS[K][gi] if moving is None else MOVING[K][moving[0]], [list(v) for v in vxy], missing, cells),
                      observed=cells, expected=sorted(must))
    if extra:
        ctx.violation("cells_inside_polygon:extra-cell", case,
                      "%s %r, polygon %s: cells %r returned but their centre is outside (or not a cell)" % (
                          gname, GRIDS[K][gi] if moving is None else MOVING[K][moving[0]], [list(v) for v in vxy], extra),
                      observed=cells, expected=sorted(must))
    for c, x, y in zip(cells, xs, ys):
        if 0 <= c < ncell and (x * 4 != CX[c] or y * 4 != CY[c]):
            ctx.violation("cells_inside_polygon:xy-not-centre", case,
                          "cell %d reported at (%r, %r), centre is (%r, %r)" % (c, x, y, CX[c] / 4.0, CY[c] / 4.0))
            break
    if not (missing or extra):
        ctx.count("cells.calls_agree")
    if may:
        ctx.count("cells.centres_on_edge_unjudged", len(may))


def check_sequence(ctx, gutils, K, seq, canon_exp, PX, PY, Pts, trs, with_cells, full=True):
    """every call for one vertex sequence (one orbit member)."""
    vxy = [vert_xy(v, K) for v in seq]
    verts4 = [(4 * x, 4 * y) for x, y in vxy]
    exp, onedge = oracle(verts4, PX, PY)
    if canon_exp is not None:
        # the oracle itself must be invariant under rotation / reversal (self-check of the harness)
        if not (np.array_equal(exp, canon_exp[0]) and np.array_equal(onedge, canon_exp[1])):
            raise RuntimeError("oracle not invariant under rotation/reversal for %r" % (seq,))
        ctx.count("orbit.members_vs_canonical")
    xs4 = [v[0] for v in verts4]
    ys4 = [v[1] for v in verts4]
    inbox = (PX >= min(xs4)) & (PX <= max(xs4)) & (PY >= min(ys4)) & (PY <= max(ys4))
    level = np.isin(PY, np.array(sorted(set(ys4)), dtype=np.int64))
    if exp[~onedge].any():
        ctx.count("polygons.with_interior_points")
    else:
        ctx.count("polygons.no_interior_point")
    base_fail = set()
    for closed in (False, True):
        for ti, tr in enumerate(trs):          # trs[0] is the identity: (open, identity) runs first
            check_pip(ctx, gutils, vxy, closed, tr, PX, PY, Pts[ti], exp, onedge, inbox, level, base_fail=base_fail)
    # caller-supplied answer vector pre-filled with ones: must be re-initialised by the wrapper
    check_pip(ctx, gutils, vxy, False, trs[0], PX, PY, Pts[0], exp, onedge, inbox, level, prealloc=True,
              base_fail=base_fail)
    if with_cells:
        for gi in range(len(GRIDS[K])):
            check_cells(ctx, K, vxy, verts4, False, gi)
            if canon_exp is None:
                check_cells(ctx, K, vxy, verts4, True, gi)
        # history: the same Grid object queried after its georeferencing was changed (alternating geometries)
        for phase in (0, 1):
            check_cells(ctx, K, vxy, verts4, False, None, moving=(phase, False))
    return exp, onedge


def run_unit(unit, ctx):
    from hydrodiy.gis import gutils
    K, n, v0, v1 = unit["K"], unit["n"], unit["v0"], unit["v1"]
    nv = (K + 1) ** 2
    trs = transforms(unit["seed"])
    PX, PY = lattice_points(K)
    Pts = [float_points(PX, PY, tr) for tr in trs]
    first = True
    for rest in itertools.product(range(v0, nv), repeat=n - 2):
        s = (v0, v1) + rest
        orb = orbit(s)
        if s != min(orb):
            continue
        ctx.count("orbits")
        if first:
            ctx.case(False, n=0, sample={"kind": "pip", "K": K, "verts": [list(vert_xy(v, K)) for v in s], "closed": False,
                                         "transform": list(trs[0]), "prealloc": False})
            first = False
        canon = check_sequence(ctx, gutils, K, s, None, PX, PY, Pts, trs, unit["cells"])
        ctx.count("sequences")
        for m in sorted(orb):
            if m == s:
                continue
            check_sequence(ctx, gutils, K, m, canon, PX, PY, Pts, trs, unit["cells"])
            ctx.count("sequences")


def replay(case):
    from mc.explore import Result
    from hydrodiy.gis import gutils

    class All(Result):
        def violation(self, key, case, msg, observed=None, expected=None):
            self.nviol += 1
            self.violations.setdefault(key, []).append(
                {"key": key, "case": case, "msg": msg, "observed": observed, "expected": expected})
    ctx = All()
    vxy = [tuple(v) for v in case["verts"]]
    K = case.get("K") or max(2, max(max(v) for v in vxy))
    verts4 = [(4 * x, 4 * y) for x, y in vxy]
    if case["kind"] == "cells" and case["grid"] == "moving":
        check_cells(ctx, K, vxy, verts4, case["closed"], None, moving=(case["phase"], True))
        return [v for lst in ctx.violations.values() for v in lst]
    if case["kind"] == "cells":
        check_cells(ctx, K, vxy, verts4, case["closed"], case["grid"])
        return [v for lst in ctx.violations.values() for v in lst]
    PX, PY = lattice_points(K)
    exp, onedge = oracle(verts4, PX, PY)
    xs4 = [v[0] for v in verts4]
    ys4 = [v[1] for v in verts4]
    inbox = (PX >= min(xs4)) & (PX <= max(xs4)) & (PY >= min(ys4)) & (PY <= max(ys4))
    level = np.isin(PY, np.array(sorted(set(ys4)), dtype=np.int64))
    tr = tuple(case["transform"])
    P = float_points(PX, PY, tr)
    check_pip(ctx, gutils, vxy, case["closed"], tr, PX, PY, P, exp, onedge, inbox, level,
              prealloc=case.get("prealloc", False))
    out = [v for lst in ctx.violations.values() for v in lst]
    if "point" in case:
        sel = [v for v in out if v["case"].get("point") == case["point"]]
        return sel
    return out
