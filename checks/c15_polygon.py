"""C15 - points_inside_polygon / Grid.cells_inside_polygon against the even-odd rule.

Space (crossed fully):
  polygons = EVERY vertex sequence of length n over the integer lattice {0..K}^2
             (repeated vertices, collinear runs, horizontal / vertical edges, both
             orientations, every starting vertex, self-intersections and zero-area
             polygons all arise by exhaustion), each in open form and in closed form
             (first vertex repeated at the end);
  query points = the quarter-integer lattice from -1/2 to K+1/2 in x and y
             ((4K+5)^2 points: inside and outside the bounding box, many level with
             vertices); points exactly on an edge are excluded by an exact integer test;
  transforms = identity, translation (+1000, -77), scaling x2^10, x2^-10, x1e-3, and one
             seed-selected affine map (polygon and points transformed together);
  cells_inside_polygon on three small grids whose cell centres are lattice points.
The sequences are organised by orbit under rotation / reversal of the vertex list: a unit
owns the orbits whose lexicographically smallest member starts with its (v0, v1); every
member of the orbit is executed and compared with the oracle, so every sequence is executed
exactly once and the rotation / reversal invariance is checked explicitly.
Oracle: crossing parity of the ray towards +x in integer arithmetic (coordinates x4).

Size ladders (added; same integer oracle):
  vertex count : regular lattice polygons - staircase (unit steps), comb (teeth of height 3 on a base of height 1),
             saw (zig-zag edges of slope +-1) - with exactly n vertices for every n of the ladder 7..1025 (thorough:
             ..4097, 10001); each as given, rotated by n/3 and reversed, open and closed, under every transform, plus
             the pre-filled answer vector; query points = product of the quarter-lattice positions within 3/4 of the
             anchors {0, 1, w/2, w-1, w, powers of two and their successors} of each axis (all positions when the
             extent is <= 12);
  point count  : 4 polygons x P points of the full quarter lattice for every P of the ladder (stride coprime with
             the lattice size), with and without the pre-filled answer vector;
  grid size    : cells_inside_polygon on half-unit grids that cover staircases / combs of 16..257 vertices
             (up to 132 x 132 cells; thorough 16..1025).
Layouts (added, differential): on every ladder polygon (identity and translate-far transform) and on the first vertex
  list of every exhaustive unit the points and the polygon are passed again as list, read-only, Fortran order,
  strided rows / columns, big-endian, float32 / float16 / int32 / int64 (only values exactly representable) and
  DataFrame; the answers must equal those of the float64 C-contiguous call; a refused layout is counted.
"""
import itertools
from fractions import Fraction
import numpy as np
from mc.explore import recycle

ID = "C15"
# computational entry points whose results are watched by the engine's retained-result oracle (mc/explore.py)
RETAIN = [('hydrodiy.gis.gutils', 'points_inside_polygon'), ('hydrodiy.gis.grid', 'Grid.cells_inside_polygon')]
TECHNIQUE = ("bounded exhaustive enumeration of lattice polygons x query lattice x transforms on the real "
             "points_inside_polygon / cells_inside_polygon, judged by an exact integer even-odd oracle")
RULE = ("every vertex sequence of length n over {0..K}^2 (tier bound), open and closed form, x every point of "
        "the quarter-integer lattice on [-1/2, K+1/2]^2 that is not exactly on an edge (exact integer test) x "
        "6 transforms applied to polygon and points together; plus cells_inside_polygon on 3 grids per "
        "sequence. A case is one (vertex list, form, transform, query point) or one (vertex list, form, grid, "
        "cell); it is non-trivial when the point lies in the closed bounding box of the polygon, i.e. the "
        "crossing loop of the kernel decides it. Sequences are partitioned into orbits under rotation and "
        "reversal (canonical = lexicographic minimum), each orbit is owned by one unit and each member is "
        "executed once, so cases are distinct by construction. SIZE LADDERS: one unit per (family in staircase / "
        "comb / saw, n in the ladder 7..1025 [thorough ..10001], plus every n in 7..130 with one family in rotation [thorough: 7..300, all families] and every point count 1..130 [300]) running 3 vertex-list variants x open/closed x the "
        "transforms over the anchor-product quarter lattice; units of 6 point counts per polygon for the point-count "
        "ladder; units of 2 growing grids for cells_inside_polygon. LAYOUTS: 14 containers / dtypes / stride patterns "
        "for the points and for the polygon, on every ladder polygon and the first vertex list of each exhaustive unit "
        "(differential against the float64 C-contiguous call).")
ASSUMPTIONS = [
    "query points exactly on an edge or vertex (exact integer test) are not judged; every other lattice point is at least 1/(4*sqrt(2)*K) ~ 0.06 lattice units from every edge, far beyond the tolerance 1e-8 and the 1e-6 x size margin of the property, also after scaling by 1e-3 / 2^-10",
    "the even-odd answer of a zero-area or self-overlapping vertex list is the crossing parity of the closed polyline (well defined off the polyline)",
    "transforms are computed as k*s+t in float64 for vertices and points alike; lattice relations (level with a vertex) are preserved exactly because both use the same float operations",
    "cells_inside_polygon: cells whose centre is exactly on an edge may or may not be returned; the x, y columns must be the centres of the returned cells; no duplicates",
    "extension modules rebuilt from the working tree C sources; Cython wrapper C not re-translated",
    "ladder polygons have integer vertices and slopes 0, infinity, +-1; the query points stay on the quarter lattice, so every judged point is >= 0.17 lattice units from every edge (> 1e-6 x size for extents up to 5000) and all kernel arithmetic on them is exact; points on an edge are excluded by the same exact integer test",
    "ladder vertex counts are completed with collinear lattice vertices on the bottom edge (and a repeated last vertex when that edge has no lattice point left), both allowed by the quantifier",
    "layout variants convert only values that are exactly representable in the target dtype; a layout refused with a Python exception (lists, Fortran order and DataFrames are refused by the present wrapper) is accepted and counted in layout.rejected.*; a different answer is a violation pip:layout=<points|polygon>-<name>",
]

TRANSFORMS = [("id", 1.0, 0.0, 0.0), ("translate", 1.0, 1000.0, -77.0), ("scale", 2.0 ** 10, 0.0, 0.0),
              ("scale", 2.0 ** -10, 0.0, 0.0), ("scale", 1.0e-3, 0.0, 0.0),
              # small polygons: edge lengths 2.5e-5 and 3.8e-6, still 380 .. 2500 x the absolute tolerance 1e-8
              ("scale", 1.0e-4, 0.0, 0.0), ("scale", 2.0 ** -16, 0.0, 0.0),
              # far from the origin relative to the polygon size (projected coordinates): offset/size ~ 1e7, exact in float64
              ("translate-far", 1.0, 1.0e7, -2.0e7)]
SEED_TRANSFORMS = [("affine", 3.0, -3.25, 17.5), ("affine", 2.0 ** -4, 0.0, 1.0e4),
                   ("affine", 7.5, 123.0, -0.125), ("affine", 0.1, 0.0, 0.0),
                   ("affine", 1.0e3, -5.0e5, 2.5e5), ("affine", 0.7, 0.3, -0.9)]

# grids for cells_inside_polygon: (ncols, nrows, csz, xll, yll); centres are quarter-lattice points
GRIDS = {
    2: [(4, 4, 0.5, 0.0, 0.0), (5, 3, 0.5, -0.25, 0.25), (5, 3, 0.75, -0.625, -0.125)],
    3: [(6, 6, 0.5, 0.0, 0.0), (7, 5, 0.5, -0.25, 0.25), (5, 3, 0.75, -0.625, -0.125)],
}


def transforms(seed):
    return TRANSFORMS + [SEED_TRANSFORMS[seed % len(SEED_TRANSFORMS)]]


def spaces(tier):
    """list of (K, n, with_cells)"""
    if tier == "quick":
        return [(2, 3, True), (2, 4, True), (3, 3, True)]
    return [(2, 3, True), (2, 4, True), (2, 5, True), (2, 6, False),
            (3, 3, True), (3, 4, True), (3, 5, False)]


def bound_text(tier, seed):
    sp = spaces(tier)
    return ("all vertex sequences: " + ", ".join("length %d over {0..%d}^2 (%d)%s" % (
        n, K, ((K + 1) ** 2) ** n, "" if wc else " [no cells_inside_polygon]") for K, n, wc in sp) +
        "; open + closed form; quarter lattice on [-1/2, K+1/2]^2; transforms %s" % (transforms(seed),) +
        "; size ladders: staircase / comb / saw polygons with n vertices, n in %s, 3 vertex-list variants, sparse anchor "
        "quarter lattice; point counts %s on polygons %s; cells_inside_polygon on growing grids for %s; 14 layout "
        "variants of points and polygon on the ladder polygons and the first vertex list of every exhaustive unit" % (
            ladder(tier), ladder(tier), NPOINTS_POLYGONS, CELL_LADDER + (CELL_LADDER_THOROUGH if tier != "quick" else [])))


def units(tier, seed):
    us = []
    for K, n, wc in spaces(tier):
        nv = (K + 1) ** 2
        for v0 in range(nv):
            for v1 in range(v0, nv):       # canonical minimum starts with its smallest vertex
                us.append({"K": K, "n": n, "v0": v0, "v1": v1, "cells": wc, "seed": seed})
    # size ladders
    for family in FAMILIES:
        for n in ladder(tier):
            us.append({"kind": "ladder", "family": family, "n": n, "seed": seed})
    # dense ranges: every vertex count 7..130 (one family per count in rotation; 7..300 all families in thorough)
    dmax = 130 if tier == "quick" else 300
    for n in range(7, dmax + 1):
        if n in ladder(tier):
            continue
        for family in ([FAMILIES[(n + seed) % 3]] if tier == "quick" else FAMILIES):
            us.append({"kind": "ladder", "family": family, "n": n, "seed": seed, "dense": True})
    lad = ladder(tier)
    # every point count 1..130 (300 thorough) on one polygon per count in rotation
    dense_pts = [k for k in range(1, dmax + 1) if k not in lad]
    for k in range(0, len(dense_pts), 12):
        name, n = NPOINTS_POLYGONS[(k // 12 + seed) % len(NPOINTS_POLYGONS)]
        us.append({"kind": "npoints", "polygon": name, "n": n, "sizes": dense_pts[k:k + 12], "seed": seed})
    for name, n in NPOINTS_POLYGONS:
        for k in range(0, len(lad), 6):
            us.append({"kind": "npoints", "polygon": name, "n": n, "sizes": lad[k:k + 6], "seed": seed})
    items = CELL_LADDER + (CELL_LADDER_THOROUGH if tier != "quick" else [])
    for k in range(0, len(items), 2):
        us.append({"kind": "cells-ladder", "items": [list(i) for i in items[k:k + 2]], "seed": seed})
    return us


# ---------------------------------------------------------------------------
# exact oracle (integers, coordinates x4)

def lattice_points(K):
    q = np.arange(-2, 4 * K + 3, dtype=np.int64)
    PX, PY = np.meshgrid(q, q, indexing="ij")
    return PX.ravel(), PY.ravel()


def oracle(verts4, PX, PY):
    """verts4: list of (x, y) ints (x4). -> (inside bool array, onedge bool array)"""
    n = len(verts4)
    inside = np.zeros(len(PX), dtype=bool)
    onedge = np.zeros(len(PX), dtype=bool)
    for i in range(n):
        ax, ay = verts4[i]
        bx, by = verts4[(i + 1) % n]
        cross = (bx - ax) * (PY - ay) - (PX - ax) * (by - ay)
        onedge |= ((cross == 0) & (PX >= min(ax, bx)) & (PX <= max(ax, bx))
                   & (PY >= min(ay, by)) & (PY <= max(ay, by)))
        if ay == by:
            continue
        straddle = (ay > PY) != (by > PY)
        if by > ay:
            left = cross > 0
        else:
            left = cross < 0
        inside ^= (straddle & left)
    return inside, onedge


def orbit(s):
    n = len(s)
    r = s[::-1]
    out = set()
    for k in range(n):
        out.add(s[k:] + s[:k])
        out.add(r[k:] + r[:k])
    return out


def vert_xy(v, K):
    return (v // (K + 1), v % (K + 1))


def float_poly(vxy, closed, tr):
    _, s, tx, ty = tr
    pts = [[float(x) * s + tx, float(y) * s + ty] for x, y in vxy]
    if closed:
        pts.append(list(pts[0]))
    return np.array(pts, dtype=np.float64)


def float_points(PX, PY, tr):
    _, s, tx, ty = tr
    return np.ascontiguousarray(np.column_stack([(PX * 0.25) * s + tx, (PY * 0.25) * s + ty]))


def check_pip(ctx, gutils, vxy, closed, tr, PX, PY, P, exp, onedge, inbox, level, prealloc=False, base_fail=None,
              case_base=None, keysfx=""):
    """one call of points_inside_polygon over the whole lattice.
    base_fail: set of failure classes already seen for the base call (open form, identity transform) of this
    vertex list; a class that fails there keeps its short key, a class that fails ONLY in another form /
    under a transform gets the form / transform appended (a different defect)."""
    # polygon and points are handed over in array objects that are refilled for every call of the same shape
    poly = recycle("poly", float_poly(vxy, closed, tr))
    P = recycle("points", P)
    case = {"kind": "pip", "K": int((int(PX.max()) - 2) // 4), "verts": [list(v) for v in vxy], "closed": closed,
            "transform": list(tr), "prealloc": prealloc}
    if case_base is not None:       # size ladder: the case names the generator (family, n, variant), not the vertex list
        case = dict(case_base, closed=closed, transform=list(tr), prealloc=prealloc)
    judged = ~onedge
    nj = int(judged.sum())
    try:
        if prealloc:
            buf = np.ones(len(P), dtype=np.int32)
            res = gutils.points_inside_polygon(P, poly, inside=buf)
        else:
            res = gutils.points_inside_polygon(P, poly)
    except Exception as e:
        ctx.case(True, n=nj)
        ctx.violation("pip:raised:%s" % type(e).__name__ + keysfx, case, "points_inside_polygon raised %r" % (e,))
        return None
    res = np.asarray(res)
    ntriv = int((judged & inbox).sum())
    ctx.case(True, outcome=res.tobytes(), n=ntriv)
    if nj - ntriv:
        ctx.case(False, n=nj - ntriv)
    if res.shape != (len(P),):
        ctx.violation("pip:shape" + keysfx, case, "result shape %r for %d points" % (res.shape, len(P)))
        return None
    bad01 = judged & (res != 0) & (res != 1)
    if bad01.any():
        i = int(np.flatnonzero(bad01)[0])
        ctx.violation("pip:value-not-0-1" + keysfx, dict(case, point=[int(PX[i]), int(PY[i])]),
                      "answer %r for point %r" % (int(res[i]), P[i].tolist()))
    wrong = judged & ((res == 1) != exp) & ~bad01
    if wrong.any():
        form = ("closed" if closed else "open") + (":prealloc" if prealloc else "")
        for i in np.flatnonzero(wrong):
            i = int(i)
            rel = "inside-reported-outside" if exp[i] else "outside-reported-inside"
            cls = "level-with-vertex" if level[i] else "generic"
            box = "in-bbox" if inbox[i] else "outside-bbox"
            kcls = (rel, cls, box)
            key = "pip:%s:%s:%s" % kcls
            if base_fail is None:
                if not (form == "open" and tr[0] == "id"):
                    key += ":%s:%s" % (form, tr[0])        # replay of a single call
            elif form == "open" and tr[0] == "id":
                base_fail.add(kcls)
            elif kcls not in base_fail:
                key += ":only-%s-%s" % (form, tr[0])
            ctx.violation(key + keysfx, dict(case, point=[int(PX[i]), int(PY[i])]),
                          "polygon %s (%s, transform x%r + (%r, %r)): point %r (lattice (%g, %g)) is %s under the "
                          "even-odd rule, points_inside_polygon says %d" % (
                              [list(v) for v in vxy] if len(vxy) <= 12 else "%s ... (%d vertices)" % ([list(v) for v in vxy[:8]], len(vxy)),
                              "closed" if closed else "open", tr[1], tr[2], tr[3],
                              P[i].tolist(), PX[i] / 4.0, PY[i] / 4.0, "inside" if exp[i] else "outside", int(res[i])),
                          observed=int(res[i]), expected=int(exp[i]))
    else:
        ctx.count("pip.calls_agree")
    return res


def grid_centres4(gdef):
    """exact centres (x4, ints) of every cell, numbered row by row from the top-left"""
    ncols, nrows, csz, xll, yll = gdef
    cx, cy = [], []
    for c in range(nrows * ncols):
        row, col = divmod(c, ncols)
        x = (Fraction(xll) + Fraction(csz) * (Fraction(col) + Fraction(1, 2))) * 4
        y = (Fraction(yll) + Fraction(csz) * (Fraction(nrows - 1 - row) + Fraction(1, 2))) * 4
        if x.denominator != 1 or y.denominator != 1:
            raise RuntimeError("grid %r: centres are not quarter-lattice points" % (gdef,))
        cx.append(int(x))
        cy.append(int(y))
    return np.array(cx, dtype=np.int64), np.array(cy, dtype=np.int64)


_GRID_CACHE = {}


def get_grid(K, gi):
    key = (K, gi)
    if key not in _GRID_CACHE:
        from hydrodiy.gis.grid import Grid
        gdef = GRIDS[K][gi]
        ncols, nrows, csz, xll, yll = gdef
        g = Grid("g%d" % gi, ncols=ncols, nrows=nrows, cellsize=csz, xllcorner=xll, yllcorner=yll)
        _GRID_CACHE[key] = (g, grid_centres4(gdef))
    return _GRID_CACHE[key]


MOVING = {      # two geometries of the same shape: one Grid object is moved between them by attribute assignment
    2: [(5, 3, 0.5, -0.25, 0.25), (5, 3, 0.75, -0.625, -0.125)],
    3: [(7, 5, 0.5, -0.25, 0.25), (7, 5, 0.75, -0.625, -0.125)],
}
_MOVING = {}


def moving_grid(K, phase, fresh=False):
    """the single Grid object of this worker for K, re-georeferenced to MOVING[K][phase] through its public
    attributes (history: it was queried in the other geometry before, except on the very first call)"""
    from hydrodiy.gis.grid import Grid
    if fresh or K not in _MOVING:
        ncols, nrows, csz, xll, yll = MOVING[K][1 - phase]
        g = Grid("moving", ncols=ncols, nrows=nrows, cellsize=csz, xllcorner=xll, yllcorner=yll)
        _MOVING[K] = [g, {p: grid_centres4(MOVING[K][p]) for p in (0, 1)}, None]
    ent = _MOVING[K]
    g = ent[0]
    ncols, nrows, csz, xll, yll = MOVING[K][phase]
    g.cellsize = np.float64(csz)
    g.xllcorner = np.float64(xll)
    g.yllcorner = np.float64(yll)
    return g, ent[1][phase]


def check_cells(ctx, K, vxy, verts4, closed, gi, moving=None):
    poly = float_poly(vxy, closed, TRANSFORMS[0])
    if moving is None:
        g, (CX, CY) = get_grid(K, gi)
        case = {"kind": "cells", "K": K, "verts": [list(v) for v in vxy], "closed": closed, "grid": gi}
    else:
        # moving = (phase, replaying): in a replay the grid is created in the other geometry and queried once first
        phase, replaying = moving
        if replaying:
            g0, _ = moving_grid(K, 1 - phase, fresh=True)
            try:
                g0.cells_inside_polygon(poly)
            except Exception:
                pass
        g, (CX, CY) = moving_grid(K, phase)
        case = {"kind": "cells", "K": K, "verts": [list(v) for v in vxy], "closed": closed, "grid": "moving", "phase": phase}
        gi = "moving-phase%d" % phase
        ctx.count("cells.moved_grid_calls")
    inside, onedge = oracle(verts4, CX, CY)
    ncell = len(CX)
    try:
        df = g.cells_inside_polygon(poly)
        cells = [int(c) for c in df["cell"].values]
        xs = [float(v) for v in df["x"].values]
        ys = [float(v) for v in df["y"].values]
    except Exception as e:
        ctx.case(True, n=ncell)
        ctx.violation("cells_inside_polygon:raised:%s" % type(e).__name__, case, "raised %r" % (e,))
        return
    nj = int((~onedge).sum())
    ctx.case(bool(inside.any()), outcome=tuple(cells), n=nj)
    gname = "grid%s" % gi
    if len(set(cells)) != len(cells):
        ctx.violation("cells_inside_polygon:duplicate-cells", case, "cells %r" % (cells,), observed=cells)
    got = set(cells)
    must = set(int(c) for c in np.flatnonzero(inside & ~onedge))
    may = set(int(c) for c in np.flatnonzero(onedge))
    missing = sorted(must - got)
    extra = sorted(got - must - may)
    if missing:
        ctx.violation("cells_inside_polygon:missing-cell", case,
                      "%s %r, polygon %s: cells %r have their centre inside but are not returned (got %r)" % (
                          gname, GRIDS[K][gi] if moving is None else MOVING[K][moving[0]], [list(v) for v in vxy], missing, cells),
                      observed=cells, expected=sorted(must))
    if extra:
        ctx.violation("cells_inside_polygon:extra-cell", case,
                      "%s %r, polygon %s: cells %r returned but their centre is outside (or not a cell)" % (
                          gname, GRIDS[K][gi] if moving is None else MOVING[K][moving[0]], [list(v) for v in vxy], extra),
                      observed=cells, expected=sorted(must))
    for c, x, y in zip(cells, xs, ys):
        if 0 <= c < ncell and (x * 4 != CX[c] or y * 4 != CY[c]):
            ctx.violation("cells_inside_polygon:xy-not-centre", case,
                          "cell %d reported at (%r, %r), centre is (%r, %r)" % (c, x, y, CX[c] / 4.0, CY[c] / 4.0))
            break
    if not (missing or extra):
        ctx.count("cells.calls_agree")
    if may:
        ctx.count("cells.centres_on_edge_unjudged", len(may))


def check_sequence(ctx, gutils, K, seq, canon_exp, PX, PY, Pts, trs, with_cells, full=True):
    """every call for one vertex sequence (one orbit member)."""
    vxy = [vert_xy(v, K) for v in seq]
    verts4 = [(4 * x, 4 * y) for x, y in vxy]
    exp, onedge = oracle(verts4, PX, PY)
    if canon_exp is not None:
        # the oracle itself must be invariant under rotation / reversal (self-check of the harness)
        if not (np.array_equal(exp, canon_exp[0]) and np.array_equal(onedge, canon_exp[1])):
            raise RuntimeError("oracle not invariant under rotation/reversal for %r" % (seq,))
        ctx.count("orbit.members_vs_canonical")
    xs4 = [v[0] for v in verts4]
    ys4 = [v[1] for v in verts4]
    inbox = (PX >= min(xs4)) & (PX <= max(xs4)) & (PY >= min(ys4)) & (PY <= max(ys4))
    level = np.isin(PY, np.array(sorted(set(ys4)), dtype=np.int64))
    if exp[~onedge].any():
        ctx.count("polygons.with_interior_points")
    else:
        ctx.count("polygons.no_interior_point")
    base_fail = set()
    for closed in (False, True):
        for ti, tr in enumerate(trs):          # trs[0] is the identity: (open, identity) runs first
            check_pip(ctx, gutils, vxy, closed, tr, PX, PY, Pts[ti], exp, onedge, inbox, level, base_fail=base_fail)
    # caller-supplied answer vector pre-filled with ones: must be re-initialised by the wrapper
    check_pip(ctx, gutils, vxy, False, trs[0], PX, PY, Pts[0], exp, onedge, inbox, level, prealloc=True,
              base_fail=base_fail)
    if with_cells:
        for gi in range(len(GRIDS[K])):
            check_cells(ctx, K, vxy, verts4, False, gi)
            if canon_exp is None:
                check_cells(ctx, K, vxy, verts4, True, gi)
        # history: the same Grid object queried after its georeferencing was changed (alternating geometries)
        for phase in (0, 1):
            check_cells(ctx, K, vxy, verts4, False, None, moving=(phase, False))
    return exp, onedge


# ---------------------------------------------------------------------------
# size ladders: regular lattice polygons with many vertices, many query points, and array layouts

LADDER = [7, 8, 9, 15, 16, 17, 31, 32, 33, 63, 64, 65, 100, 127, 128, 129, 255, 256, 257, 500, 501, 511, 512, 513,
          1000, 1001, 1023, 1024, 1025]
LADDER_THOROUGH = [2047, 2048, 2049, 4095, 4096, 4097, 10001]
FAMILIES = ["staircase", "comb", "saw"]
KEYSFX = ":vertex-ladder"


def ladder(tier):
    return LADDER + (LADDER_THOROUGH if tier != "quick" else [])


def family_polygon(family, n):
    """integer lattice polygon of exactly n vertices (n >= 7).
    staircase: s = (n-2)//2 unit steps up-right, closed along x = s and y = 0
    comb     : t = n//4 teeth of height 3 and width 1 on a base of height 1
    saw      : zig-zag top edge between y = 2 and y = 3 (edges of slope +-1), closed along y = 0
    the count is completed with collinear lattice vertices on the closing (bottom) edge, then with a repeated
    last vertex when the bottom edge has no lattice point left"""
    if family == "staircase":
        k = (n - 2) // 2
        v = [(0, 0)]
        for i in range(k):
            v += [(i, i + 1), (i + 1, i + 1)]
        v.append((k, 0))
        width = k
    elif family == "comb":
        t = n // 4
        v = [(0, 0)]
        for i in range(t):
            v += [(2 * i, 3), (2 * i + 1, 3)]
            if i < t - 1:
                v += [(2 * i + 1, 1), (2 * i + 2, 1)]
        v.append((2 * t - 1, 0))
        width = 2 * t - 1
    elif family == "saw":
        m = n - 3
        v = [(0, 0)] + [(i, 2 + (i % 2)) for i in range(m + 1)] + [(m, 0)]
        width = m
    else:
        raise ValueError(family)
    pad = n - len(v)
    if pad < 0:
        raise RuntimeError("family %s cannot have %d vertices" % (family, n))
    extra = [(x, 0) for x in range(width - 1, 0, -1)][:pad]
    v += extra
    while len(v) < n:
        v.append(v[-1])
    return v


def variant_of(v, variant):
    """same polygon, other vertex list: rotated start, reversed orientation"""
    if variant == "base":
        return list(v)
    n = len(v)
    k = n // 3
    r = v[k:] + v[:k]
    if variant == "rotated":
        return r
    if variant == "reversed":
        return r[::-1]
    raise ValueError(variant)


def anchors_1d(w):
    a = set(k for k in (0, 1, w // 2, w - 1, w) if 0 <= k <= w)
    a.update(t for t in (7, 8, 16, 17, 32, 33, 64, 65, 128, 256, 257, 512, 1024, 2048, 4096) if t <= w)
    return sorted(a)


def quarter_positions(w):
    """quarter-lattice coordinates (x4) on [-1/2, w+1/2]: every quarter position when w <= 12, else the
    quarter positions within 3/4 of an anchor (ends, middle, next to powers of two)"""
    if w <= 12:
        return list(range(-2, 4 * w + 3))
    q = set([-2, 4 * w + 2])
    for a in anchors_1d(w):
        for d in range(-3, 4):
            if -2 <= 4 * a + d <= 4 * w + 2:
                q.add(4 * a + d)
    return sorted(q)


def ladder_points(verts):
    w = max(x for x, _ in verts)
    h = max(y for _, y in verts)
    qx = np.array(quarter_positions(w), dtype=np.int64)
    qy = np.array(quarter_positions(h), dtype=np.int64)
    PX, PY = np.meshgrid(qx, qy, indexing="ij")
    return PX.ravel(), PY.ravel()


def masks(verts4, PX, PY):
    xs4 = [v[0] for v in verts4]
    ys4 = [v[1] for v in verts4]
    inbox = (PX >= min(xs4)) & (PX <= max(xs4)) & (PY >= min(ys4)) & (PY <= max(ys4))
    level = np.isin(PY, np.array(sorted(set(ys4)), dtype=np.int64))
    return inbox, level


def check_ladder_polygon(ctx, gutils, family, n, trs, variants=("base", "rotated", "reversed"), only=None):
    """one ladder polygon: every variant x open/closed x transform over the sparse quarter lattice.
    only = (variant, closed, transform, prealloc) for a replay"""
    base = family_polygon(family, n)
    PX, PY = ladder_points(base)
    verts4 = [(4 * x, 4 * y) for x, y in base]
    exp, onedge = oracle(verts4, PX, PY)
    inbox, level = masks(verts4, PX, PY)
    ctx.count("ladder.polygons")
    ctx.count("ladder.judged_points_per_polygon_sum", int((~onedge).sum()))
    if not exp[~onedge].any() or exp[~onedge].all():
        raise RuntimeError("ladder polygon %s/%d: the sparse lattice does not see both inside and outside" % (family, n))
    Pts = {}
    for variant in variants:
        vxy = variant_of(base, variant)
        if variant != "base":
            e2, o2 = oracle([(4 * x, 4 * y) for x, y in vxy], PX, PY)
            if not (np.array_equal(e2, exp) and np.array_equal(o2, onedge)):
                raise RuntimeError("oracle not invariant under rotation/reversal for %s/%d" % (family, n))
        cb = {"kind": "pip-ladder", "family": family, "n": n, "variant": variant}
        base_fail = set()
        for closed in (False, True):
            for tr in trs:
                if only is not None and (variant, closed, tuple(tr), False) != only:
                    continue
                if tuple(tr) not in Pts:
                    Pts[tuple(tr)] = float_points(PX, PY, tr)
                check_pip(ctx, gutils, vxy, closed, tr, PX, PY, Pts[tuple(tr)], exp, onedge, inbox, level,
                          base_fail=None if only is not None else base_fail, case_base=cb, keysfx=KEYSFX)
        if only is None or only == (variant, False, tuple(trs[0]), True):
            if tuple(trs[0]) not in Pts:
                Pts[tuple(trs[0])] = float_points(PX, PY, trs[0])
            check_pip(ctx, gutils, vxy, False, trs[0], PX, PY, Pts[tuple(trs[0])], exp, onedge, inbox, level, prealloc=True,
                      base_fail=None if only is not None else base_fail, case_base=cb, keysfx=KEYSFX)
    return base, PX, PY, exp, onedge


# ---- number of query points
NPOINTS_POLYGONS = [("staircase", 52), ("comb", 64), ("saw", 40), ("lattice", 0)]
BOWTIE = [(0, 0), (3, 3), (3, 0), (0, 3), (1, 2), (2, 2)]     # self-intersecting K = 3 polygon with a collinear run


def npoints_polygon(name, n):
    return list(BOWTIE) if name == "lattice" else family_polygon(name, n)


def npoints_case_points(verts, npts):
    """npts distinct points of the full quarter lattice on [-1/2, w+1/2] x [-1/2, h+1/2], taken with a stride
    that is coprime with the lattice size (deterministic, spread over the whole box)"""
    w = max(x for x, _ in verts)
    h = max(y for _, y in verts)
    nx, ny = 4 * w + 5, 4 * h + 5
    tot = nx * ny
    if npts > tot:
        return None
    step = 7919
    while np.gcd(step, tot) != 1:
        step += 2
    idx = (np.arange(npts, dtype=np.int64) * step) % tot
    return idx // ny - 2, idx % ny - 2


def check_npoints(ctx, gutils, name, n, npts, prealloc):
    verts = npoints_polygon(name, n)
    pp = npoints_case_points(verts, npts)
    if pp is None:
        ctx.count("npoints.lattice_smaller_than_point_count_skipped")
        return
    PX, PY = pp
    verts4 = [(4 * x, 4 * y) for x, y in verts]
    exp, onedge = oracle(verts4, PX, PY)
    inbox, level = masks(verts4, PX, PY)
    tr = TRANSFORMS[0]
    cb = {"kind": "pip-npoints", "polygon": name, "n": n, "npoints": npts}
    ctx.count("npoints.calls")
    check_pip(ctx, gutils, verts, False, tr, PX, PY, float_points(PX, PY, tr), exp, onedge, inbox, level,
              prealloc=prealloc, case_base=cb, keysfx=":point-ladder")


# ---- layouts (differential)
def _ro(a):
    a = a.copy()
    a.setflags(write=False)
    return a


def _srows(a):
    big = np.full((2 * a.shape[0] + 1, a.shape[1]), 0.375, dtype=a.dtype)
    big[1::2] = a
    return big[1::2]


def _scols(a):
    big = np.full((a.shape[0], 2 * a.shape[1]), 0.375, dtype=a.dtype)
    big[:, ::2] = a
    return big[:, ::2]


def layout_variants():
    """(name, converter, needs) ; needs in {None, 'float32', 'int'}"""
    import pandas as pd
    return [("list", lambda a: a.tolist(), None),
            ("readonly", _ro, None),
            ("fortran", np.asfortranarray, None),
            ("strided-rows", _srows, None),
            ("strided-columns", _scols, None),
            ("negative-stride-copy", lambda a: a[::-1][::-1], None),
            ("bigendian", lambda a: a.astype(">f8"), None),
            ("float32", lambda a: a.astype(np.float32), "float32"),
            ("float32-strided-rows", lambda a: _srows(a.astype(np.float32)), "float32"),
            ("float16", lambda a: a.astype(np.float16), "float16"),
            ("int64", lambda a: a.astype(np.int64), "int"),
            ("int32", lambda a: a.astype(np.int32), "int"),
            ("int64-strided-rows", lambda a: _srows(a.astype(np.int64)), "int"),
            ("dataframe", lambda a: pd.DataFrame(a, columns=["x", "y"]), None)]


def exact_in(a, needs):
    if needs is None:
        return np.ones(len(a), dtype=bool)
    if needs == "int":
        return (np.round(a) == a).all(axis=1) & (np.abs(a) < 2 ** 31).all(axis=1)
    dt = np.float32 if needs == "float32" else np.float16
    return (a.astype(dt).astype(np.float64) == a).all(axis=1)


def check_layouts(ctx, gutils, vxy, PX, PY, tr, case):
    """the same polygon and points in other containers / dtypes / strides must give the float64 C-contiguous answer"""
    poly = float_poly(vxy, False, tr)
    P = float_points(PX, PY, tr)
    try:
        ref = np.asarray(gutils.points_inside_polygon(P, poly)).copy()
    except Exception:
        ctx.count("layout.unjudged.reference_raised")
        return
    for name, conv, needs in layout_variants():
        # points in another layout (only the points that are exactly representable)
        m = exact_in(P, needs)
        if m.any():
            try:
                out = np.asarray(gutils.points_inside_polygon(conv(P[m]), poly))
                ctx.case(True, outcome=out.tobytes(), n=int(m.sum()))
                if out.shape == ref[m].shape and np.array_equal(out, ref[m]):
                    ctx.count("layout.agree.points.%s" % name)
                else:
                    i = int(np.flatnonzero(out != ref[m])[0]) if out.shape == ref[m].shape else None
                    ctx.violation("pip:layout=points-%s" % name, dict(case, layout="points-" + name),
                                  "the same %d points given as %s: answers differ from the float64 C-contiguous call%s" % (
                                      int(m.sum()), name, "" if i is None else " (first at point %r: %d vs %d)" % (
                                          P[m][i].tolist(), int(out[i]), int(ref[m][i]))))
            except Exception:
                ctx.case(True, n=int(m.sum()))
                ctx.count("layout.rejected.points.%s" % name)
        else:
            ctx.count("layout.unjudged.points.%s.no_exact_point" % name)
        # polygon in another layout (all vertices must be exactly representable)
        if exact_in(poly, needs).all():
            try:
                out = np.asarray(gutils.points_inside_polygon(P, conv(poly)))
                ctx.case(True, outcome=out.tobytes(), n=len(P))
                if out.shape == ref.shape and np.array_equal(out, ref):
                    ctx.count("layout.agree.polygon.%s" % name)
                else:
                    i = int(np.flatnonzero(out != ref)[0]) if out.shape == ref.shape else None
                    ctx.violation("pip:layout=polygon-%s" % name, dict(case, layout="polygon-" + name),
                                  "the same %d vertices given as %s: answers differ from the float64 C-contiguous call%s" % (
                                      len(poly), name, "" if i is None else " (first at point %r: %d vs %d)" % (
                                          P[i].tolist(), int(out[i]), int(ref[i]))))
            except Exception:
                ctx.case(True, n=len(P))
                ctx.count("layout.rejected.polygon.%s" % name)
        else:
            ctx.count("layout.unjudged.polygon.%s.not_exact" % name)


# ---- cells_inside_polygon on grids that grow with the polygon
def ladder_grid(family, n):
    """(ncols, nrows, csz, xll, yll): half-unit cells covering the polygon's box plus half a unit on every side;
    the centres are odd quarter-lattice points, never on an edge of an axis-parallel polygon"""
    v = family_polygon(family, n)
    w = max(x for x, _ in v)
    h = max(y for _, y in v)
    return (2 * (w + 1), 2 * (h + 1), 0.5, -0.5, -0.5)


def check_cells_ladder(ctx, family, n, layout=None):
    from hydrodiy.gis.grid import Grid
    vxy = family_polygon(family, n)
    verts4 = [(4 * x, 4 * y) for x, y in vxy]
    gdef = ladder_grid(family, n)
    ncols, nrows, csz, xll, yll = gdef
    CX, CY = grid_centres4(gdef)
    inside, onedge = oracle(verts4, CX, CY)
    case = {"kind": "cells-ladder", "family": family, "n": n, "layout": layout}
    poly = float_poly(vxy, False, TRANSFORMS[0])
    if layout is not None:
        poly = dict((nm, cv) for nm, cv, _ in layout_variants())[layout](poly)
    g = Grid("ladder", ncols=ncols, nrows=nrows, cellsize=csz, xllcorner=xll, yllcorner=yll)
    ncell = len(CX)
    try:
        df = g.cells_inside_polygon(poly)
        cells = [int(c) for c in df["cell"].values]
        xs = np.asarray(df["x"].values, dtype=np.float64)
        ys = np.asarray(df["y"].values, dtype=np.float64)
    except Exception as e:
        ctx.case(True, n=ncell)
        if layout is not None:
            ctx.count("layout.rejected.cells_inside_polygon.%s" % layout)
            return
        ctx.violation("cells_inside_polygon:raised:%s:grid-ladder" % type(e).__name__, case, "raised %r" % (e,))
        return
    ctx.case(True, outcome=tuple(cells), n=int((~onedge).sum()))
    ctx.count("cells.ladder_calls")
    sfx = ":grid-ladder" if layout is None else ":layout=polygon-%s" % layout
    if len(set(cells)) != len(cells):
        ctx.violation("cells_inside_polygon:duplicate-cells" + sfx, case, "%d cells, %d distinct" % (len(cells), len(set(cells))))
    got = set(cells)
    must = set(int(c) for c in np.flatnonzero(inside & ~onedge))
    may = set(int(c) for c in np.flatnonzero(onedge))
    missing = sorted(must - got)
    extra = sorted(got - must - may)
    if missing:
        ctx.violation("cells_inside_polygon:missing-cell" + sfx, case,
                      "%s polygon with %d vertices on a %dx%d grid (cellsize %r, corner (%r, %r)): %d cells have their centre "
                      "inside but are not returned, first %r" % (family, n, nrows, ncols, csz, xll, yll, len(missing), missing[:6]),
                      observed=len(cells), expected=len(must))
    if extra:
        ctx.violation("cells_inside_polygon:extra-cell" + sfx, case,
                      "%s polygon with %d vertices on a %dx%d grid (cellsize %r, corner (%r, %r)): %d cells returned but their "
                      "centre is outside (or not a cell), first %r" % (family, n, nrows, ncols, csz, xll, yll, len(extra), extra[:6]),
                      observed=len(cells), expected=len(must))
    ok = [c for c in cells if 0 <= c < ncell]
    if len(ok) == len(cells) and len(cells):
        ca = np.array(cells)
        if not (np.array_equal(xs * 4, CX[ca]) and np.array_equal(ys * 4, CY[ca])):
            ctx.violation("cells_inside_polygon:xy-not-centre" + sfx, case, "the x / y columns are not the centres of the returned cells")
    if not (missing or extra):
        ctx.count("cells.calls_agree")


CELL_LADDER = [("staircase", 16), ("staircase", 17), ("staircase", 33), ("staircase", 64), ("staircase", 65),
               ("comb", 16), ("comb", 33), ("comb", 64), ("comb", 129), ("comb", 257)]
CELL_LADDER_THOROUGH = [("staircase", 128), ("staircase", 129), ("staircase", 257), ("comb", 512), ("comb", 1025)]


def run_ladder_unit(unit, ctx):
    from hydrodiy.gis import gutils
    kind = unit["kind"]
    trs = transforms(unit["seed"])
    if kind == "ladder":
        family, n = unit["family"], unit["n"]
        ctx.case(False, n=0, sample={"kind": "pip-ladder", "family": family, "n": n, "variant": "base", "closed": False,
                                     "transform": list(trs[0]), "prealloc": False})
        base, PX, PY, exp, onedge = check_ladder_polygon(ctx, gutils, family, n, trs)
        check_layouts(ctx, gutils, base, PX, PY, trs[0], {"kind": "pip-layout", "family": family, "n": n, "transform": list(trs[0])})
        # far from the origin: float32 cannot hold these points, int64 can
        far = [t for t in trs if t[0] == "translate-far"][0]
        check_layouts(ctx, gutils, base, PX, PY, far, {"kind": "pip-layout", "family": family, "n": n, "transform": list(far)})
    elif kind == "npoints":
        name, n = unit["polygon"], unit["n"]
        ctx.case(False, n=0, sample={"kind": "pip-npoints", "polygon": name, "n": n, "npoints": unit["sizes"][0],
                                     "closed": False, "transform": list(TRANSFORMS[0]), "prealloc": False})
        for npts in unit["sizes"]:
            for prealloc in (False, True):
                check_npoints(ctx, gutils, name, n, npts, prealloc)
    elif kind == "cells-ladder":
        for family, n in unit["items"]:
            check_cells_ladder(ctx, family, n)
            for lay in ("int64", "float32", "fortran", "list", "strided-rows", "readonly"):
                check_cells_ladder(ctx, family, n, layout=lay)


def run_unit(unit, ctx):
    from hydrodiy.gis import gutils
    if "kind" in unit:
        return run_ladder_unit(unit, ctx)
    K, n, v0, v1 = unit["K"], unit["n"], unit["v0"], unit["v1"]
    nv = (K + 1) ** 2
    trs = transforms(unit["seed"])
    PX, PY = lattice_points(K)
    Pts = [float_points(PX, PY, tr) for tr in trs]
    first = True
    for rest in itertools.product(range(v0, nv), repeat=n - 2):
        s = (v0, v1) + rest
        orb = orbit(s)
        if s != min(orb):
            continue
        ctx.count("orbits")
        if first:
            ctx.case(False, n=0, sample={"kind": "pip", "K": K, "verts": [list(vert_xy(v, K)) for v in s], "closed": False,
                                         "transform": list(trs[0]), "prealloc": False})
            first = False
        canon = check_sequence(ctx, gutils, K, s, None, PX, PY, Pts, trs, unit["cells"])
        ctx.count("sequences")
        if ctx.counters.get("orbits") == 1:
            # first vertex list of the unit: the same call in other array layouts
            check_layouts(ctx, gutils, [vert_xy(v, K) for v in s], PX, PY, trs[0],
                          {"kind": "pip-layout", "K": K, "verts": [list(vert_xy(v, K)) for v in s], "transform": list(trs[0])})
        for m in sorted(orb):
            if m == s:
                continue
            check_sequence(ctx, gutils, K, m, canon, PX, PY, Pts, trs, unit["cells"])
            ctx.count("sequences")


def replay(case):
    from mc.explore import Result
    from hydrodiy.gis import gutils

    class All(Result):
        def violation(self, key, case, msg, observed=None, expected=None):
            self.nviol += 1
            self.violations.setdefault(key, []).append(
                {"key": key, "case": case, "msg": msg, "observed": observed, "expected": expected})
    ctx = All()
    if case["kind"] == "pip-ladder":
        trs = [tuple(case["transform"])]
        check_ladder_polygon(ctx, gutils, case["family"], case["n"], trs, variants=(case["variant"],),
                             only=(case["variant"], case["closed"], tuple(case["transform"]), case.get("prealloc", False)))
        out = [v for lst in ctx.violations.values() for v in lst]
        if "point" in case:
            out = [v for v in out if v["case"].get("point") == case["point"]]
        return out
    if case["kind"] == "pip-npoints":
        check_npoints(ctx, gutils, case["polygon"], case["n"], case["npoints"], case.get("prealloc", False))
        out = [v for lst in ctx.violations.values() for v in lst]
        if "point" in case:
            out = [v for v in out if v["case"].get("point") == case["point"]]
        return out
    if case["kind"] == "cells-ladder":
        check_cells_ladder(ctx, case["family"], case["n"], layout=case.get("layout"))
        return [v for lst in ctx.violations.values() for v in lst]
    if case["kind"] == "pip-layout":
        if "family" in case:
            vl = family_polygon(case["family"], case["n"])
            LX, LY = ladder_points(vl)
        else:
            vl = [tuple(v) for v in case["verts"]]
            LX, LY = lattice_points(case["K"])
        check_layouts(ctx, gutils, vl, LX, LY, tuple(case["transform"]), {k: v for k, v in case.items() if k != "layout"})
        out = [v for lst in ctx.violations.values() for v in lst]
        if "layout" in case:
            out = [v for v in out if v["case"].get("layout") == case["layout"]]
        return out
    vxy = [tuple(v) for v in case["verts"]]
    K = case.get("K") or max(2, max(max(v) for v in vxy))
    verts4 = [(4 * x, 4 * y) for x, y in vxy]
    if case["kind"] == "cells" and case["grid"] == "moving":
        check_cells(ctx, K, vxy, verts4, case["closed"], None, moving=(case["phase"], True))
        return [v for lst in ctx.violations.values() for v in lst]
    if case["kind"] == "cells":
        check_cells(ctx, K, vxy, verts4, case["closed"], case["grid"])
        return [v for lst in ctx.violations.values() for v in lst]
    PX, PY = lattice_points(K)
    exp, onedge = oracle(verts4, PX, PY)
    xs4 = [v[0] for v in verts4]
    ys4 = [v[1] for v in verts4]
    inbox = (PX >= min(xs4)) & (PX <= max(xs4)) & (PY >= min(ys4)) & (PY <= max(ys4))
    level = np.isin(PY, np.array(sorted(set(ys4)), dtype=np.int64))
    tr = tuple(case["transform"])
    P = float_points(PX, PY, tr)
    check_pip(ctx, gutils, vxy, case["closed"], tr, PX, PY, P, exp, onedge, inbox, level,
              prealloc=case.get("prealloc", False))
    out = [v for lst in ctx.violations.values() for v in lst]
    if "point" in case:
        sel = [v for v in out if v["case"].get("point") == case["point"]]
        return sel
    return out
