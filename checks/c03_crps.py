"""C03 - CRPS equals its definition, decomposition identities, invariances.

Space (every case is one (obs vector, ensemble matrix) pair; everything is
crossed fully inside the stated bound):
  full   : n forecasts x m members with n*(m+1) <= K; every member matrix over
           the letter set, every observation vector over the letter set
           (+ NaN where stated).
  dev    : m = 5..8, n = 1..6: every case with <= 2 deviations (tie, low/high
           outlier, NaN observation, unsorted member) from a sorted, distinct,
           overlapping base case.
Oracle: the definition mean_i[E|X-y_i| - 1/2 E|X-X'|] in Fractions (no bins, no
sorting logic shared with the kernel), uncertainty = the same formula with the
observed climatology as the ensemble, the identities the property states, and
differential relations (member order, forecast order, +2.5 shift, x4 scaling,
NaN observation == forecast deleted) between calls of the real function.
"""
import itertools, math
from fractions import Fraction
from functools import lru_cache
import numpy as np
from mc.explore import recycle

ID = "C03"
# computational entry points whose results are watched by the engine's retained-result oracle (mc/explore.py)
RETAIN = [('hydrodiy.stat.metrics', 'crps')]
RULE = ("every (observation vector, n x m ensemble matrix) over a small integer letter set "
        "(+NaN observations) with n*(m+1) <= K, plus every <=2-deviation variant (tie, "
        "low/high outlier, NaN observation, unsorted member) of a sorted distinct base "
        "case for m = 5..8, n <= 6, run through hydrodiy.stat.metrics.crps and compared "
        "with the Fraction evaluation of mean_i[E|X-y| - 0.5 E|X-X'|], the climatological "
        "uncertainty, the identities crps = reli + pot, reso = unc - pot, non-negativity, "
        "and differentially with the members sorted, the forecasts sorted, all values "
        "+2.5, all values x4 and the NaN-observation forecasts deleted. A case is one "
        "(obs, ens) pair with all its relations; non-trivial = at least one member-member "
        "tie, member-observation tie, observation outside its ensemble, or NaN observation. "
        "Cases are generated once each by nested enumeration (distinct by construction).")
ASSUMPTIONS = [
    "letter sets are small integers / halves: every |x-y| and every sum of them is exact in float64 up to the 1/n weight; tolerance 1e-12 (relative above 1) is > 1000x the observed noise (<= 5e-16)",
    "the reliability table's internal split (a, b, g, o per bin; NaN reliability entries of empty bins) is not judged: the property only states identities of the five decomposition terms",
    "when every observation is NaN the property is silent: any behaviour (ValueError today) is accepted and counted",
    "ensemble members are finite (the property says finite values); NaN members are not enumerated",
    "extension modules rebuilt from the working tree C sources; Cython wrapper C not re-translated",
]
LEVEL_NOTE = ("trusted base: CPython, numpy array construction, fractions.Fraction; the runner/explorer in mc/. "
              "The reference shares no code with c_crps.c (pairwise definition, not Hersbach bins).")
TECHNIQUE = ("stateless bounded-exhaustive exploration of the real metrics.crps (Python wrapper + C kernel built "
             "from the tree) against an exact Fraction reference and differential/invariance relations")

NAN = float("nan")
COMPS = ("crps", "reliability", "resolution", "uncertainty", "potential")
TOL = 1e-12
EXTRA = [0.5, -1.0, 7.0, 1.5]          # seed-rotated 4th letter


def bound_text(tier, seed):
    x = EXTRA[seed % len(EXTRA)]
    if tier == "quick":
        return ("all (obs, ens) with n*(m+1) <= 9 over {0,1,2} (obs also NaN); n*(m+1) <= 6 over "
                "{0,1,2,%g} (obs also NaN)" % x)
    return ("all (obs, ens) with n*(m+1) <= 9 over {0,1,2} (obs also NaN); 10 <= n*(m+1) <= 12 over {0,1,2}; "
            "n*(m+1) <= 8 over {0,1,2,3} (obs also NaN); n*(m+1) <= 7 over {0,1,2,%g} (obs also NaN); "
            "m = 5..8 x n = 1..6 with <= 2 deviations (tie / outlier / NaN obs / unsorted) from a sorted distinct base" % x)


# ---------------------------------------------------------------- reference
@lru_cache(maxsize=400000)
def ref_term(y, ens):
    """E|X-y| - 1/2 E|X-X'| for the empirical distribution of the tuple ens (exact)."""
    m = len(ens)
    fy = Fraction(y)
    fe = [Fraction(v) for v in ens]
    a = sum(abs(x - fy) for x in fe)
    b = 0
    for i in range(m):
        for j in range(i + 1, m):
            b += abs(fe[i] - fe[j])
    # sum over all ordered pairs = 2 b ; half of the mean = b / m^2
    return Fraction(a, m) - Fraction(b, m * m)


def reference(obs, ens):
    """obs, ens already restricted to valid forecasts -> (crps, uncertainty) Fractions"""
    n = len(obs)
    clim = tuple(sorted(obs))
    c = sum(ref_term(y, tuple(sorted(row))) for y, row in zip(obs, ens)) / n
    u = sum(ref_term(y, clim) for y in obs) / n
    return c, u


# ---------------------------------------------------------------- implementation
_CACHE = {}


def call_impl(obs, ens):
    from hydrodiy.stat import metrics
    obs = [NAN if v is None else v for v in obs]        # None stands for NaN in cache keys / JSON
    # the same two array objects are refilled for every call of the same shape (see mc.explore.recycle)
    d, table = metrics.crps(recycle("obs", np.array(obs, dtype=np.float64)),
                            recycle("ens", np.array(ens, dtype=np.float64).reshape(len(ens), -1)))
    idx = list(d.index)
    return tuple(float(d[k]) for k in COMPS), idx, table.shape


def call_cached(obs, ens):
    key = (tuple(obs_key(obs)), tuple(map(tuple, ens)))
    r = _CACHE.get(key)
    if r is None:
        r = call_impl(obs, ens)[0]
        if len(_CACHE) > 300000:
            _CACHE.clear()
        _CACHE[key] = r
    return r


_TOLX = [1.0]      # tolerance multiplier (ladder sizes: the kernel accumulates n^2 terms, observed noise 4e-12 at n = 1000)


def close(a, b, scale=1.0):
    if math.isnan(a) or math.isnan(b):
        return False
    return abs(a - b) <= TOL * _TOLX[0] * max(1.0, abs(b), scale)


def jcase(obs, ens):
    return {"kind": "crps", "obs": [None if math.isnan(v) else v for v in obs],
            "ens": [list(r) for r in ens]}


def classify(obs, ens):
    """-> (nontrivial, class string for the value key)"""
    m = len(ens[0])
    tie_mm = tie_mo = lo = hi = nan = False
    for y, row in zip(obs, ens):
        if len(set(row)) < m:
            tie_mm = True
        if math.isnan(y):
            nan = True
            continue
        if y in row:
            tie_mo = True
        if y < min(row):
            lo = True
        if y > max(row):
            hi = True
    nt = tie_mm or tie_mo or lo or hi or nan
    if m == 1:
        cls = "m=1"
    elif tie_mo:
        cls = "tie-obs-member"
    elif tie_mm:
        cls = "tie-members"
    elif lo:
        cls = "outlier-low"
    elif hi:
        cls = "outlier-high"
    else:
        cls = "inside"
    return nt, cls


def check_case(ctx, obs, ens):
    """obs: list of floats (NaN allowed); ens: list of rows (lists of floats)"""
    n, m = len(obs), len(ens[0])
    case = jcase(obs, ens)
    nt, cls = classify(obs, ens)
    valid = [i for i in range(n) if not math.isnan(obs[i])]
    if not valid:
        ctx.count("unjudged.all_observations_missing")
        try:
            r = call_impl(obs, ens)[0]
            ctx.case(False, outcome=repr(r))
        except Exception as e:
            ctx.case(False, outcome="raise:" + type(e).__name__)
        return
    try:
        r, idx, tshape = call_impl(obs, ens)
    except Exception as e:
        ctx.case(nt, outcome="raise:" + type(e).__name__)
        ctx.violation("crps:raised:%s" % type(e).__name__, case,
                      "crps raised %r on finite members and %d valid observations" % (e, len(valid)))
        return
    ctx.case(nt, outcome=repr(r))
    if cls != "inside":
        ctx.count("class." + cls)
    if len(valid) < n:
        ctx.count("class.nan-observation")
    crps, reli, reso, unc, pot = r
    if any(math.isnan(v) or math.isinf(v) for v in r):
        ctx.violation("crps:nonfinite-output", case, "decomposition contains NaN/inf: %r" % (dict(zip(COMPS, r)),),
                      observed=list(r))
        return
    if tshape != (m + 1, 7):
        ctx.violation("crps:table-shape", case, "reliability table shape %r, expected (%d, 7)" % (tshape, m + 1))

    vobs = [obs[i] for i in valid]
    vens = [ens[i] for i in valid]
    ecrps, eunc = reference(vobs, vens)
    if not close(crps, float(ecrps)):
        ctx.violation("crps:value:%s" % cls, case,
                      "crps %r != mean_i[E|X-y| - 0.5 E|X-X'|] = %s = %r" % (crps, ecrps, float(ecrps)),
                      observed=crps, expected=float(ecrps))
    if not close(unc, float(eunc)):
        ctx.violation("crps:uncertainty:value", case,
                      "uncertainty %r != CRPS of the observed climatology %s = %r" % (unc, eunc, float(eunc)),
                      observed=unc, expected=float(eunc))
    if not close(crps, reli + pot):
        ctx.violation("crps:identity:crps=reli+pot:%s" % cls, case,
                      "crps %r != reliability %r + potential %r = %r" % (crps, reli, pot, reli + pot),
                      observed=crps, expected=reli + pot)
    if not close(reso, unc - pot):
        ctx.violation("crps:identity:reso=unc-pot", case,
                      "resolution %r != uncertainty %r - potential %r" % (reso, unc, pot),
                      observed=reso, expected=unc - pot)
    for name, v in (("reliability", reli), ("potential", pot), ("uncertainty", unc)):
        if v < -TOL:
            ctx.violation("crps:negative:%s" % name, case, "%s = %r < 0" % (name, v), observed=v)

    # NaN observations ignored == those forecasts deleted
    if len(valid) < n:
        try:
            rd = call_cached(vobs, vens)
            for k, a, b in zip(COMPS, r, rd):
                if not close(a, b):
                    ctx.violation("crps:nan-obs-not-ignored:%s" % k, case,
                                  "%s = %r with NaN observations, %r with those forecasts deleted" % (k, a, b),
                                  observed=a, expected=b)
        except Exception as e:
            ctx.violation("crps:raised:deleted:%s" % type(e).__name__, case, "crps on the deleted case raised %r" % (e,))

    # member order: against the row-sorted form
    sens = [sorted(row) for row in ens]
    if sens != [list(row) for row in ens]:
        ctx.count("relation.member-order")
        rs = call_cached(obs_key(obs), sens)
        for k, a, b in zip(COMPS, r, rs):
            if not close(a, b):
                ctx.violation("crps:member-order:%s" % k, case,
                              "%s = %r, but %r with each ensemble's members sorted" % (k, a, b),
                              observed=a, expected=b)
    else:
        # forecast order: against the forecasts sorted by (obs, members)
        order = sorted(range(n), key=lambda i: ((1, 0.0) if math.isnan(obs[i]) else (0, obs[i]), tuple(ens[i])))
        if order != list(range(n)):
            ctx.count("relation.forecast-order")
            rs = call_cached(obs_key([obs[i] for i in order]), [ens[i] for i in order])
            for k, a, b in zip(COMPS, r, rs):
                if not close(a, b):
                    ctx.violation("crps:forecast-order:%s" % k, case,
                                  "%s = %r, but %r with the forecasts reordered %r" % (k, a, b, order),
                                  observed=a, expected=b)

    # shift by 2.5 (exact on the letter sets), scale by 4 (exact in binary)
    try:
        rsft = call_impl([v + 2.5 for v in obs], [[v + 2.5 for v in row] for row in ens])[0]
        rscl = call_impl([v * 4.0 for v in obs], [[v * 4.0 for v in row] for row in ens])[0]
    except Exception as e:
        ctx.violation("crps:raised:shift-scale:%s" % type(e).__name__, case, "shifted/scaled call raised %r" % (e,))
        return
    # scaling by very small / very large powers of two (exact): "scales linearly with a positive factor"
    # must not depend on the unit of the data (absolute thresholds in the kernel would show here)
    for sname, f in (("2^-40", 2.0 ** -40), ("2^40", 2.0 ** 40)):
        try:
            rbig = call_impl([v * f for v in obs], [[v * f for v in row] for row in ens])[0]
        except Exception as e:
            ctx.violation("crps:raised:scale:%s" % sname, case, "call scaled by %s raised %r" % (sname, e))
            continue
        ctx.count("relation.scale-extreme")
        for k, a, c in zip(COMPS, r, rbig):
            if not (abs(c - f * a) <= TOL * _TOLX[0] * f * max(1.0, abs(a))):
                ctx.violation("crps:scale:%s:%s" % (sname, k), case,
                              "%s = %r, but %r (expected %r) after multiplying observations and members by %s" % (k, a, c, f * a, sname),
                              observed=c, expected=f * a)
    # shift that makes one value EXACTLY equal to a number often used as a missing-value code (translation
    # invariance: a finite observation or member is data whatever its value)
    fin = [v for v in obs if not math.isnan(v)]
    if fin:
        for sname, target in (("obs=-9999", -9999.0), ("obs=-999", -999.0), ("member=-9999", -9999.0), ("obs=-99.9", -99.9)):
            src = fin[0] if sname.startswith("obs") else ens[0][0]
            sh = target - src
            if (src + sh) != target or any((v + sh) - sh != v for v in fin + [w for row in ens for w in row]):
                continue        # the shift would not be exact
            try:
                rs2 = call_impl([v + sh for v in obs], [[v + sh for v in row] for row in ens])[0]
            except Exception as e:
                ctx.violation("crps:raised:shift:%s" % sname, case, "call shifted so that %s raised %r" % (sname, e))
                continue
            ctx.count("relation.shift-to-sentinel")
            for k, a, b in zip(COMPS, r, rs2):
                if not close(b, a):
                    ctx.violation("crps:shift:%s:%s" % (sname, k), case,
                                  "%s = %r, but %r after adding %r to observations and members (%s)" % (k, a, b, sh, sname),
                                  observed=b, expected=a)
    for k, a, b, c in zip(COMPS, r, rsft, rscl):
        if not close(b, a):
            ctx.violation("crps:shift:%s" % k, case, "%s = %r, but %r after adding 2.5 to observations and members" % (k, a, b),
                          observed=b, expected=a)
        if not close(c, 4.0 * a):
            ctx.violation("crps:scale:%s" % k, case, "%s = %r, but %r (expected %r) after multiplying everything by 4" % (k, a, c, 4 * a),
                          observed=c, expected=4.0 * a)


def obs_key(obs):
    """NaN is not equal to itself: use None inside cache keys"""
    return [None if (v is None or math.isnan(v)) else v for v in obs]


# ---------------------------------------------------------------- units
def shapes(kmin, kmax):
    out = []
    for n in range(1, kmax + 1):
        for m in range(1, kmax + 1):
            if kmin <= n * (m + 1) <= kmax:
                out.append((n, m))
    return out


def full_units(n, m, letters, nanobs, target, tag):
    nobs = (len(letters) + (1 if nanobs else 0)) ** n
    L = len(letters)
    p = 0
    while nobs * L ** (n * m - p) > target and p < n * m:
        p += 1
    us = []
    for pre in itertools.product(range(L), repeat=p):
        us.append({"kind": "full", "n": n, "m": m, "letters": letters, "nanobs": nanobs,
                   "prefix": list(pre), "tag": tag})
    return us


def units(tier, seed):
    x = EXTRA[seed % len(EXTRA)]
    us = []
    # size boundary cases first (they are the longest single calls: O(n^2) kernel loop)
    for n in ([46341, 5000, 300] if tier == "quick" else [65536, 46341, 46340, 5000, 300]):
        for m in ((1,) if (tier == "quick" and n > 40000) else (1, 2)):
            us.append({"kind": "bign", "n": n, "m": m})
    # size ladder around powers of two with structured (tie-rich) data and the full Fraction reference
    ladder = [15, 16, 17, 31, 32, 33, 63, 64, 65, 127, 128, 129, 255, 256, 257, 511, 512, 513, 1000, 1001, 1023, 1024, 1025] + ([] if tier == "quick" else [2047, 2048, 2049, 4095, 4096, 4097])
    for n in ladder:
        us.append({"kind": "ladder", "n": n, "seed": seed})
    # dense ranges (every size, not only around powers of two: a defect may sit at one particular size)
    mmax, nmax = (160, 130) if tier == "quick" else (600, 400)
    for lo in range(1, mmax + 1, 20):
        us.append({"kind": "dense", "what": "m", "lo": lo, "hi": min(mmax, lo + 19), "seed": seed})
    for lo in range(1, nmax + 1, 26):
        us.append({"kind": "dense", "what": "n", "lo": lo, "hi": min(nmax, lo + 25), "seed": seed})
    target = 4000 if tier == "quick" else 24000
    for n, m in shapes(2, 9):
        us += full_units(n, m, [0.0, 1.0, 2.0], True, target, "base")
    kx = 6 if tier == "quick" else 7
    for n, m in shapes(2, kx):
        us += full_units(n, m, [0.0, 1.0, 2.0, x], True, target, "seed-letter")
    if tier != "quick":
        for n, m in shapes(10, 12):
            us += full_units(n, m, [0.0, 1.0, 2.0], False, target, "large")
        for n, m in shapes(2, 8):
            us += full_units(n, m, [0.0, 1.0, 2.0, 3.0], True, target, "four-letters")
        for m in (5, 6, 7, 8):
            for n in range(1, 7):
                parts = 1 if n * m < 12 else (2 if n * m < 24 else 4)
                for part in range(parts):
                    us.append({"kind": "dev", "n": n, "m": m, "seed": seed, "part": part, "parts": parts})
    return us


def run_full(unit, ctx):
    n, m, letters = unit["n"], unit["m"], unit["letters"]
    pre = [letters[i] for i in unit["prefix"]]
    oletters = list(letters) + ([NAN] if unit["nanobs"] else [])
    first = True
    for rest in itertools.product(letters, repeat=n * m - len(pre)):
        flat = pre + list(rest)
        ens = [flat[i * m:(i + 1) * m] for i in range(n)]
        for obs in itertools.product(oletters, repeat=n):
            obs = list(obs)
            if first:
                ctx.case(False, sample=jcase(obs, ens), n=0)
                first = False
            check_case(ctx, obs, ens)


def dev_base(n, m, seed):
    ens = [[float(2 * j + i) for j in range(m)] for i in range(n)]
    k = (m // 2 + seed) % (m - 1)           # observation strictly between members k and k+1
    obs = [float(2 * k + 1 + i) for i in range(n)]
    return obs, ens


def dev_list(n, m, obs, ens):
    hi = float(2 * m + n + 10)
    devs = []
    for i in range(n):
        row = ens[i]
        for v in (NAN, -3.0, hi, row[0], row[-1], row[m // 2]):
            devs.append(("o", i, 0, v))
        for j in range(m):
            for v in (-3.0, hi, row[(j + 1) % m], obs[i]):
                devs.append(("e", i, j, v))
    return devs


def run_dev(unit, ctx):
    n, m, seed = unit["n"], unit["m"], unit["seed"]
    obs0, ens0 = dev_base(n, m, seed)
    devs = dev_list(n, m, obs0, ens0)
    combos = [()] + [(d,) for d in devs] + list(itertools.combinations(devs, 2))
    first = True
    for ci, combo in enumerate(combos):
        if ci % unit["parts"] != unit["part"]:
            continue
        if len(combo) == 2 and combo[0][:3] == combo[1][:3]:
            continue                    # same coordinate twice = a single deviation, already covered
        obs = list(obs0)
        ens = [list(r) for r in ens0]
        for kind, i, j, v in combo:
            if kind == "o":
                obs[i] = v
            else:
                ens[i][j] = v
        if first:
            ctx.case(False, sample=jcase(obs, ens), n=0)
            first = False
        ctx.count("dev.k=%d" % len(combo))
        check_case(ctx, obs, ens)


def check_bign(ctx, n, m):
    """size-boundary cases (n*n crosses 2**31 at n = 46341) with a closed-form reference:
    obs alternate 0/1, every ensemble is {0.5} (m=1) or {0, 1} (m=2)"""
    from fractions import Fraction
    obs = np.arange(n, dtype=np.float64) % 2
    ens = np.full((n, 1), 0.5) if m == 1 else np.tile(np.array([0.0, 1.0]), (n, 1))
    case = {"kind": "bign", "n": n, "m": m}
    from hydrodiy.stat import metrics
    try:
        d, table = metrics.crps(obs, ens)
    except Exception as e:
        ctx.case(True)
        ctx.violation("crps:large-n:raised", case, "crps raised %r for n=%d" % (e, n))
        return
    got = {k: float(d[k]) for k in COMPS}
    ctx.case(True, outcome=repr(sorted(got.items())))
    k1 = n // 2
    exp_crps = Fraction(1, 2) if m == 1 else Fraction(1, 4)
    exp_unc = Fraction(k1 * (n - k1), n * n)
    names = list(COMPS)
    # the kernel accumulates ~n^2 terms in float64: observed noise 8e-9 relative at n = 46341; tolerance 100x that
    tol = 1e-6

    def g(name):
        for k in names:
            if k.lower().startswith(name):
                return got[k]
        raise KeyError(name)
    crps, reli, pot, unc, reso = g("crps"), g("reli"), g("pot"), g("unc"), g("reso")
    if abs(crps - float(exp_crps)) > tol:
        ctx.violation("crps:large-n:value", case, "crps %r, definition gives %r (n=%d)" % (crps, float(exp_crps), n), observed=crps, expected=float(exp_crps))
    if abs(unc - float(exp_unc)) > tol:
        ctx.violation("crps:large-n:uncertainty", case, "uncertainty %r, CRPS of the observed climatology is %r (n=%d)" % (unc, float(exp_unc), n), observed=unc, expected=float(exp_unc))
    if abs(crps - (reli + pot)) > tol:
        ctx.violation("crps:large-n:crps=reli+pot", case, "crps %r != reliability %r + potential %r" % (crps, reli, pot))
    if abs(reso - (unc - pot)) > tol:
        ctx.violation("crps:large-n:reso=unc-pot", case, "resolution %r != uncertainty %r - potential %r" % (reso, unc, pot))
    for nm, v in (("reliability", reli), ("potential", pot), ("uncertainty", unc)):
        if not (v >= -1e-12):
            ctx.violation("crps:large-n:negative:%s" % nm, case, "%s = %r < 0 (n=%d)" % (nm, v, n))


def run_unit(unit, ctx):
    if unit["kind"] == "full":
        run_full(unit, ctx)
    elif unit["kind"] == "dense":
        sd = unit["seed"]
        for k in range(unit["lo"], unit["hi"] + 1):
            if unit["what"] == "m":
                n, m = 4, k
            else:
                n, m = k, 2
            # members on an integer ramp with ties; observations below, inside (tied with a member), inside
            # (between members) and above the ensemble
            ens = [[float(((j * 3 + i) // 2) % max(2, m // 2 + 1)) for j in range(m)] for i in range(n)]
            obs = [[-1.0, 0.0, 0.5, float(m + 2)][(i + sd) % 4] for i in range(n)]
            ctx.count("dense.cases")
            _TOLX[0] = 1000.0 if max(n, m) > 100 else 1.0
            try:
                check_case(ctx, obs, ens)
            finally:
                _TOLX[0] = 1.0
    elif unit["kind"] == "ladder":
        n, sd = unit["n"], unit["seed"]
        for m in (1, 3):
            obs = [float((i * 7 + sd) % 3) for i in range(n)]
            if n > 20:
                obs[n // 3] = NAN
            ens = [[float((i * (j + 2) + j + sd) % 3) for j in range(m)] for i in range(n)]
            ctx.count("ladder.cases")
            _TOLX[0] = 1000.0 if n > 100 else 1.0
            try:
                check_case(ctx, obs, ens)
            finally:
                _TOLX[0] = 1.0
    elif unit["kind"] == "bign":
        ctx.case(False, n=0, sample={"kind": "bign", "n": unit["n"], "m": unit["m"]})
        check_bign(ctx, unit["n"], unit["m"])
    else:
        run_dev(unit, ctx)


def replay(case):
    from mc.explore import Result
    ctx = Result()
    _CACHE.clear()
    if case.get("kind") == "bign":
        check_bign(ctx, case["n"], case["m"])
        return [v for lst in ctx.violations.values() for v in lst]
    obs = [NAN if v is None else float(v) for v in case["obs"]]
    ens = [[float(v) for v in row] for row in case["ens"]]
    _TOLX[0] = 1000.0 if max(len(obs), len(ens[0]) if ens else 0) > 100 else 1.0
    check_case(ctx, obs, ens)
    return [v for lst in ctx.violations.values() for v in lst]
