"""C09 - write_csv / read_csv round trip.

Space
  core (crossed fully): storage mode (5) x column layout (7) x text value (6 + 1
  seed extra, only for layouts with a text column) x comment value (6 + 1 seed extra)
  rest (deviation bounded around every core point): number of rows, the name of
  every column, a second text value, the float / integer cell, the comment key,
  a second and third comment, float_format, write_sys_info, author, file stem.
Oracle: same column names, same row count, text cells equal (as str), integer
cells equal (as int), float cells within half a unit of the last digit kept by
float_format, comment dict contains the caller's (key, value) pairs verbatim and
nrow / ncol.
Each case works in its own tempfile.mkdtemp() directory which is removed at once.
Size ladder (same oracle): generated frames (tie-rich dyadic floats + a few decimal ones,
integers with a value beyond 2**53 in row 0, text cycling through the quoting alphabet)
with the row count on the ladder 7..1025 (thorough ..10001) and the column count 1..40,
in every storage mode; the same frames carrying a non-default index (never written) and
all-float frames built from one 2-D block in another memory layout / dtype.
"""
import itertools, os, re, shutil, tempfile, zipfile
from fractions import Fraction
from pathlib import Path

ID = "C09"
# computational entry points whose results are watched by the engine's retained-result oracle (mc/explore.py)
RETAIN = [('hydrodiy.io.csv', 'read_csv')]
RULE = ("every storage mode {plain x.csv; compress=True under x.csv / x.zip / x; member "
        "sub/x.csv of a caller's zip archive} x column layout {f; i; t; t,f; i,t; f,i,t; t,i,f} "
        "x text value x comment value crossed fully, and around every such core point every "
        "vector of the remaining coordinates (rows 1-3, column names, second text value, "
        "float cell, integer cell, comment key, 2nd/3rd comment, float_format, write_sys_info, "
        "author, file stem) with at most k non-default coordinates; each case = one "
        "write_csv + one read_csv on the real code in a private temp dir, compared cell by "
        "cell with the frame and comment dict that were handed in. Non-trivial = the case "
        "has a text cell needing quoting or holding ':' / '#', or a comment value holding "
        "':' / '#' / ',', or is stored compressed / in an archive. Cases are distinct by "
        "construction (nested enumeration of coordinate vectors; combinations that would "
        "repeat a case - non-unique names, second text value with one row - are skipped, "
        "not counted). Size ladder: generated frames (column j of type f,i,t in turn; float cell "
        "((7i+3j) mod 23)/4 - 2.5 + j with every 11th row a decimal value, integer cell ((13i+5j) mod 1001) - 500 "
        "with 2**53+1 or -2**62 in row 0, text cell = quoting alphabet[(i+j) mod 6] (+ a counter)) with "
        "rows on LADDER x 3 columns x 2 float formats, columns 1..40 x rows {2, 33}, wide frames (17 / 40 "
        "columns) x rows around the powers of two, each in all 5 storage modes; index variants {RangeIndex "
        "with start/step, DatetimeIndex, text labels, MultiIndex} (write_index=False: the frame must come "
        "back the same) and layout variants of all-float frames {2-D block C / Fortran / float32 / strided "
        "view, read-only block} x 4 shapes x 5 modes, judged cell by cell by the same oracle.")
ASSUMPTIONS = [
    "text values made of blanks only are not in the alphabet: a one-column frame holding one is written as a blank line, which the CSV reader skips (a limit of the text format; seen when the value was tried, not judged); values with a leading or a trailing blank are in the alphabet",
    "missing text (None, empty text) is outside: the statement speaks of non-empty text; a missing float (NaN) is in the alphabet and must come back missing in a frame with the same number of rows",
    "strings pandas itself re-types on reading ('NA', '1e3', 'True', digits-only text) are outside the stated text alphabet; the header value '9' is kept because comments come back as strings",
    "column names, comment values and text with leading/trailing blanks, a comment value holding a run of >= 10 dashes, keys with upper case / blanks / > 25 characters are outside the enumerated alphabets (the reader strips / re-keys them)",
    "returned dtypes are not compared: text as str(), integers as int(), floats as float(); nrow/ncol compared as str() (they come back as strings)",
    "float tolerance = half a unit of the last digit of float_format (for %e: of the last mantissa digit at the decade of the value) x (1 + 1e-9) + 1e-12 |x| for decimal parsing noise",
    "time_generated, author, source_file, system information lines of the header are never compared",
    "the frame index is not written (write_index=False, the default); gzip input is not produced by write_csv and is not covered",
    "size ladder: the generated column names stay inside the stated alphabet (letters, digits, space, dash, underscore; no leading/trailing blank, never digits only); the float32 layout holds dyadic values only (exactly representable), so the float tolerance is unchanged; a layout / index that write_csv rejects with a Python exception would be reported (pandas frames of any layout are valid input)",
]
TECHNIQUE = ("bounded exhaustive enumeration (full core x deviation-bounded rest) of "
             "write_csv -> read_csv on the real implementation, differential oracle against the input frame")

MODES = ["plain", "zip-csv", "zip-zip", "zip-noext", "archive"]
MODE_KEY = {"plain": "plain", "zip-csv": "compress:name=.csv", "zip-zip": "compress:name=.zip",
            "zip-noext": "compress:name=noext", "archive": "archive"}
LAYOUTS = [["f"], ["i"], ["t"], ["t", "f"], ["i", "t"], ["f", "i", "t"], ["t", "i", "f"]]
FULL_LAYOUT = 5

NAMES = ["a", "A1", "col 2", "x-y", "_u", "9z"]
NAMES_X = ["B_2-c", "0", "Zz 9 y", "u__v"]
TEXTS = ["abc", "a,b", 'q"t', "k: v", "#h", "sp ace", " lead", "trail "]
TEXT_LABEL = ["abc", "comma", "quote", "colon", "hash", "space", "leading-blank", "trailing-blank"]
TEXTS_X = ["x;y", "it's", "50%", "a|b"]
KEYS = ["info", "a_key", "k234567890123456789012345"]        # the last one has 25 characters
CVALS = ["plain", "with: colon", "x:y:z", "#lead", "a , b", "9", "410730 : Cotter at : Gingera", "lat: -35.31   lon: 149.12", "a\tb"]
CVAL_LABEL = ["plain", "colon", "colons", "hash", "comma", "digit", "spaced-colons", "repeated-blanks", "tab"]
CVALS_X = ["10:00:00 on 2020-01-02", "v=1 (approx. 50%)", "path/to/x.csv", "a - b -- c"]
FORMATS = ["%0.5f", "%0.2f", "%.10e"]
FLOATS = [1.5, 0.0, -2.25, 0.123456789, 12345.678915, -4e-6, 0.125, float("nan")]
FLOATS_X = [1e-7, 2.5e10, 0.005, 99.995]
FLOAT_REST = [-0.123456789, 1234.000004]     # need more digits than %0.5f keeps: the format matters at k = 1
INTS = [3, 0, -7, 2 ** 53 + 1, -2 ** 62]
INT_REST = [10, -20]
STEMS = ["x", "my file", "d-1_b", "d.v2", "precip", "q.z", "fuzz"]      # the last three end in characters of ".zip"
SOURCE = Path(__file__)
LADDER = [7, 8, 9, 15, 16, 17, 31, 32, 33, 63, 64, 65, 100, 127, 128, 129, 255, 256, 257, 500, 501,
          511, 512, 513, 1000, 1001, 1023, 1024, 1025]
# dense range: every size (a defect may sit at one particular size, e.g. exactly 73 members)
LADDER = sorted(set(LADDER) | set(range(7, 131)))
LADDER_X = [2047, 2048, 2049, 4095, 4096, 4097, 10001]
LADDER_POW = [63, 64, 65, 255, 256, 257, 1023, 1024, 1025]
INDEX_KINDS = ["shifted", "datetime", "datetime-descending", "datetime-shuffled", "integers-descending", "labels", "multi"]
BUILDS = ["block-C", "block-F", "block-f32", "block-strided", "block-readonly"]


def alphabets(seed):
    s = int(seed)
    return dict(names=NAMES + [NAMES_X[s % len(NAMES_X)]],
                texts=TEXTS + [TEXTS_X[s % len(TEXTS_X)]],
                cvals=CVALS + [CVALS_X[s % len(CVALS_X)]],
                floats=FLOATS + [FLOATS_X[s % len(FLOATS_X)]])


def bound_text(tier, seed):
    al = alphabets(seed)
    ex = "seed extras: name %r, text %r, comment value %r, float %r" % (
        al["names"][-1], al["texts"][-1], al["cvals"][-1], al["floats"][-1])
    lad = ("; size ladder: rows %s x 3 columns x 2 formats, columns 1..40 x rows {2,33}, %s columns x rows %s, "
           "index kinds %s x rows {9,64,257,1001}, float-block layouts %s x shapes {8x4,65x7,257x3,1000x2}, all x 5 modes" % (
               LADDER if tier == "quick" else LADDER + LADDER_X, [17, 40],
               LADDER_POW if tier == "quick" else LADDER + LADDER_X[:6], INDEX_KINDS, BUILDS))
    if tier == "quick":
        return ("core 5 modes x 7 layouts x 7 text values x 7 comment values crossed fully, each with "
                "<= 1 deviation of the rest; <= 2 deviations completed for 5 modes x layout f,i,t; "
                "empty comment dict for every mode x layout; " + ex + lad)
    return ("core 5 modes x 7 layouts x 7 text values x 7 comment values crossed fully, each with "
            "<= 2 deviations of the rest; <= 3 deviations completed for 5 modes x layout f,i,t; "
            "empty comment dict for every mode x layout; " + ex + lad)


# --------------------------------------------------------------------------- space

def rest_coords(layout, al):
    """[(name, number of non-default alternatives)] for this layout"""
    c = [("nrow", 2)]
    for j in range(len(layout)):
        c.append(("name%d" % j, len(al["names"]) - 1))
    if "t" in layout:
        c.append(("text2", len(al["texts"]) - 1))
    if "f" in layout:
        c.append(("fval", len(al["floats"]) - 1))
    if "i" in layout:
        c.append(("ival", len(INTS) - 1))
    c += [("ckey", len(KEYS) - 1), ("c2", len(al["cvals"])), ("c3", len(al["cvals"])),
          ("ff", len(FORMATS) - 1), ("sysinfo", 1), ("author", 1), ("stem", len(STEMS) - 1)]
    return c


def dev_sets(coords, kmin, kmax):
    singles = [(name, a) for name, n in coords for a in range(1, n + 1)]
    for k in range(kmin, kmax + 1):
        if k == 0:
            yield ()
            continue
        for combo in itertools.combinations(singles, k):
            if len(set(c for c, _ in combo)) == k:
                yield combo


def build_case(mode, layout, ti, ci, devs, al):
    """-> explicit JSON-able case, or None when the combination is not a new valid case"""
    d = dict(devs)
    nrow = [2, 1, 3][d.get("nrow", 0)]
    if "text2" in d and nrow == 1:
        return None
    names = []
    for j in range(len(layout)):
        a = d.get("name%d" % j, 0)
        if a == 0:
            names.append(al["names"][j])
        else:
            others = [n for n in al["names"] if n != al["names"][j]]
            names.append(others[a - 1])
    if len(set(names)) != len(names):
        return None
    cols = []
    for name, typ in zip(names, layout):
        if typ == "t":
            others = [t for t in al["texts"] if t != "abc"]
            second = others[d["text2"] - 1] if "text2" in d else "abc"
            vals = [al["texts"][ti], second, "abc"][:nrow]
        elif typ == "f":
            vals = ([al["floats"][d.get("fval", 0)]] + FLOAT_REST)[:nrow]
        else:
            vals = ([INTS[d.get("ival", 0)]] + INT_REST)[:nrow]
        cols.append({"name": name, "type": typ, "values": vals})
    comment = []
    if ci is not None:
        k0 = d.get("ckey", 0)
        comment.append([KEYS[k0], al["cvals"][ci]])
        if "c2" in d:
            comment.append([KEYS[(k0 + 1) % 3], al["cvals"][d["c2"] - 1]])
        if "c3" in d:
            comment.append([KEYS[(k0 + 2) % 3], al["cvals"][d["c3"] - 1]])
    return {"mode": mode, "stem": STEMS[d.get("stem", 0)], "cols": cols, "comment": comment,
            "ff": FORMATS[d.get("ff", 0)], "sysinfo": not d.get("sysinfo", 0),
            "author": "toto" if d.get("author", 0) else None}


def units(tier, seed):
    us = []
    al = alphabets(seed)
    quick = tier == "quick"
    for mode in MODES:
        for li, layout in enumerate(LAYOUTS):
            tis = range(len(al["texts"])) if "t" in layout else [0]
            for ti in tis:
                if quick:
                    us.append({"kind": "core", "mode": mode, "layout": li, "text": ti,
                               "cvals": list(range(len(al["cvals"]))), "kmin": 0, "kmax": 1, "seed": seed})
                else:
                    for ci in range(len(al["cvals"])):
                        us.append({"kind": "core", "mode": mode, "layout": li, "text": ti,
                                   "cvals": [ci], "kmin": 0, "kmax": 2, "seed": seed})
        # one more deviation at the full layout
        k, parts = (2, 1) if quick else (3, 12)
        for p in range(parts):
            us.append({"kind": "core", "mode": mode, "layout": FULL_LAYOUT, "text": 0, "cvals": [0],
                       "kmin": k, "kmax": k, "part": p, "parts": parts, "seed": seed})
    us.append({"kind": "nocomment", "seed": seed})
    # size classes (rows far beyond the exhaustive bound) and archives holding several members with one base name
    for mode in MODES:
        us.append({"kind": "bigrows", "mode": mode, "seed": seed, "ns": [5001, 12007] if quick else [5001, 12007, 70001]})
    us.append({"kind": "siblings", "seed": seed})
    # size ladder
    lad = LADDER if quick else LADDER + LADDER_X
    groups = [[n for n in lad if n <= 129], [n for n in lad if 129 < n <= 513], [n for n in lad if 513 < n <= 1025]] + \
        [[n] for n in lad if n > 1025]
    wide = LADDER_POW if quick else LADDER + LADDER_X[:6]
    for mode in MODES:
        for g in groups:
            us.append({"kind": "ladder", "part": "rows", "mode": mode, "seed": seed, "ns": g})
        us.append({"kind": "ladder", "part": "cols", "mode": mode, "seed": seed})
        for g in ([wide] if quick else [wide[i::4] for i in range(4)]):
            us.append({"kind": "ladder", "part": "wide", "mode": mode, "seed": seed, "ns": g})
        us.append({"kind": "ladder", "part": "index", "mode": mode, "seed": seed})
        us.append({"kind": "ladder", "part": "layout", "mode": mode, "seed": seed})
    return us


# --------------------------------------------------------------------------- oracle

def half_unit(x, ff):
    """half a unit of the last digit float_format keeps for x, as a Fraction"""
    m = re.fullmatch(r"%0?\.(\d+)([fe])", ff)
    n = int(m.group(1))
    if m.group(2) == "f":
        return Fraction(1, 2 * 10 ** n)
    ax = abs(Fraction(x))
    if ax == 0:
        return Fraction(0)
    e = 0
    while Fraction(10) ** (e + 1) <= ax:
        e += 1
    while Fraction(10) ** e > ax:
        e -= 1
    return Fraction(10) ** (e - n) / 2


def label(value, values, labels):
    if value in values:
        return labels[values.index(value)]
    for v, lab in zip(values, labels):
        # generated ladder text: an alphabet member followed by a counter
        if value.startswith(v + " ") and value[len(v) + 1:].isdigit():
            return lab
    return "extra"


def nontrivial(case):
    if case["mode"] != "plain":
        return True
    for c in case["cols"]:
        if c["type"] == "t" and any(re.search('[,":#]', v) for v in c["values"]):
            return True
    return any(re.search("[:#,]", v) for _, v in case["comment"])


def ladder_name(j):
    if j < len(NAMES):
        return NAMES[j]
    return ["n%02d", "K %02d", "m-%02d", "_%02d", "%02dz", "Q_%02d x"][j % 6] % j


def ladder_cols(spec):
    """generated frame of the size ladder: spec = {"nrow", "ncol", "types": "mixed"|"float", "seed"}"""
    n, k, s = spec["nrow"], spec["ncol"], spec.get("seed", 0)
    dyadic_only = spec.get("build", "cols") != "cols"
    cols = []
    for j in range(k):
        typ = "f" if spec.get("types", "mixed") == "float" else "fit"[j % 3]
        if typ == "f":
            vals = [((i * 7 + 3 * j + s) % 23) * 0.25 - 2.5 + j for i in range(n)]
            if not dyadic_only:
                for i in range(5, n, 11):
                    vals[i] = ((i + j) % 7) / 10. - 0.3 + 1000. * (i % 3)
        elif typ == "i":
            vals = [((i * 13 + 5 * j + s) % 1001) - 500 for i in range(n)]
            vals[0] = 2 ** 53 + 1 if j % 2 == 0 else -2 ** 62
        else:
            vals = [TEXTS[(i + j) % 6] + ("" if i < 6 else " %d" % ((i + s) % 17)) for i in range(n)]
        cols.append({"name": ladder_name(j), "type": typ, "values": vals})
    return cols


def ladder_index(pd, kind, n):
    if kind == "shifted":
        return pd.RangeIndex(5, 5 + 3 * n, 3)
    if kind == "datetime":
        return pd.date_range("2001-02-03", periods=n, freq="h")
    if kind == "datetime-descending":
        return pd.date_range("2001-02-03", periods=n, freq="h")[::-1]
    if kind == "datetime-shuffled":
        # a fixed permutation (stride coprime with n)
        st = next(k for k in (7, 11, 13, 17, 19, 23, 29) if n % k != 0)
        return pd.date_range("2001-02-03", periods=n, freq="D")[[(i * st + 3) % n for i in range(n)]]
    if kind == "integers-descending":
        return pd.RangeIndex(n - 1, -1, -1)
    if kind == "labels":
        return pd.Index(["row, %d" % (n - i) for i in range(n)])
    if kind == "multi":
        return pd.MultiIndex.from_arrays([[i // 2 for i in range(n)], ["ab"[i % 2] for i in range(n)]], names=["g", "h"])
    raise ValueError(kind)


def ladder_frame(pd, cols, spec):
    """the data frame of a ladder case in the requested build (memory layout / dtype) and index"""
    import numpy as np
    build = spec.get("build", "cols")
    names = [c["name"] for c in cols]
    if build == "cols":
        df = pd.DataFrame({c["name"]: c["values"] for c in cols})
    else:
        block = np.array([c["values"] for c in cols], dtype=np.float64).T.copy()      # (nrow, ncol) C order
        if build == "block-F":
            block = np.asfortranarray(block)
        elif build == "block-f32":
            b32 = block.astype(np.float32)
            if not np.array_equal(b32.astype(np.float64), block):
                raise RuntimeError("harness: float32 block not exact")
            block = b32
        elif build == "block-strided":
            big = np.full((2 * block.shape[0] + 1, 2 * block.shape[1] + 1), -777.25)
            big[1::2, 1::2] = block
            block = big[1::2, 1::2]
        elif build == "block-readonly":
            block.setflags(write=False)
        elif build != "block-C":
            raise ValueError(build)
        df = pd.DataFrame(block, columns=names, copy=False)
    if spec.get("index", "default") != "default":
        df.index = ladder_index(pd, spec["index"], len(df))
    return df


def ladder_suffix(case):
    """key suffix of a ladder case: names the variant so that a defect of one variant has its own key"""
    if "ladder" not in case:
        return ""
    sp = case["ladder"]
    sfx = ":ladder"
    if sp.get("index", "default") != "default":
        sfx += ":index=%s" % sp["index"]
    if sp.get("build", "cols") != "cols":
        sfx += ":layout=%s" % sp["build"]
    return sfx


def expand_big(case):
    """size class: a case may carry "bigrows": n (or "ladder": spec) instead of explicit values (kept small
    for the replay file)"""
    if "ladder" in case:
        return dict(case, cols=ladder_cols(case["ladder"]))
    if "bigrows" not in case:
        return case
    n = case["bigrows"]
    cols = [{"name": "flow", "type": "f", "values": [i * 0.25 - 100.0 for i in range(n)]},
            {"name": "id 2", "type": "i", "values": [i * 7 - 3 for i in range(n)]},
            {"name": "tag", "type": "t", "values": ["r%d" % i for i in range(n)]}]
    return dict(case, cols=cols)


def check_case(ctx, csv, pd, case):
    case_in = case
    case = expand_big(case)
    mode = case["mode"]
    mk = "csv:" + MODE_KEY[mode]
    cols = case["cols"]
    nrow = len(cols[0]["values"])
    comment = {k: v for k, v in case["comment"]}
    nt = nontrivial(case)
    sfx = ladder_suffix(case_in)
    if "bigrows" in case_in or "ladder" in case_in:
        # report the compact form
        case = case_in

    def viol(key, *a, **k):
        ctx.violation(key + sfx, *a, **k)
    ctx.count("mode." + mode)
    ctx.count("format." + case["ff"])
    tmp = tempfile.mkdtemp(prefix="verif-c09-")
    try:
        if "ladder" in case_in:
            df = ladder_frame(pd, cols, case_in["ladder"])
        else:
            df = pd.DataFrame({c["name"]: c["values"] for c in cols})
        if list(df.columns) != [c["name"] for c in cols] or df.shape != (nrow, len(cols)):
            raise RuntimeError("harness: frame not built as specified")
        stem = case["stem"]
        base = Path(tmp)
        fname = {"plain": base / (stem + ".csv"), "zip-csv": base / (stem + ".csv"),
                 "zip-zip": base / (stem + ".zip"), "zip-noext": base / stem,
                 "archive": "sub/%s.csv" % stem}[mode]
        kw = dict(float_format=case["ff"], write_sys_info=case["sysinfo"], author=case["author"])
        # ---- write
        try:
            if mode == "archive":
                with zipfile.ZipFile(base / "arc.zip", "w") as arc:
                    if case.get("siblings"):
                        # other members with the same base name in other sub-folders, written before and after
                        sib = pd.DataFrame({"other": [9.5]})
                        csv.write_csv(sib, "aaa/%s.csv" % stem, {"info": "sibling written before"}, SOURCE, archive=arc, **kw)
                    csv.write_csv(df, fname, comment, SOURCE, archive=arc, **kw)
                    if case.get("siblings"):
                        sib = pd.DataFrame({"other": [1.5, 2.5], "more": [3, 4]})
                        csv.write_csv(sib, "zzz/%s.csv" % stem, {"info": "sibling written after"}, SOURCE, archive=arc, **kw)
                        csv.write_csv(sib, "%s.csv" % stem, {"info": "sibling at the root"}, SOURCE, archive=arc, **kw)
            else:
                if case.get("stale"):
                    # folder history: another frame was stored earlier under the same stem in the OTHER physical
                    # file (x.zip before the plain x.csv / plain x.csv before x.zip); the judged file is then
                    # written and read back under its exact name
                    old = pd.DataFrame({"stale": [1.5, 2.5, 3.5], "older": [7, 8, 9]})
                    if mode == "plain":
                        csv.write_csv(old, base / (stem + ".csv"), {"info": "stale frame"}, SOURCE, compress=True, **kw)
                    elif mode == "zip-zip":
                        csv.write_csv(old, base / (stem + ".csv"), {"info": "stale frame"}, SOURCE, compress=False, **kw)
                    ctx.count("stale_sibling_in_folder.%s" % "+".join(sorted(os.listdir(tmp))))
                csv.write_csv(df, fname, comment, SOURCE, compress=(mode != "plain"), **kw)
        except Exception as e:
            ctx.case(nt)
            viol("%s:write-raised:%s" % (mk, type(e).__name__), case,
                          "write_csv raised %r" % (e,))
            return
        if case.get("later_sibling") and mode in ("zip-csv", "zip-zip", "zip-noext"):
            # folder history: AFTER the judged file another frame is stored under a name that differs only behind a dot
            old = pd.DataFrame({"later": [1.5, 2.5, 3.5], "other": [7, 8, 9]})
            try:
                csv.write_csv(old, base / (stem + ".v9.csv"), {"info": "later sibling"}, SOURCE, compress=True, **kw)
                ctx.count("later_sibling_in_folder")
            except Exception:
                ctx.count("later_sibling_in_folder.write-raised")
        # ---- read
        try:
            if mode == "archive":
                with zipfile.ZipFile(base / "arc.zip", "r") as arc:
                    data, com = csv.read_csv(fname, archive=arc)
            else:
                data, com = csv.read_csv(fname)
        except Exception as e:
            ctx.case(nt)
            viol("%s:unreadable" % mk, case,
                          "file written by write_csv(%r, compress=%r) cannot be read back under the same name: "
                          "read_csv raised %s: %s (directory holds %s)" % (
                              str(fname).replace(tmp, "<tmp>"), mode not in ("plain", "archive"),
                              type(e).__name__, e, sorted(os.listdir(tmp))))
            return
    finally:
        shutil.rmtree(tmp, ignore_errors=True)

    try:
        obs_cols = [str(c) for c in data.columns]
        obs_vals = [data.iloc[:, j].tolist() for j in range(data.shape[1])]
        obs_com = dict(com)
    except Exception as e:
        ctx.case(nt)
        viol("%s:result-type" % mk, case, "read_csv returned (%s, %s): %r" % (type(data), type(com), e))
        return
    ctx.case(nt, outcome=repr((obs_cols, obs_vals, [(k, obs_com.get(k)) for k in sorted(comment)],
                               obs_com.get("nrow"), obs_com.get("ncol"))))

    # ---- frame
    exp_cols = [c["name"] for c in cols]
    if obs_cols != exp_cols:
        viol("%s:colnames" % mk, case, "column names %r came back as %r" % (exp_cols, obs_cols),
                      observed=obs_cols, expected=exp_cols)
    elif len(data) != nrow:
        viol("%s:nrow" % mk, case, "%d rows written, %d read" % (nrow, len(data)),
                      observed=len(data), expected=nrow)
    else:
        for c, ov in zip(cols, obs_vals):
            for r, (x, o) in enumerate(zip(c["values"], ov)):
                if c["type"] == "t":
                    ctx.count("cell.text")
                    if not (isinstance(o, str) and o == x):
                        viol("%s:text:%s" % (mk, label(x, TEXTS, TEXT_LABEL)), case,
                                      "text cell %r of column %r row %d came back as %r" % (x, c["name"], r, o),
                                      observed=repr(o), expected=x)
                elif c["type"] == "i":
                    ctx.count("cell.int")
                    # exact comparison (python compares int and float exactly)
                    ok = isinstance(o, (int, float)) and not isinstance(o, bool) and o == x
                    if not ok:
                        viol("%s:int" % mk, case,
                                      "integer cell %d of column %r row %d came back as %r" % (x, c["name"], r, o),
                                      observed=repr(o), expected=x)
                else:
                    ctx.count("cell.float")
                    if x != x:
                        # a missing value must come back missing (and its row must come back: judged by the row count)
                        ctx.count("cell.float.nan")
                        if not (isinstance(o, float) and o != o):
                            viol("%s:float:nan" % mk, case, "missing float cell of column %r row %d came back as %r" % (c["name"], r, o),
                                 observed=repr(o), expected="nan")
                        continue
                    hu = half_unit(x, case["ff"])
                    try:
                        of = float(o)
                        ok = (of == of and abs(of) != float("inf") and
                              abs(Fraction(of) - Fraction(x)) <= hu * (1 + Fraction(1, 10 ** 9)) + abs(Fraction(x)) / 10 ** 12)
                    except Exception:
                        ok = False
                    if hu * 1000 > abs(Fraction(x)) > 0:
                        ctx.count("cell.float.below_format_resolution")
                    if not ok:
                        viol("%s:float:%s" % (mk, case["ff"]), case,
                                      "float cell %r of column %r row %d written with %s came back as %r "
                                      "(allowed difference %.3g)" % (x, c["name"], r, case["ff"], o, float(hu)),
                                      observed=repr(o), expected=x)
    # ---- comments
    for k, v in case["comment"]:
        ctx.count("comment.checked")
        lab = label(v, CVALS, CVAL_LABEL)
        if k not in obs_com:
            viol("%s:comment:missing:%s" % (mk, lab), case,
                          "comment %r : %r is not in the returned comment dict (keys %s)" % (
                              k, v, sorted(obs_com)), observed=sorted(obs_com), expected=k)
        elif obs_com[k] != v:
            viol("%s:comment:value:%s" % (mk, lab), case,
                          "comment %r written as %r came back as %r" % (k, v, obs_com[k]),
                          observed=repr(obs_com[k]), expected=v)
    for k, n in (("nrow", nrow), ("ncol", len(cols))):
        if k not in obs_com or str(obs_com[k]).strip() != str(n):
            viol("%s:comment:%s" % (mk, k), case,
                          "%s = %d expected in the comment dict, got %r" % (k, n, obs_com.get(k)),
                          observed=repr(obs_com.get(k)), expected=n)


# --------------------------------------------------------------------------- driver

def run_unit(unit, ctx):
    import pandas as pd
    from hydrodiy.io import csv
    al = alphabets(unit["seed"])
    first = True
    if unit["kind"] == "nocomment":
        for mode in MODES:
            for layout in LAYOUTS:
                case = build_case(mode, layout, 1, None, (), al)
                if first:
                    ctx.case(False, sample=case, n=0)
                    first = False
                check_case(ctx, csv, pd, case)
        return
    if unit["kind"] == "bigrows":
        for n in unit["ns"]:
            for ff in (FORMATS[0], FORMATS[2]):
                case = {"mode": unit["mode"], "stem": "x", "bigrows": n, "comment": [[KEYS[0], al["cvals"][0]]],
                        "ff": ff, "sysinfo": True, "author": None}
                if first:
                    ctx.case(False, sample=case, n=0)
                    first = False
                ctx.count("bigrows")
                check_case(ctx, csv, pd, case)
        return
    if unit["kind"] == "siblings":
        for li, layout in enumerate(LAYOUTS):
            for ti in (range(len(al["texts"])) if "t" in layout else [0]):
                for ci in range(len(al["cvals"])):
                    case = build_case("archive", layout, ti, ci, (), al)
                    if case is None:
                        continue
                    case["siblings"] = True
                    if first:
                        ctx.case(False, sample=case, n=0)
                        first = False
                    ctx.count("archive_with_siblings")
                    check_case(ctx, csv, pd, case)
                    for smode in ("plain", "zip-zip"):
                        case = build_case(smode, layout, ti, ci, (), al)
                        if case is None:
                            continue
                        case["stale"] = True
                        check_case(ctx, csv, pd, case)
                    for smode in ("zip-csv", "zip-zip", "zip-noext"):
                        for stem in ("x", "d.v2"):
                            case = build_case(smode, layout, ti, ci, (), al)
                            if case is None:
                                continue
                            case["later_sibling"] = True
                            case["stem"] = stem
                            check_case(ctx, csv, pd, case)
        return
    if unit["kind"] == "ladder":
        for case in ladder_cases(unit, al):
            if first:
                ctx.case(False, sample=case, n=0)
                first = False
            ctx.count("ladder." + unit["part"])
            check_case(ctx, csv, pd, case)
        return
    mode, layout, ti = unit["mode"], LAYOUTS[unit["layout"]], unit["text"]
    coords = rest_coords(layout, al)
    part, parts = unit.get("part", 0), unit.get("parts", 1)
    for ci in unit["cvals"]:
        for n, devs in enumerate(dev_sets(coords, unit["kmin"], unit["kmax"])):
            if n % parts != part:
                continue
            case = build_case(mode, layout, ti, ci, devs, al)
            if case is None:
                ctx.count("skipped.not_a_new_case")
                continue
            ctx.count("deviations=%d" % len(devs))
            if first:
                ctx.case(False, sample=case, n=0)
                first = False
            check_case(ctx, csv, pd, case)


def ladder_cases(unit, al):
    mode, part, seed = unit["mode"], unit["part"], unit["seed"]

    def mk(spec, ff, ci=0, stem="x"):
        return {"mode": mode, "stem": stem, "ladder": dict(spec, seed=seed), "comment": [[KEYS[0], al["cvals"][ci]]],
                "ff": ff, "sysinfo": True, "author": None}
    if part == "rows":
        for n in unit["ns"]:
            for ff in (FORMATS[0], FORMATS[2]):
                yield mk({"nrow": n, "ncol": 3}, ff)
    elif part == "cols":
        for k in range(1, 41):
            for n in (2, 33):
                yield mk({"nrow": n, "ncol": k}, FORMATS[k % 3], ci=k % len(al["cvals"]), stem=STEMS[k % len(STEMS)])
    elif part == "wide":
        for n in unit["ns"]:
            for k in (17, 40):
                yield mk({"nrow": n, "ncol": k}, FORMATS[0] if k == 17 else FORMATS[2])
    elif part == "index":
        for kind in INDEX_KINDS:
            for n in (9, 64, 257, 1001):
                yield mk({"nrow": n, "ncol": 3, "index": kind}, FORMATS[0])
    elif part == "layout":
        for build in BUILDS:
            for n, k in ((8, 4), (65, 7), (257, 3), (1000, 2)):
                yield mk({"nrow": n, "ncol": k, "types": "float", "build": build}, FORMATS[(n + k) % 3])
    else:
        raise ValueError(part)


def replay(case):
    from mc.explore import Result
    import pandas as pd
    from hydrodiy.io import csv
    ctx = Result()
    check_case(ctx, csv, pd, case)
    return [v for lst in ctx.violations.values() for v in lst]
