"""C09 - write_csv / read_csv round trip.

Space
  core (crossed fully): storage mode (5) x column layout (7) x text value (6 + 1
  seed extra, only for layouts with a text column) x comment value (6 + 1 seed extra)
  rest (deviation bounded around every core point): number of rows, the name of
  every column, a second text value, the float / integer cell, the comment key,
  a second and third comment, float_format, write_sys_info, author, file stem.
Oracle: same column names, same row count, text cells equal (as str), integer
cells equal (as int), float cells within half a unit of the last digit kept by
float_format, comment dict contains the caller's (key, value) pairs verbatim and
nrow / ncol.
Each case works in its own tempfile.mkdtemp() directory which is removed at once.
"""
import itertools, os, re, shutil, tempfile, zipfile
from fractions import Fraction
from pathlib import Path

ID = "C09"
RULE = ("every storage mode {plain x.csv; compress=True under x.csv / x.zip / x; member "
        "sub/x.csv of a caller's zip archive} x column layout {f; i; t; t,f; i,t; f,i,t; t,i,f} "
        "x text value x comment value crossed fully, and around every such core point every "
        "vector of the remaining coordinates (rows 1-3, column names, second text value, "
        "float cell, integer cell, comment key, 2nd/3rd comment, float_format, write_sys_info, "
        "author, file stem) with at most k non-default coordinates; each case = one "
        "write_csv + one read_csv on the real code in a private temp dir, compared cell by "
        "cell with the frame and comment dict that were handed in. Non-trivial = the case "
        "has a text cell needing quoting or holding ':' / '#', or a comment value holding "
        "':' / '#' / ',', or is stored compressed / in an archive. Cases are distinct by "
        "construction (nested enumeration of coordinate vectors; combinations that would "
        "repeat a case - non-unique names, second text value with one row - are skipped, "
        "not counted).")
ASSUMPTIONS = [
    "missing values (NaN, None, empty text) are outside: the statement speaks of non-empty text and numeric values",
    "strings pandas itself re-types on reading ('NA', '1e3', 'True', digits-only text) are outside the stated text alphabet; the header value '9' is kept because comments come back as strings",
    "column names, comment values and text with leading/trailing blanks, a comment value holding a run of >= 10 dashes, keys with upper case / blanks / > 25 characters are outside the enumerated alphabets (the reader strips / re-keys them)",
    "returned dtypes are not compared: text as str(), integers as int(), floats as float(); nrow/ncol compared as str() (they come back as strings)",
    "float tolerance = half a unit of the last digit of float_format (for %e: of the last mantissa digit at the decade of the value) x (1 + 1e-9) + 1e-12 |x| for decimal parsing noise",
    "time_generated, author, source_file, system information lines of the header are never compared",
    "the frame index is not written (write_index=False, the default); gzip input is not produced by write_csv and is not covered",
]
TECHNIQUE = ("bounded exhaustive enumeration (full core x deviation-bounded rest) of "
             "write_csv -> read_csv on the real implementation, differential oracle against the input frame")

MODES = ["plain", "zip-csv", "zip-zip", "zip-noext", "archive"]
MODE_KEY = {"plain": "plain", "zip-csv": "compress:name=.csv", "zip-zip": "compress:name=.zip",
            "zip-noext": "compress:name=noext", "archive": "archive"}
LAYOUTS = [["f"], ["i"], ["t"], ["t", "f"], ["i", "t"], ["f", "i", "t"], ["t", "i", "f"]]
FULL_LAYOUT = 5

NAMES = ["a", "A1", "col 2", "x-y", "_u", "9z"]
NAMES_X = ["B_2-c", "0", "Zz 9 y", "u__v"]
TEXTS = ["abc", "a,b", 'q"t', "k: v", "#h", "sp ace"]
TEXT_LABEL = ["abc", "comma", "quote", "colon", "hash", "space"]
TEXTS_X = ["x;y", "it's", "50%", "a|b"]
KEYS = ["info", "a_key", "k234567890123456789012345"]        # the last one has 25 characters
CVALS = ["plain", "with: colon", "x:y:z", "#lead", "a , b", "9"]
CVAL_LABEL = ["plain", "colon", "colons", "hash", "comma", "digit"]
CVALS_X = ["10:00:00 on 2020-01-02", "v=1 (approx. 50%)", "path/to/x.csv", "a - b -- c"]
FORMATS = ["%0.5f", "%0.2f", "%.10e"]
FLOATS = [1.5, 0.0, -2.25, 0.123456789, 12345.678915, -4e-6, 0.125]
FLOATS_X = [1e-7, 2.5e10, 0.005, 99.995]
FLOAT_REST = [-0.123456789, 1234.000004]     # need more digits than %0.5f keeps: the format matters at k = 1
INTS = [3, 0, -7, 2 ** 53 + 1, -2 ** 62]
INT_REST = [10, -20]
STEMS = ["x", "my file", "d-1_b", "d.v2"]
SOURCE = Path(__file__)


def alphabets(seed):
    s = int(seed)
    return dict(names=NAMES + [NAMES_X[s % len(NAMES_X)]],
                texts=TEXTS + [TEXTS_X[s % len(TEXTS_X)]],
                cvals=CVALS + [CVALS_X[s % len(CVALS_X)]],
                floats=FLOATS + [FLOATS_X[s % len(FLOATS_X)]])


def bound_text(tier, seed):
    al = alphabets(seed)
    ex = "seed extras: name %r, text %r, comment value %r, float %r" % (
        al["names"][-1], al["texts"][-1], al["cvals"][-1], al["floats"][-1])
    if tier == "quick":
        return ("core 5 modes x 7 layouts x 7 text values x 7 comment values crossed fully, each with "
                "<= 1 deviation of the rest; <= 2 deviations completed for 5 modes x layout f,i,t; "
                "empty comment dict for every mode x layout; " + ex)
    return ("core 5 modes x 7 layouts x 7 text values x 7 comment values crossed fully, each with "
            "<= 2 deviations of the rest; <= 3 deviations completed for 5 modes x layout f,i,t; "
            "empty comment dict for every mode x layout; " + ex)


# --------------------------------------------------------------------------- space

def rest_coords(layout, al):
    """[(name, number of non-default alternatives)] for this layout"""
    c = [("nrow", 2)]
    for j in range(len(layout)):
        c.append(("name%d" % j, len(al["names"]) - 1))
    if "t" in layout:
        c.append(("text2", len(al["texts"]) - 1))
    if "f" in layout:
        c.append(("fval", len(al["floats"]) - 1))
    if "i" in layout:
        c.append(("ival", len(INTS) - 1))
    c += [("ckey", len(KEYS) - 1), ("c2", len(al["cvals"])), ("c3", len(al["cvals"])),
          ("ff", len(FORMATS) - 1), ("sysinfo", 1), ("author", 1), ("stem", len(STEMS) - 1)]
    return c


def dev_sets(coords, kmin, kmax):
    singles = [(name, a) for name, n in coords for a in range(1, n + 1)]
    for k in range(kmin, kmax + 1):
        if k == 0:
            yield ()
            continue
        for combo in itertools.combinations(singles, k):
            if len(set(c for c, _ in combo)) == k:
                yield combo


def build_case(mode, layout, ti, ci, devs, al):
    """-> explicit JSON-able case, or None when the combination is not a new valid case"""
    d = dict(devs)
    nrow = [2, 1, 3][d.get("nrow", 0)]
    if "text2" in d and nrow == 1:
        return None
    names = []
    for j in range(len(layout)):
        a = d.get("name%d" % j, 0)
        if a == 0:
            names.append(al["names"][j])
        else:
            others = [n for n in al["names"] if n != al["names"][j]]
            names.append(others[a - 1])
    if len(set(names)) != len(names):
        return None
    cols = []
    for name, typ in zip(names, layout):
        if typ == "t":
            others = [t for t in al["texts"] if t != "abc"]
            second = others[d["text2"] - 1] if "text2" in d else "abc"
            vals = [al["texts"][ti], second, "abc"][:nrow]
        elif typ == "f":
            vals = ([al["floats"][d.get("fval", 0)]] + FLOAT_REST)[:nrow]
        else:
            vals = ([INTS[d.get("ival", 0)]] + INT_REST)[:nrow]
        cols.append({"name": name, "type": typ, "values": vals})
    comment = []
    if ci is not None:
        k0 = d.get("ckey", 0)
        comment.append([KEYS[k0], al["cvals"][ci]])
        if "c2" in d:
            comment.append([KEYS[(k0 + 1) % 3], al["cvals"][d["c2"] - 1]])
        if "c3" in d:
            comment.append([KEYS[(k0 + 2) % 3], al["cvals"][d["c3"] - 1]])
    return {"mode": mode, "stem": STEMS[d.get("stem", 0)], "cols": cols, "comment": comment,
            "ff": FORMATS[d.get("ff", 0)], "sysinfo": not d.get("sysinfo", 0),
            "author": "toto" if d.get("author", 0) else None}


def units(tier, seed):
    us = []
    al = alphabets(seed)
    quick = tier == "quick"
    for mode in MODES:
        for li, layout in enumerate(LAYOUTS):
            tis = range(len(al["texts"])) if "t" in layout else [0]
            for ti in tis:
                if quick:
                    us.append({"kind": "core", "mode": mode, "layout": li, "text": ti,
                               "cvals": list(range(len(al["cvals"]))), "kmin": 0, "kmax": 1, "seed": seed})
                else:
                    for ci in range(len(al["cvals"])):
                        us.append({"kind": "core", "mode": mode, "layout": li, "text": ti,
                                   "cvals": [ci], "kmin": 0, "kmax": 2, "seed": seed})
        # one more deviation at the full layout
        k, parts = (2, 1) if quick else (3, 12)
        for p in range(parts):
            us.append({"kind": "core", "mode": mode, "layout": FULL_LAYOUT, "text": 0, "cvals": [0],
                       "kmin": k, "kmax": k, "part": p, "parts": parts, "seed": seed})
    us.append({"kind": "nocomment", "seed": seed})
    # size classes (rows far beyond the exhaustive bound) and archives holding several members with one base name
    for mode in MODES:
        us.append({"kind": "bigrows", "mode": mode, "seed": seed, "ns": [5001, 12007] if quick else [5001, 12007, 70001]})
    us.append({"kind": "siblings", "seed": seed})
    return us


# --------------------------------------------------------------------------- oracle

def half_unit(x, ff):
    """half a unit of the last digit float_format keeps for x, as a Fraction"""
    m = re.fullmatch(r"%0?\.(\d+)([fe])", ff)
    n = int(m.group(1))
    if m.group(2) == "f":
        return Fraction(1, 2 * 10 ** n)
    ax = abs(Fraction(x))
    if ax == 0:
        return Fraction(0)
    e = 0
    while Fraction(10) ** (e + 1) <= ax:
        e += 1
    while Fraction(10) ** e > ax:
        e -= 1
    return Fraction(10) ** (e - n) / 2


def label(value, values, labels):
    return labels[values.index(value)] if value in values else "extra"


def nontrivial(case):
    if case["mode"] != "plain":
        return True
    for c in case["cols"]:
        if c["type"] == "t" and any(re.search('[,":#]', v) for v in c["values"]):
            return True
    return any(re.search("[:#,]", v) for _, v in case["comment"])


def expand_big(case):
    """size class: a case may carry "bigrows": n instead of explicit values (kept small for the replay file)"""
    if "bigrows" not in case:
        return case
    n = case["bigrows"]
    cols = [{"name": "flow", "type": "f", "values": [i * 0.25 - 100.0 for i in range(n)]},
            {"name": "id 2", "type": "i", "values": [i * 7 - 3 for i in range(n)]},
            {"name": "tag", "type": "t", "values": ["r%d" % i for i in range(n)]}]
    return dict(case, cols=cols)


def check_case(ctx, csv, pd, case):
    case_in = case
    case = expand_big(case)
    mode = case["mode"]
    mk = "csv:" + MODE_KEY[mode]
    cols = case["cols"]
    nrow = len(cols[0]["values"])
    comment = {k: v for k, v in case["comment"]}
    nt = nontrivial(case)
    if "bigrows" in case_in:
        # report the compact form
        case = case_in
    ctx.count("mode." + mode)
    ctx.count("format." + case["ff"])
    tmp = tempfile.mkdtemp(prefix="verif-c09-")
    try:
        df = pd.DataFrame({c["name"]: c["values"] for c in cols})
        if list(df.columns) != [c["name"] for c in cols] or df.shape != (nrow, len(cols)):
            raise RuntimeError("harness: frame not built as specified")
        stem = case["stem"]
        base = Path(tmp)
        fname = {"plain": base / (stem + ".csv"), "zip-csv": base / (stem + ".csv"),
                 "zip-zip": base / (stem + ".zip"), "zip-noext": base / stem,
                 "archive": "sub/%s.csv" % stem}[mode]
        kw = dict(float_format=case["ff"], write_sys_info=case["sysinfo"], author=case["author"])
        # ---- write
        try:
            if mode == "archive":
                with zipfile.ZipFile(base / "arc.zip", "w") as arc:
                    if case.get("siblings"):
                        # other members with the same base name in other sub-folders, written before and after
                        sib = pd.DataFrame({"other": [9.5]})
                        csv.write_csv(sib, "aaa/%s.csv" % stem, {"info": "sibling written before"}, SOURCE, archive=arc, **kw)
                    csv.write_csv(df, fname, comment, SOURCE, archive=arc, **kw)
                    if case.get("siblings"):
                        sib = pd.DataFrame({"other": [1.5, 2.5], "more": [3, 4]})
                        csv.write_csv(sib, "zzz/%s.csv" % stem, {"info": "sibling written after"}, SOURCE, archive=arc, **kw)
                        csv.write_csv(sib, "%s.csv" % stem, {"info": "sibling at the root"}, SOURCE, archive=arc, **kw)
            else:
                csv.write_csv(df, fname, comment, SOURCE, compress=(mode != "plain"), **kw)
        except Exception as e:
            ctx.case(nt)
            ctx.violation("%s:write-raised:%s" % (mk, type(e).__name__), case,
                          "write_csv raised %r" % (e,))
            return
        # ---- read
        try:
            if mode == "archive":
                with zipfile.ZipFile(base / "arc.zip", "r") as arc:
                    data, com = csv.read_csv(fname, archive=arc)
            else:
                data, com = csv.read_csv(fname)
        except Exception as e:
            ctx.case(nt)
            ctx.violation("%s:unreadable" % mk, case,
                          "file written by write_csv(%r, compress=%r) cannot be read back under the same name: "
                          "read_csv raised %s: %s (directory holds %s)" % (
                              str(fname).replace(tmp, "<tmp>"), mode not in ("plain", "archive"),
                              type(e).__name__, e, sorted(os.listdir(tmp))))
            return
    finally:
        shutil.rmtree(tmp, ignore_errors=True)

    try:
        obs_cols = [str(c) for c in data.columns]
        obs_vals = [data.iloc[:, j].tolist() for j in range(data.shape[1])]
        obs_com = dict(com)
    except Exception as e:
        ctx.case(nt)
        ctx.violation("%s:result-type" % mk, case, "read_csv returned (%s, %s): %r" % (type(data), type(com), e))
        return
    ctx.case(nt, outcome=repr((obs_cols, obs_vals, [(k, obs_com.get(k)) for k in sorted(comment)],
                               obs_com.get("nrow"), obs_com.get("ncol"))))

    # ---- frame
    exp_cols = [c["name"] for c in cols]
    if obs_cols != exp_cols:
        ctx.violation("%s:colnames" % mk, case, "column names %r came back as %r" % (exp_cols, obs_cols),
                      observed=obs_cols, expected=exp_cols)
    elif len(data) != nrow:
        ctx.violation("%s:nrow" % mk, case, "%d rows written, %d read" % (nrow, len(data)),
                      observed=len(data), expected=nrow)
    else:
        for c, ov in zip(cols, obs_vals):
            for r, (x, o) in enumerate(zip(c["values"], ov)):
                if c["type"] == "t":
                    ctx.count("cell.text")
                    if not (isinstance(o, str) and o == x):
                        ctx.violation("%s:text:%s" % (mk, label(x, TEXTS, TEXT_LABEL)), case,
                                      "text cell %r of column %r row %d came back as %r" % (x, c["name"], r, o),
                                      observed=repr(o), expected=x)
                elif c["type"] == "i":
                    ctx.count("cell.int")
                    # exact comparison (python compares int and float exactly)
                    ok = isinstance(o, (int, float)) and not isinstance(o, bool) and o == x
                    if not ok:
                        ctx.violation("%s:int" % mk, case,
                                      "integer cell %d of column %r row %d came back as %r" % (x, c["name"], r, o),
                                      observed=repr(o), expected=x)
                else:
                    ctx.count("cell.float")
                    hu = half_unit(x, case["ff"])
                    try:
                        of = float(o)
                        ok = (of == of and abs(of) != float("inf") and
                              abs(Fraction(of) - Fraction(x)) <= hu * (1 + Fraction(1, 10 ** 9)) + abs(Fraction(x)) / 10 ** 12)
                    except Exception:
                        ok = False
                    if hu * 1000 > abs(Fraction(x)) > 0:
                        ctx.count("cell.float.below_format_resolution")
                    if not ok:
                        ctx.violation("%s:float:%s" % (mk, case["ff"]), case,
                                      "float cell %r of column %r row %d written with %s came back as %r "
                                      "(allowed difference %.3g)" % (x, c["name"], r, case["ff"], o, float(hu)),
                                      observed=repr(o), expected=x)
    # ---- comments
    for k, v in case["comment"]:
        ctx.count("comment.checked")
        lab = label(v, CVALS, CVAL_LABEL)
        if k not in obs_com:
            ctx.violation("%s:comment:missing:%s" % (mk, lab), case,
                          "comment %r : %r is not in the returned comment dict (keys %s)" % (
                              k, v, sorted(obs_com)), observed=sorted(obs_com), expected=k)
        elif obs_com[k] != v:
            ctx.violation("%s:comment:value:%s" % (mk, lab), case,
                          "comment %r written as %r came back as %r" % (k, v, obs_com[k]),
                          observed=repr(obs_com[k]), expected=v)
    for k, n in (("nrow", nrow), ("ncol", len(cols))):
        if k not in obs_com or str(obs_com[k]).strip() != str(n):
            ctx.violation("%s:comment:%s" % (mk, k), case,
                          "%s = %d expected in the comment dict, got %r" % (k, n, obs_com.get(k)),
                          observed=repr(obs_com.get(k)), expected=n)


# --------------------------------------------------------------------------- driver

def run_unit(unit, ctx):
    import pandas as pd
    from hydrodiy.io import csv
    al = alphabets(unit["seed"])
    first = True
    if unit["kind"] == "nocomment":
        for mode in MODES:
            for layout in LAYOUTS:
                case = build_case(mode, layout, 1, None, (), al)
                if first:
                    ctx.case(False, sample=case, n=0)
                    first = False
                check_case(ctx, csv, pd, case)
        return
    if unit["kind"] == "bigrows":
        for n in unit["ns"]:
            for ff in (FORMATS[0], FORMATS[2]):
                case = {"mode": unit["mode"], "stem": "x", "bigrows": n, "comment": [[KEYS[0], al["cvals"][0]]],
                        "ff": ff, "sysinfo": True, "author": None}
                if first:
                    ctx.case(False, sample=case, n=0)
                    first = False
                ctx.count("bigrows")
                check_case(ctx, csv, pd, case)
        return
    if unit["kind"] == "siblings":
        for li, layout in enumerate(LAYOUTS):
            for ti in (range(len(al["texts"])) if "t" in layout else [0]):
                for ci in range(len(al["cvals"])):
                    case = build_case("archive", layout, ti, ci, (), al)
                    if case is None:
                        continue
                    case["siblings"] = True
                    if first:
                        ctx.case(False, sample=case, n=0)
                        first = False
                    ctx.count("archive_with_siblings")
                    check_case(ctx, csv, pd, case)
        return
    mode, layout, ti = unit["mode"], LAYOUTS[unit["layout"]], unit["text"]
    coords = rest_coords(layout, al)
    part, parts = unit.get("part", 0), unit.get("parts", 1)
    for ci in unit["cvals"]:
        for n, devs in enumerate(dev_sets(coords, unit["kmin"], unit["kmax"])):
            if n % parts != part:
                continue
            case = build_case(mode, layout, ti, ci, devs, al)
            if case is None:
                ctx.count("skipped.not_a_new_case")
                continue
            ctx.count("deviations=%d" % len(devs))
            if first:
                ctx.case(False, sample=case, n=0)
                first = False
            check_case(ctx, csv, pd, case)


def replay(case):
    from mc.explore import Result
    import pandas as pd
    from hydrodiy.io import csv
    ctx = Result()
    check_case(ctx, csv, pd, case)
    return [v for lst in ctx.violations.values() for v in lst]
