"""C07 - Grid cell numbers <-> rows/columns <-> coordinates <-> neighbours.

Space (crossed fully):
  grid geometry = (nrows, ncols) x cellsize x (xll, yll) = cellsize x ORIGIN x ORIGIN
  per grid:
    coord2cell : the full product X x Y of 1-D query positions, where the 1-D list
                 holds, per column (row), {lower edge + e, centre, upper edge - e}
                 (e = 2^-29 cell ~ 1.9e-9) and, on each side of the extent, the
                 distances {e, 0.5, 1-e, 1, 1.5, 100, 1e6} cells.  The product therefore
                 contains 9 points per cell (centre, 4 corners, 4 edge mid-points,
                 all inset), points outside on the 4 sides (level with every row /
                 column position) and on the 4 diagonals at every pair of distances.
    cell2coord / cell2rowcol / neighbours : every valid cell and the invalid cell
                 numbers {-1, -7, ntot, ntot+5, 2^40}; xvalues/yvalues/xlim/ylim.
Oracle: exact Fraction arithmetic on the float inputs (the float query coordinate is
  taken as given; T = (x - xll)/csz is computed exactly) decides column / row / side and
  the safety margin; points closer than max(1e-9, 64 u max(1,|T|,|x|/csz,|xll|/csz))
  cells to a cell edge (inside) or to the extent (outside) are dropped and counted.
"""
import math
from fractions import Fraction
import numpy as np

ID = "C07"
TECHNIQUE = ("bounded exhaustive enumeration of grid geometries x query points x cell numbers on the "
             "real Grid methods, judged by an exact Fraction model of the grid")
RULE = ("every grid geometry (nrows, ncols) x cellsize x xll x yll of the tier's alphabets; per grid the "
        "full product of 1-D query positions (3 per column/row inset by 2^-29 cell, 7 distances outside on "
        "each side) through Grid.coord2cell, and every valid + 5 invalid cell numbers through cell2coord, "
        "cell2rowcol, neighbours, plus xvalues/yvalues/xlim/ylim. A case is one (grid, query point) or one "
        "(grid, cell number, method); coord2cell cases are non-trivial when the exact model judges them "
        "(margin respected), cell cases always. Cases are distinct by construction (nested enumeration of "
        "distinct alphabet values; duplicate 1-D positions cannot occur because positions are strictly "
        "increasing in exact arithmetic, which is asserted).")
ASSUMPTIONS = [
    "query coordinates are the float64 values actually passed; the exact model works on those floats, so only the rounding of (x-xll)/csz inside the implementation is absorbed by the margin",
    "points closer than max(1e-9, 64*2^-53*max(1,|T|,|x|/csz,|xll|/csz)) cell sizes to a cell edge are dropped (counted in dropped.margin), as the quantifier says 'away from edges by 1e-9 relative'",
    "cell2coord centre compared with the exact centre to 2^-45 * max(|origin|, |centre|, cellsize) (about 256 ulp)",
    "neighbours returns 9 slots laid out 0 1 2 / 3 X 5 / 6 7 8 (C source comment); slot 4 (the cell itself) must be -1; the Python docstring's 8-slot picture is taken as a documentation slip, not judged",
    "an invalid cell number counts as flagged when the method raises, or cell2coord yields a NaN, or cell2rowcol yields a negative entry, or neighbours yields only -1",
    "coordinates beyond 1e6 cells from the grid, NaN/inf coordinates and cell numbers beyond 2^40 are outside the bound",
    "extension modules rebuilt from the working tree C sources; Cython wrapper C not re-translated",
]

EPS = 2.0 ** -29
U = 2.0 ** -53
DISTS = [EPS, 0.5, 1.0 - EPS, 1.0, 1.5, 100.0, 1.0e6]
ORIGINS = [0.0, 0.5, -0.5, 7.3, -7.3, 1.0e4, -1.0e4]
SEED_ORIGINS = [123.456, -2047.75, 0.001, -9999.9, 31.0, -0.3]
SEED_CSZ = [0.0123, 37.5, 7.0e-3, 2.0 ** 12, 1.0e-2, 5.0e4]


def sizes(tier):
    return [1, 2, 3] if tier == "quick" else [1, 2, 3, 5, 8, 13]


def cellsizes(tier, seed):
    if tier == "quick":
        return [2.0 ** -10, 0.1, 1.0, 1000.0]
    return [2.0 ** -10, 0.1, 0.25, 1.0, 3.0, 1000.0, 1.0e5, SEED_CSZ[seed % len(SEED_CSZ)]]


def origins(tier, seed):
    return ORIGINS + [SEED_ORIGINS[seed % len(SEED_ORIGINS)]]


def bound_text(tier, seed):
    return ("nrows, ncols in %s; cellsize in %s; xll, yll = cellsize x %s (all pairs); per grid "
            "(3*ncols+14) x (3*nrows+14) query points (inset 2^-29 cell; outside distances %s cells), all valid "
            "cells and invalid cells {-1,-7,ntot,ntot+5,2^40}" % (
                sizes(tier), cellsizes(tier, seed), origins(tier, seed), DISTS))


def units(tier, seed):
    us = []
    for nrows in sizes(tier):
        for ncols in sizes(tier):
            for csz in cellsizes(tier, seed):
                us.append({"nrows": nrows, "ncols": ncols, "csz": csz,
                           "origins": origins(tier, seed)})
    return us


# ---------------------------------------------------------------------------
# exact model

def positions_1d(n, ll, csz, idx=None, inset=EPS):
    """float query positions along one axis: list of (float x, tag).
    idx = optional increasing subset of the n column (row) indices (size ladder: sparse queries);
    inset = distance of the two off-centre points of a cell from its edges (in cells)"""
    out = []
    for d in reversed(DISTS):
        out.append((ll - csz * d, "out-lo"))
    for j in (range(n) if idx is None else idx):
        out.append((ll + csz * (j + inset), "edge-inset"))
        out.append((ll + csz * (j + 0.5), "centre"))
        out.append((ll + csz * (j + 1 - inset), "edge-inset"))
    ur = ll + csz * n
    for d in DISTS:
        out.append((ur + csz * d, "out-hi"))
    return out


def classify_1d(x, n, ll, csz):
    """exact position of float x on the axis -> (side, index, judged)
    side in {-1 (below/left), 0 (inside), +1 (above/right)}; index = exact floor(T) when inside"""
    T = (Fraction(x) - Fraction(ll)) / Fraction(csz)
    need = max(Fraction(1, 10 ** 9),
               Fraction(64 * U) * max(1, abs(T), abs(Fraction(x) / Fraction(csz)),
                                       abs(Fraction(ll) / Fraction(csz))))
    if T < 0:
        return -1, None, (-T) >= need
    if T >= n:
        return 1, None, (T - n) >= need
    k = math.floor(T)
    margin = min(T - k, k + 1 - T)
    return 0, k, margin >= need


SIDE_X = {-1: "left", 1: "right"}
SIDE_Y = {-1: "below", 1: "above"}


def side_name(sx, sy):
    return SIDE_X.get(sx, "") + ("-" if sx and sy else "") + SIDE_Y.get(sy, "")


def make_grid(nrows, ncols, csz, xll, yll, mode=None):
    from hydrodiy.gis.grid import Grid
    if mode == "virtual":
        # geometry-only grid: a 1x1 Grid whose public nrows / ncols attributes are re-assigned (the constructor
        # would allocate nrows*ncols cells; none of the functions judged here reads the data array)
        g = Grid("g", ncols=1, nrows=1, cellsize=csz, xllcorner=xll, yllcorner=yll)
        g.nrows = np.int64(nrows)
        g.ncols = np.int64(ncols)
        return g
    if mode == "big":
        # one byte per cell, zero-filled by the constructor (calloc: pages are never touched)
        return Grid("g", ncols=ncols, nrows=nrows, cellsize=csz, xllcorner=xll, yllcorner=yll, dtype=np.int8)
    return Grid("g", ncols=ncols, nrows=nrows, cellsize=csz, xllcorner=xll, yllcorner=yll)


def touch_grid(g):
    """read every derived quantity once (so that a memoising implementation fills its caches)"""
    try:
        g.xvalues, g.yvalues, g.xlim, g.ylim
        g.cell2coord(0)
        g.coord2cell([[float(g.xllcorner), float(g.yllcorner)]])
    except Exception:
        pass


def geom_case(nrows, ncols, csz, xll, yll, mode=None):
    gc = {"nrows": nrows, "ncols": ncols, "csz": csz, "xll": xll, "yll": yll}
    if mode:
        gc["mode"] = mode       # size ladder: "ladder" (sparse queries), "big" / "virtual" (huge grids)
    return gc


SFX = {None: "", "ladder": ":size-ladder", "big": ":big-grid", "virtual": ":big-grid-virtual"}


def check_coord2cell(ctx, g, gc, only=None):
    """only = optional (x, y) float pair restricting the check to one query point (replay)"""
    nrows, ncols, csz, xll, yll = gc["nrows"], gc["ncols"], gc["csz"], gc["xll"], gc["yll"]
    mode = gc.get("mode")
    sfx = SFX[mode]
    if only is None:
        if mode is None:
            xs = positions_1d(ncols, xll, csz)
            ys = positions_1d(nrows, yll, csz)
        else:
            # size ladder: sparse columns / rows; huge grids: quarter-cell insets (2^-29 cell is below the
            # resolution of (x - xll)/csz when the index exceeds 2^24)
            inset = EPS if mode == "ladder" else 0.25
            xs = positions_1d(ncols, xll, csz, coarse_indices(ncols), inset)
            ys = positions_1d(nrows, yll, csz, coarse_indices(nrows), inset)
        # positions must be strictly increasing (distinctness of cases)
        fx = [p[0] for p in xs]
        fy = [p[0] for p in ys]
        if any(b <= a for a, b in zip(fx, fx[1:])) or any(b <= a for a, b in zip(fy, fy[1:])):
            ctx.count("dropped.grid_positions_not_increasing")
            return
    else:
        xs = [(only[0], only[2])]
        ys = [(only[1], only[3])]
    cx = [classify_1d(p[0], ncols, xll, csz) for p in xs]
    cy = [classify_1d(p[0], nrows, yll, csz) for p in ys]
    pts = np.array([[px[0], py[0]] for px in xs for py in ys], dtype=np.float64)
    try:
        res = g.coord2cell(pts)
    except Exception as e:
        ctx.case(True, n=len(pts))
        ctx.violation("coord2cell:raised:%s" % type(e).__name__ + sfx, dict(gc, kind="coord2cell-call"),
                      "coord2cell raised %r on finite coordinates" % (e,))
        return
    if res.shape != (len(pts),):
        ctx.case(True, n=len(pts))
        ctx.violation("coord2cell:shape" + sfx, dict(gc, kind="coord2cell-call"),
                      "result shape %r for %d points" % (res.shape, len(pts)))
        return
    njudged = ndropped = 0
    k = 0
    for ix, (sx, jx, okx) in enumerate(cx):
        for iy, (sy, jy, oky) in enumerate(cy):
            obs = int(res[k])
            x, y = float(pts[k, 0]), float(pts[k, 1])
            k += 1
            # a point is judged when every coordinate that decides the answer has its margin.
            # outside on one axis with margin => -1 whatever the other axis does.
            if (sx != 0 and okx) or (sy != 0 and oky):
                expected = -1
            elif sx == 0 and sy == 0 and okx and oky:
                expected = (nrows - 1 - jy) * ncols + jx
            else:
                ndropped += 1
                continue
            njudged += 1
            if obs == expected:
                if expected < 0:
                    ctx.count("coord2cell.outside.%s" % side_name(sx, sy))
                else:
                    ctx.count("coord2cell.inside.%s" % ("centre" if xs[ix][1] == "centre" and ys[iy][1] == "centre" else "edge-inset"))
                continue
            case = dict(gc, kind="coord2cell", x=x, y=y, xtag=xs[ix][1], ytag=ys[iy][1])
            if expected < 0:
                side = side_name(sx, sy)
                if obs >= 0:
                    key = "coord2cell:outside-%s-mapped-inside" % side
                else:
                    key = "coord2cell:outside-%s-bad-flag" % side
                ctx.violation(key + sfx, case,
                              "point (%r, %r) lies %s of the extent x[%r, %r] y[%r, %r] of a %dx%d grid (cellsize %r) "
                              "but coord2cell returned %d instead of -1" % (
                                  x, y, side, xll, xll + ncols * csz, yll, yll + nrows * csz, nrows, ncols, csz, obs),
                              observed=obs, expected=-1)
            else:
                cls = "centre" if xs[ix][1] == "centre" and ys[iy][1] == "centre" else "edge-inset"
                key = ("coord2cell:inside-mapped-outside:%s" if obs < 0 else "coord2cell:inside-wrong-cell:%s") % cls
                ctx.violation(key + sfx, case,
                              "point (%r, %r) lies inside cell %d (row %d, col %d) of a %dx%d grid (cellsize %r, "
                              "xll %r, yll %r) but coord2cell returned %d" % (
                                  x, y, expected, nrows - 1 - jy, jx, nrows, ncols, csz, xll, yll, obs),
                              observed=obs, expected=expected)
    if njudged:
        ctx.case(True, outcome=res.tobytes(), n=njudged)
    if ndropped:
        ctx.count("dropped.margin", ndropped)
    if only is None:
        # scalar-pair form must agree with the vector form
        try:
            r1 = g.coord2cell(pts[0])
            if r1.shape != (1,) or int(r1[0]) != int(res[0]):
                ctx.violation("coord2cell:single-point-form" + sfx, dict(gc, kind="coord2cell-call"),
                              "coord2cell(pair) = %r differs from the vector call %r" % (r1.tolist(), int(res[0])))
        except Exception as e:
            ctx.violation("coord2cell:single-point-form" + sfx, dict(gc, kind="coord2cell-call"),
                          "coord2cell(pair) raised %r" % (e,))


def invalid_cells(ntot):
    return [-1, -7, ntot, ntot + 5, 2 ** 40]


def exact_centre(gc, c):
    row, col = divmod(c, gc["ncols"])
    ex = Fraction(gc["xll"]) + Fraction(gc["csz"]) * (Fraction(col) + Fraction(1, 2))
    ey = Fraction(gc["yll"]) + Fraction(gc["csz"]) * (Fraction(gc["nrows"] - 1 - row) + Fraction(1, 2))
    return ex, ey


def close(obs, exact, gc, origin):
    if not math.isfinite(obs):
        return False
    tol = Fraction(2) ** -45 * max(abs(Fraction(origin)), abs(exact), Fraction(gc["csz"]))
    return abs(Fraction(obs) - exact) <= tol


def check_cells(ctx, g, gc):
    nrows, ncols = gc["nrows"], gc["ncols"]
    ntot = nrows * ncols
    valid = list(range(ntot))
    inval = invalid_cells(ntot)
    allc = valid + inval
    base = dict(gc, kind="cells")

    # ---- cell2coord (vector call mixing valid and invalid)
    try:
        xy = g.cell2coord(allc)
    except Exception as e:
        xy = None
        # an error for a vector that contains invalid cells is an acceptable flag;
        # then the valid cells are judged through a valid-only call
        ctx.count("cell2coord.mixed_call_raised")
    try:
        xyv = g.cell2coord(valid)
    except Exception as e:
        ctx.case(True, n=ntot)
        ctx.violation("cell2coord:raised:%s" % type(e).__name__, base, "cell2coord raised %r on valid cells" % (e,))
        xyv = None
    if xyv is not None:
        ctx.case(True, outcome=xyv.tobytes(), n=ntot)
        if xyv.shape != (ntot, 2):
            ctx.violation("cell2coord:shape", base, "shape %r for %d cells" % (xyv.shape, ntot))
            xyv = None
    if xyv is not None:
        for c in valid:
            ex, ey = exact_centre(gc, c)
            ox, oy = float(xyv[c, 0]), float(xyv[c, 1])
            if not (close(ox, ex, gc, gc["xll"]) and close(oy, ey, gc, gc["yll"])):
                ctx.violation("cell2coord:not-centre", dict(base, cell=c),
                              "cell %d of a %dx%d grid: centre is (%r, %r), cell2coord returned (%r, %r)" % (
                                  c, nrows, ncols, float(ex), float(ey), ox, oy),
                              observed=[ox, oy], expected=[float(ex), float(ey)])
            if xy is not None and xy.shape == (len(allc), 2):
                if xy[c, 0] != xyv[c, 0] or xy[c, 1] != xyv[c, 1]:
                    ctx.violation("cell2coord:valid-changed-by-invalid-neighbours", dict(base, cell=c),
                                  "cell %d: %r in a call that also holds invalid cells, %r alone" % (
                                      c, xy[c].tolist(), xyv[c].tolist()))
        # round trip
        try:
            back = g.coord2cell(xyv)
            ctx.case(True, outcome=back.tobytes(), n=ntot)
            for c in valid:
                if int(back[c]) != c:
                    ctx.violation("roundtrip:coord2cell(cell2coord(c))", dict(base, cell=c),
                                  "coord2cell(cell2coord(%d)) = %d on a %dx%d grid (cellsize %r, xll %r, yll %r)" % (
                                      c, int(back[c]), nrows, ncols, gc["csz"], gc["xll"], gc["yll"]),
                                  observed=int(back[c]), expected=c)
                else:
                    ctx.count("roundtrip.ok")
        except Exception as e:
            ctx.case(True, n=ntot)
            ctx.violation("roundtrip:raised", base, "coord2cell(cell2coord(valid)) raised %r" % (e,))
    # invalid cells, one at a time and (when the mixed call returned) in the mixed vector
    for i, c in enumerate(inval):
        case = dict(base, cell=c)
        flagged = False
        try:
            one = g.cell2coord(c)
            flagged = bool(np.isnan(one).any())
            obs = one.tolist()
        except Exception as e:
            flagged = True
            obs = repr(e)
        ctx.case(True, outcome=repr(obs))
        if not flagged:
            ctx.violation("cell2coord:invalid-cell-not-flagged", case,
                          "invalid cell number %d of a %dx%d grid mapped to coordinates %r" % (c, nrows, ncols, obs),
                          observed=obs)
        else:
            ctx.count("cell2coord.invalid_flagged")
        if xy is not None and xy.shape == (len(allc), 2):
            if not np.isnan(xy[ntot + i]).any():
                ctx.violation("cell2coord:invalid-cell-not-flagged:in-vector", case,
                              "invalid cell number %d inside a vector mapped to %r" % (c, xy[ntot + i].tolist()))

    # ---- cell2rowcol
    try:
        rcv = g.cell2rowcol(valid)
    except Exception as e:
        ctx.case(True, n=ntot)
        ctx.violation("cell2rowcol:raised:%s" % type(e).__name__, base, "cell2rowcol raised %r on valid cells" % (e,))
        rcv = None
    if rcv is not None:
        ctx.case(True, outcome=rcv.tobytes(), n=ntot)
        if rcv.shape != (ntot, 2):
            ctx.violation("cell2rowcol:shape", base, "shape %r for %d cells" % (rcv.shape, ntot))
        else:
            for c in valid:
                exp = list(divmod(c, ncols))
                if [int(rcv[c, 0]), int(rcv[c, 1])] != exp:
                    ctx.violation("cell2rowcol:value", dict(base, cell=c),
                                  "cell %d of a %dx%d grid is (row, col) = %r, got %r" % (c, nrows, ncols, exp, rcv[c].tolist()),
                                  observed=rcv[c].tolist(), expected=exp)
    try:
        rca = g.cell2rowcol(allc)
    except Exception:
        rca = None
        ctx.count("cell2rowcol.mixed_call_raised")
    for i, c in enumerate(inval):
        case = dict(base, cell=c)
        try:
            one = g.cell2rowcol(c)
            flagged = bool((one < 0).any())
            obs = one.tolist()
        except Exception as e:
            flagged = True
            obs = repr(e)
        ctx.case(True, outcome=repr(obs))
        if not flagged:
            ctx.violation("cell2rowcol:invalid-cell-not-flagged", case,
                          "invalid cell number %d of a %dx%d grid mapped to (row, col) %r" % (c, nrows, ncols, obs), observed=obs)
        else:
            ctx.count("cell2rowcol.invalid_flagged")
        if rca is not None and rca.shape == (len(allc), 2):
            if not (rca[ntot + i] < 0).any():
                ctx.violation("cell2rowcol:invalid-cell-not-flagged:in-vector", case,
                              "invalid cell number %d inside a vector mapped to %r" % (c, rca[ntot + i].tolist()))
    if rca is not None and rcv is not None and rca.shape == (len(allc), 2) and rcv.shape == (ntot, 2):
        if not (rca[:ntot] == rcv).all():
            ctx.violation("cell2rowcol:valid-changed-by-invalid-neighbours", base,
                          "valid cells get different rows/cols when the vector also holds invalid cells")

    # ---- neighbours
    nb = {}
    for c in valid:
        case = dict(base, cell=c)
        try:
            v = g.neighbours(c)
        except Exception as e:
            ctx.case(True)
            ctx.violation("neighbours:raised:%s" % type(e).__name__, case, "neighbours(%d) raised %r" % (c, e))
            continue
        ctx.case(True, outcome=v.tobytes())
        if v.shape != (9,):
            ctx.violation("neighbours:shape", case, "neighbours(%d) has shape %r, expected 9 slots" % (c, v.shape))
            continue
        nb[c] = [int(t) for t in v]
    for c, v in nb.items():
        case = dict(base, cell=c)
        row, col = divmod(c, ncols)
        exp = []
        for k in range(9):
            dr, dc = k // 3 - 1, k % 3 - 1
            r2, c2 = row + dr, col + dc
            if k == 4 or r2 < 0 or r2 >= nrows or c2 < 0 or c2 >= ncols:
                exp.append(-1)
            else:
                exp.append(r2 * ncols + c2)
        edge = (row in (0, nrows - 1)) or (col in (0, ncols - 1))
        ctx.count("neighbours.%s" % ("edge_cell" if edge else "interior_cell"))
        if v[4] != -1:
            ctx.violation("neighbours:self-slot-not-minus1", case, "slot 4 of neighbours(%d) is %d" % (c, v[4]), observed=v)
        for k in range(9):
            if k == 4:
                continue
            d = v[k]
            if exp[k] == -1 and d != -1:
                ctx.violation("neighbours:off-grid-not-minus1", case,
                              "neighbours(%d) slot %d points off the %dx%d grid but holds %d" % (c, k, nrows, ncols, d),
                              observed=v, expected=exp)
            elif exp[k] != -1 and d != exp[k]:
                ctx.violation("neighbours:wrong-cell", case,
                              "neighbours(%d) slot %d should be cell %d on a %dx%d grid, got %d" % (c, k, exp[k], nrows, ncols, d),
                              observed=v, expected=exp)
            if d >= 0:
                # symmetric and mirrored
                if d not in nb:
                    if not (0 <= d < ntot):
                        ctx.violation("neighbours:not-a-cell", case, "neighbours(%d) slot %d = %d is not a cell" % (c, k, d), observed=v)
                    continue
                if nb[d][8 - k] != c:
                    ctx.violation("neighbours:not-symmetric-mirrored", case,
                                  "neighbours(%d)[%d] = %d but neighbours(%d)[%d] = %d" % (c, k, d, d, 8 - k, nb[d][8 - k]),
                                  observed=[v, nb[d]])
                else:
                    ctx.count("neighbours.mirror_pairs")
    for c in inval:
        case = dict(base, cell=c)
        try:
            v = g.neighbours(c)
            flagged = bool((v < 0).all())
            obs = v.tolist()
        except Exception as e:
            flagged = True
            obs = repr(e)
        ctx.case(True, outcome=repr(obs))
        if not flagged:
            ctx.violation("neighbours:invalid-cell-not-flagged", case,
                          "neighbours(%d) on a %dx%d grid returned %r" % (c, nrows, ncols, obs), observed=obs)
        else:
            ctx.count("neighbours.invalid_flagged")

    # ---- xvalues / yvalues / xlim / ylim
    try:
        xv, yv, xl, yl = g.xvalues, g.yvalues, g.xlim, g.ylim
    except Exception as e:
        ctx.case(True)
        ctx.violation("xyvalues:raised", base, "xvalues/yvalues/xlim/ylim raised %r" % (e,))
        return
    ctx.case(True, outcome=xv.tobytes() + yv.tobytes(), n=4)
    okx = len(xv) == ncols and all(close(float(xv[j]), exact_centre(gc, j)[0], gc, gc["xll"]) for j in range(ncols))
    oky = len(yv) == nrows and all(close(float(yv[i]), exact_centre(gc, i * ncols)[1], gc, gc["yll"]) for i in range(nrows))
    if not okx:
        ctx.violation("xvalues:not-column-centres", base, "xvalues %r are not the column centres" % (xv.tolist(),), observed=xv.tolist())
    if not oky:
        ctx.violation("yvalues:not-row-centres", base, "yvalues %r are not the row centres (top to bottom)" % (yv.tolist(),), observed=yv.tolist())
    fx, fy, fc = Fraction(gc["xll"]), Fraction(gc["yll"]), Fraction(gc["csz"])
    if not (len(xl) == 2 and close(float(xl[0]), fx, gc, gc["xll"]) and close(float(xl[1]), fx + ncols * fc, gc, gc["xll"])):
        ctx.violation("xlim:not-extent", base, "xlim %r" % (tuple(map(float, xl)),))
    if not (len(yl) == 2 and close(float(yl[0]), fy, gc, gc["yll"]) and close(float(yl[1]), fy + nrows * fc, gc, gc["yll"])):
        ctx.violation("ylim:not-extent", base, "ylim %r" % (tuple(map(float, yl)),))


def run_unit(unit, ctx):
    nrows, ncols, csz = unit["nrows"], unit["ncols"], unit["csz"]
    first = True
    for ox in unit["origins"]:
        for oy in unit["origins"]:
            xll, yll = csz * ox, csz * oy
            gc = geom_case(nrows, ncols, csz, xll, yll)
            if first:
                ctx.case(False, n=0, sample=dict(gc, kind="cells"))
                first = False
            g = make_grid(nrows, ncols, csz, xll, yll)
            ctx.count("grids")
            check_coord2cell(ctx, g, gc)
            check_cells(ctx, g, gc)
    # history: ONE grid object whose origin is re-assigned through its public attributes between queries
    # (anything memoised on the object must follow); the case records where the grid came from
    gm = None
    prev = None
    for ox in unit["origins"]:
        for oy in unit["origins"]:
            xll, yll = csz * ox, csz * oy
            gc = dict(geom_case(nrows, ncols, csz, xll, yll), moved_from=prev)
            if gm is None:
                gm = make_grid(nrows, ncols, csz, xll, yll)
            else:
                touch_grid(gm)
                gm.xllcorner = np.float64(xll)
                gm.yllcorner = np.float64(yll)
            ctx.count("grids_moved")
            check_cells(ctx, gm, gc)
            prev = [xll, yll]


def replay(case):
    from mc.explore import Result

    class All(Result):          # keep every violation of the replayed grid (no per-key cap)
        def violation(self, key, case, msg, observed=None, expected=None):
            self.nviol += 1
            self.violations.setdefault(key, []).append(
                {"key": key, "case": case, "msg": msg, "observed": observed, "expected": expected})
    ctx = All()
    gc = geom_case(case["nrows"], case["ncols"], case["csz"], case["xll"], case["yll"])
    if case.get("moved_from"):
        # the grid was created elsewhere, queried, and then moved by attribute assignment
        g = make_grid(gc["nrows"], gc["ncols"], gc["csz"], case["moved_from"][0], case["moved_from"][1])
        touch_grid(g)
        g.xllcorner = np.float64(gc["xll"])
        g.yllcorner = np.float64(gc["yll"])
        gc = dict(gc, moved_from=case["moved_from"])
    else:
        g = make_grid(gc["nrows"], gc["ncols"], gc["csz"], gc["xll"], gc["yll"])
    if case.get("kind") == "coord2cell":
        check_coord2cell(ctx, g, gc, only=(case["x"], case["y"], case.get("xtag", ""), case.get("ytag", "")))
    elif case.get("kind") == "coord2cell-call":
        check_coord2cell(ctx, g, gc)
    else:
        check_cells(ctx, g, gc)
        if "cell" in case:
            c = case["cell"]
            return [v for lst in ctx.violations.values() for v in lst
                    if v["case"].get("cell", c) == c]
    return [v for lst in ctx.violations.values() for v in lst]
