"""C07 - Grid cell numbers <-> rows/columns <-> coordinates <-> neighbours.

Space (crossed fully):
  grid geometry = (nrows, ncols) x cellsize x (xll, yll) = cellsize x ORIGIN x ORIGIN
  per grid:
    coord2cell : the full product X x Y of 1-D query positions, where the 1-D list
                 holds, per column (row), {lower edge + e, centre, upper edge - e}
                 (e = 2^-29 cell ~ 1.9e-9) and, on each side of the extent, the
                 distances {e, 0.5, 1-e, 1, 1.5, 100, 1e6} cells.  The product therefore
                 contains 9 points per cell (centre, 4 corners, 4 edge mid-points,
                 all inset), points outside on the 4 sides (level with every row /
                 column position) and on the 4 diagonals at every pair of distances.
    cell2coord / cell2rowcol / neighbours : every valid cell and the invalid cell
                 numbers {-1, -7, ntot, ntot+5, 2^40}; xvalues/yvalues/xlim/ylim.
Size ladder (added): grids with nrows, ncols in {1, 2, 16, 17, 255, 256, 257, 1000} (strips 1xN / Nx1, squares, mixed
  shapes; thorough: the whole ladder 7..4097, 10001, 65535..65537 as strips) queried on a SPARSE structured set of
  cells (rows/columns next to both ends, the middle and every power of two, crossed with 5 columns/rows; a 17-cell
  diagonal; the cells numbered 2^15, 2^16, 2^31, 2^32 +- 2) with the same Fraction oracle; one really constructed
  14000 x 14000 int8 grid (196 MB of untouched zero pages) and geometry-only grids (a 1x1 Grid whose nrows / ncols
  attributes are re-assigned: the constructor allocates nrows*ncols cells, the functions judged here never read them)
  of 70000^2, 65536^2, 46341^2, 1 x (2^32+7), (2^31+11) x 3 ... cells for cell numbers around 2^31 and 2^32.
Layouts (added, differential): on the first grid of every unit and on the ladder grids the same cell numbers as
  list / tuple / int16 / int32 / uint32 / big-endian / strided / reversed / read-only / integer-valued float64, the same
  points as list / float32 (exactly representable points only) / int32 / int64 (integer points only) / Fortran order /
  strided rows or columns / reversed / read-only / big-endian, and neighbours(c) for numpy scalar types of c must
  give the result of the int64 / float64 C-contiguous call (a layout refused with an exception is counted).
Oracle: exact Fraction arithmetic on the float inputs (the float query coordinate is
  taken as given; T = (x - xll)/csz is computed exactly) decides column / row / side and
  the safety margin; points closer than max(1e-9, 64 u max(1,|T|,|x|/csz,|xll|/csz))
  cells to a cell edge (inside) or to the extent (outside) are dropped and counted.
"""
import math
from fractions import Fraction
import numpy as np

ID = "C07"
# computational entry points whose results are watched by the engine's retained-result oracle (mc/explore.py)
RETAIN = [('hydrodiy.gis.grid', 'Grid.neighbours'), ('hydrodiy.gis.grid', 'Grid.cell2coord'), ('hydrodiy.gis.grid', 'Grid.coord2cell'), ('hydrodiy.gis.grid', 'Grid.cell2rowcol')]
TECHNIQUE = ("bounded exhaustive enumeration of grid geometries x query points x cell numbers on the "
             "real Grid methods, judged by an exact Fraction model of the grid")
RULE = ("every grid geometry (nrows, ncols) x cellsize x xll x yll of the tier's alphabets; per grid the "
        "full product of 1-D query positions (3 per column/row inset by 2^-29 cell, 7 distances outside on "
        "each side) through Grid.coord2cell, and every valid + 5 invalid cell numbers through cell2coord, "
        "cell2rowcol, neighbours, plus xvalues/yvalues/xlim/ylim. A case is one (grid, query point) or one "
        "(grid, cell number, method); coord2cell cases are non-trivial when the exact model judges them "
        "(margin respected), cell cases always. Cases are distinct by construction (nested enumeration of "
        "distinct alphabet values; duplicate 1-D positions cannot occur because positions are strictly "
        "increasing in exact arithmetic, which is asserted). SIZE LADDER: one unit per large shape (dimensions in "
        "{1,2,16,17,255,256,257,1000}, thorough the whole ladder up to 65537) x 3-6 cell sizes x 3-5 origins: the sparse "
        "cell set (ends, middle, indices next to powers of two, diagonal, cell numbers next to 2^15/2^16/2^31/2^32) "
        "through cell2rowcol / cell2coord / round trip / neighbours (+ the neighbours' own answers for the mirror "
        "relation) / 14 invalid numbers (including numbers whose low 32 bits are a valid cell) / xvalues / yvalues, "
        "and coord2cell on the product of the sparse 1-D positions; 1 constructed 14000^2 grid and 9 geometry-only "
        "grids up to 70000^2 and 1 x (2^32+7). LAYOUTS: differential re-execution of the same queries in 10-11 "
        "containers / dtypes / stride patterns per function on the first grid of each unit and 2-3 grids per ladder "
        "shape.")
ASSUMPTIONS = [
    "query coordinates are the float64 values actually passed; the exact model works on those floats, so only the rounding of (x-xll)/csz inside the implementation is absorbed by the margin",
    "points closer than max(1e-9, 64*2^-53*max(1,|T|,|x|/csz,|xll|/csz)) cell sizes to a cell edge are dropped (counted in dropped.margin), as the quantifier says 'away from edges by 1e-9 relative'",
    "cell2coord centre compared with the exact centre to 2^-45 * max(|origin|, |centre|, cellsize) (about 256 ulp)",
    "neighbours returns 9 slots laid out 0 1 2 / 3 X 5 / 6 7 8 (C source comment); slot 4 (the cell itself) must be -1; the Python docstring's 8-slot picture is taken as a documentation slip, not judged",
    "an invalid cell number counts as flagged when the method raises, or cell2coord yields a NaN, or cell2rowcol yields a negative entry, or neighbours yields only -1",
    "coordinates beyond 1e6 cells from the grid, NaN/inf coordinates and cell numbers beyond 2^40 are outside the bound",
    "extension modules rebuilt from the working tree C sources; Cython wrapper C not re-translated",
    "size ladder: Grid(...) allocates nrows*ncols cells (numpy zeros, never touched by the functions judged here); the largest really constructed grid is 14000x14000 int8 (196 MB virtual); grids with more than 2^31 cells are geometry-only: a 1x1 Grid whose public nrows/ncols attributes are re-assigned. An exception raised on such a grid is not judged (counted unjudged.virtual_grid.*), a wrong number is",
    "on huge grids the off-centre query points sit a quarter cell from the edges (2^-29 cell is not resolvable when the column index exceeds 2^24); the Fraction margin rule is unchanged",
    "layout variants: only values that are exactly representable in the other dtype are converted (float32 / int32 / int64 points, int16 / int32 / uint32 cell numbers); a layout the method refuses with a Python exception is accepted and counted (layout.rejected.*); a different answer is a violation <function>:layout=<name>",
    "xvalues / yvalues of ladder grids: exact centres at the sparse indices, strict monotonicity in between",
]

EPS = 2.0 ** -29
U = 2.0 ** -53
DISTS = [EPS, 0.5, 1.0 - EPS, 1.0, 1.5, 100.0, 1.0e6]
ORIGINS = [0.0, 0.5, -0.5, 7.3, -7.3, 1.0e4, -1.0e4]
SEED_ORIGINS = [123.456, -2047.75, 0.001, -9999.9, 31.0, -0.3]
SEED_CSZ = [0.0123, 37.5, 7.0e-3, 2.0 ** 12, 1.0e-2, 5.0e4]


def sizes(tier):
    return [1, 2, 3] if tier == "quick" else [1, 2, 3, 5, 8, 13]


def cellsizes(tier, seed):
    if tier == "quick":
        return [2.0 ** -10, 0.1, 1.0, 1000.0]
    return [2.0 ** -10, 0.1, 0.25, 1.0, 3.0, 1000.0, 1.0e5, SEED_CSZ[seed % len(SEED_CSZ)]]


def origins(tier, seed):
    return ORIGINS + [SEED_ORIGINS[seed % len(SEED_ORIGINS)]]


def bound_text(tier, seed):
    return ("nrows, ncols in %s; cellsize in %s; xll, yll = cellsize x %s (all pairs); per grid "
            "(3*ncols+14) x (3*nrows+14) query points (inset 2^-29 cell; outside distances %s cells), all valid "
            "cells and invalid cells {-1,-7,ntot,ntot+5,2^40}; size ladder: shapes %s x cellsize %s x origins "
            "(in cell sizes) %s, sparse cells (<= ~330 per grid) and sparse coord2cell products; constructed big grid "
            "%s, geometry-only grids %s; layout variants on the first grid of every unit and on 2-3 grids per ladder shape" % (
                sizes(tier), cellsizes(tier, seed), origins(tier, seed), DISTS,
                ladder_shapes(tier), ladder_cellsizes(tier, seed), ladder_origins(tier, seed),
                [list(b[1:]) for b in BIG_SHAPES], [list(b[1:]) for b in VIRTUAL_SHAPES]))


LADDER_DIMS = [1, 2, 16, 17, 255, 256, 257, 1000]


def ladder_shapes(tier):
    """(nrows, ncols) of the size ladder: strips 1xN / Nx1, squares, and a few mixed shapes"""
    sh = []
    for n in LADDER_DIMS[2:]:
        sh += [(1, n), (n, 1)]
    for n in (16, 17, 255, 256, 257, 1000):
        sh.append((n, n))
    sh += [(257, 3), (3, 257), (256, 17), (17, 256), (1000, 2), (2, 1000), (255, 257), (257, 255), (16, 1000)]
    # dense range: every shape up to 12 x 12 (24 x 24 thorough) - all cells of these grids are queried
    dmax = 12 if tier == "quick" else 24
    have = set(sh)
    sh += [(r, c) for r in range(1, dmax + 1) for c in range(1, dmax + 1)
           if (r, c) not in have and not (r in sizes(tier) and c in sizes(tier))]
    if tier != "quick":
        for n in (7, 8, 9, 31, 32, 33, 63, 64, 65, 100, 127, 128, 129, 500, 511, 512, 513, 1001, 1023, 1024, 1025,
                  4095, 4096, 4097, 10001, 65535, 65536, 65537):
            sh += [(1, n), (n, 1)]
        sh += [(2047, 2049), (2049, 2047), (4096, 4096), (65537, 3), (3, 65537), (1025, 1023)]
    return sh


# huge grids. "big": really constructed, one byte per cell (196 MB of untouched zero pages).
# "virtual": geometry only (see make_grid), cell numbers around 2^31 and 2^32.
BIG_SHAPES = [("big", 14000, 14000)]
VIRTUAL_SHAPES = [("virtual", 70000, 70000), ("virtual", 65536, 65536), ("virtual", 46341, 46341),
                  ("virtual", 46340, 46341), ("virtual", 1, 2 ** 32 + 7), ("virtual", 2 ** 32 + 7, 1),
                  ("virtual", 3, 2 ** 31 + 11), ("virtual", 2 ** 31 + 11, 3), ("virtual", 2 ** 16 + 1, 2 ** 16 - 1)]


def ladder_cellsizes(tier, seed):
    if tier == "quick":
        return [2.0 ** -10, 0.1, 1.0]
    return [2.0 ** -10, 0.1, 0.25, 1.0, 1000.0, SEED_CSZ[seed % len(SEED_CSZ)]]


def ladder_origins(tier, seed):
    o = [[0.0, 0.0], [7.3, -1.0e4], [-0.5, 0.5]]
    if tier != "quick":
        so = SEED_ORIGINS[seed % len(SEED_ORIGINS)]
        o += [[-1.0e4, 7.3], [so, -so]]
    return o


def units(tier, seed):
    us = []
    for nrows in sizes(tier):
        for ncols in sizes(tier):
            for csz in cellsizes(tier, seed):
                us.append({"nrows": nrows, "ncols": ncols, "csz": csz,
                           "origins": origins(tier, seed)})
    for nrows, ncols in ladder_shapes(tier):
        us.append({"kind": "ladder", "mode": "ladder", "nrows": nrows, "ncols": ncols,
                   "cellsizes": ladder_cellsizes(tier, seed), "origins": ladder_origins(tier, seed)})
    for mode, nrows, ncols in BIG_SHAPES + VIRTUAL_SHAPES:
        us.append({"kind": "ladder", "mode": mode, "nrows": nrows, "ncols": ncols,
                   "cellsizes": [1.0, 0.1] if tier == "quick" else [1.0, 0.1, 2.0 ** -10, 1000.0],
                   "origins": [[0.0, 0.0], [7.3, -1.0e4]]})
    return us


# ---------------------------------------------------------------------------
# exact model

BIG_DISTS = [0.25, 0.5, 0.75, 1.0, 1.5, 100.0, 1.0e6]       # huge grids: 2^-29 cell is below the resolution of the extent


def positions_1d(n, ll, csz, idx=None, inset=EPS, dists=None):
    """float query positions along one axis: list of (float x, tag).
    idx = optional increasing subset of the n column (row) indices (size ladder: sparse queries);
    inset = distance of the two off-centre points of a cell from its edges (in cells)"""
    out = []
    dists = DISTS if dists is None else dists
    for d in reversed(dists):
        out.append((ll - csz * d, "out-lo"))
    for j in (range(n) if idx is None else idx):
        out.append((ll + csz * (j + inset), "edge-inset"))
        out.append((ll + csz * (j + 0.5), "centre"))
        out.append((ll + csz * (j + 1 - inset), "edge-inset"))
    ur = ll + csz * n
    for d in dists:
        out.append((ur + csz * d, "out-hi"))
    return out


def classify_1d(x, n, ll, csz):
    """exact position of float x on the axis -> (side, index, judged)
    side in {-1 (below/left), 0 (inside), +1 (above/right)}; index = exact floor(T) when inside"""
    T = (Fraction(x) - Fraction(ll)) / Fraction(csz)
    need = max(Fraction(1, 10 ** 9),
               Fraction(64 * U) * max(1, abs(T), abs(Fraction(x) / Fraction(csz)),
                                       abs(Fraction(ll) / Fraction(csz))))
    if T < 0:
        return -1, None, (-T) >= need
    if T >= n:
        return 1, None, (T - n) >= need
    k = math.floor(T)
    margin = min(T - k, k + 1 - T)
    return 0, k, margin >= need


SIDE_X = {-1: "left", 1: "right"}
SIDE_Y = {-1: "below", 1: "above"}


def side_name(sx, sy):
    return SIDE_X.get(sx, "") + ("-" if sx and sy else "") + SIDE_Y.get(sy, "")


def make_grid(nrows, ncols, csz, xll, yll, mode=None):
    from hydrodiy.gis.grid import Grid
    if mode == "virtual":
        # geometry-only grid: a 1x1 Grid whose public nrows / ncols attributes are re-assigned (the constructor
        # would allocate nrows*ncols cells; none of the functions judged here reads the data array)
        g = Grid("g", ncols=1, nrows=1, cellsize=csz, xllcorner=xll, yllcorner=yll)
        g.nrows = np.int64(nrows)
        g.ncols = np.int64(ncols)
        return g
    if mode == "big":
        # one byte per cell, zero-filled by the constructor (calloc: pages are never touched)
        return Grid("g", ncols=ncols, nrows=nrows, cellsize=csz, xllcorner=xll, yllcorner=yll, dtype=np.int8)
    return Grid("g", ncols=ncols, nrows=nrows, cellsize=csz, xllcorner=xll, yllcorner=yll)


def touch_grid(g):
    """read every derived quantity once (so that a memoising implementation fills its caches)"""
    try:
        g.xvalues, g.yvalues, g.xlim, g.ylim
        g.cell2coord(0)
        g.coord2cell([[float(g.xllcorner), float(g.yllcorner)]])
    except Exception:
        pass


def geom_case(nrows, ncols, csz, xll, yll, mode=None):
    gc = {"nrows": nrows, "ncols": ncols, "csz": csz, "xll": xll, "yll": yll}
    if mode:
        gc["mode"] = mode       # size ladder: "ladder" (sparse queries), "big" / "virtual" (huge grids)
    return gc


SFX = {None: "", "ladder": ":size-ladder", "big": ":big-grid", "virtual": ":big-grid-virtual"}


def check_coord2cell(ctx, g, gc, only=None):
    """only = optional (x, y) float pair restricting the check to one query point (replay)"""
    nrows, ncols, csz, xll, yll = gc["nrows"], gc["ncols"], gc["csz"], gc["xll"], gc["yll"]
    mode = gc.get("mode")
    sfx = SFX[mode]
    if only is None:
        if mode is None:
            xs = positions_1d(ncols, xll, csz)
            ys = positions_1d(nrows, yll, csz)
        else:
            # size ladder: sparse columns / rows; huge grids: quarter-cell insets (2^-29 cell is below the
            # resolution of (x - xll)/csz when the index exceeds 2^24)
            inset, dists = (EPS, DISTS) if mode == "ladder" else (0.25, BIG_DISTS)
            xs = positions_1d(ncols, xll, csz, coarse_indices(ncols), inset, dists)
            ys = positions_1d(nrows, yll, csz, coarse_indices(nrows), inset, dists)
        # positions must be strictly increasing (distinctness of cases)
        fx = [p[0] for p in xs]
        fy = [p[0] for p in ys]
        if any(b <= a for a, b in zip(fx, fx[1:])) or any(b <= a for a, b in zip(fy, fy[1:])):
            ctx.count("dropped.grid_positions_not_increasing")
            return
    else:
        xs = [(only[0], only[2])]
        ys = [(only[1], only[3])]
    cx = [classify_1d(p[0], ncols, xll, csz) for p in xs]
    cy = [classify_1d(p[0], nrows, yll, csz) for p in ys]
    pts = np.array([[px[0], py[0]] for px in xs for py in ys], dtype=np.float64)
    try:
        res = g.coord2cell(pts)
    except Exception as e:
        if mode == "virtual":
            ctx.count("unjudged.virtual_grid.coord2cell_raised")       # a resized grid may be refused
            return
        ctx.case(True, n=len(pts))
        ctx.violation("coord2cell:raised:%s" % type(e).__name__ + sfx, dict(gc, kind="coord2cell-call"),
                      "coord2cell raised %r on finite coordinates" % (e,))
        return
    if res.shape != (len(pts),):
        ctx.case(True, n=len(pts))
        ctx.violation("coord2cell:shape" + sfx, dict(gc, kind="coord2cell-call"),
                      "result shape %r for %d points" % (res.shape, len(pts)))
        return
    njudged = ndropped = 0
    k = 0
    for ix, (sx, jx, okx) in enumerate(cx):
        for iy, (sy, jy, oky) in enumerate(cy):
            obs = int(res[k])
            x, y = float(pts[k, 0]), float(pts[k, 1])
            k += 1
            # a point is judged when every coordinate that decides the answer has its margin.
            # outside on one axis with margin => -1 whatever the other axis does.
            if (sx != 0 and okx) or (sy != 0 and oky):
                expected = -1
            elif sx == 0 and sy == 0 and okx and oky:
                expected = (nrows - 1 - jy) * ncols + jx
            else:
                ndropped += 1
                continue
            njudged += 1
            if obs == expected:
                if expected < 0:
                    ctx.count("coord2cell.outside.%s" % side_name(sx, sy))
                else:
                    ctx.count("coord2cell.inside.%s" % ("centre" if xs[ix][1] == "centre" and ys[iy][1] == "centre" else "edge-inset"))
                continue
            case = dict(gc, kind="coord2cell", x=x, y=y, xtag=xs[ix][1], ytag=ys[iy][1])
            if expected < 0:
                side = side_name(sx, sy)
                if obs >= 0:
                    key = "coord2cell:outside-%s-mapped-inside" % side
                else:
                    key = "coord2cell:outside-%s-bad-flag" % side
                ctx.violation(key + sfx, case,
                              "point (%r, %r) lies %s of the extent x[%r, %r] y[%r, %r] of a %dx%d grid (cellsize %r) "
                              "but coord2cell returned %d instead of -1" % (
                                  x, y, side, xll, xll + ncols * csz, yll, yll + nrows * csz, nrows, ncols, csz, obs),
                              observed=obs, expected=-1)
            else:
                cls = "centre" if xs[ix][1] == "centre" and ys[iy][1] == "centre" else "edge-inset"
                key = ("coord2cell:inside-mapped-outside:%s" if obs < 0 else "coord2cell:inside-wrong-cell:%s") % cls
                ctx.violation(key + sfx, case,
                              "point (%r, %r) lies inside cell %d (row %d, col %d) of a %dx%d grid (cellsize %r, "
                              "xll %r, yll %r) but coord2cell returned %d" % (
                                  x, y, expected, nrows - 1 - jy, jx, nrows, ncols, csz, xll, yll, obs),
                              observed=obs, expected=expected)
    if njudged:
        ctx.case(True, outcome=res.tobytes(), n=njudged)
    if ndropped:
        ctx.count("dropped.margin", ndropped)
    if only is None:
        # scalar-pair form must agree with the vector form
        try:
            r1 = g.coord2cell(pts[0])
            if r1.shape != (1,) or int(r1[0]) != int(res[0]):
                ctx.violation("coord2cell:single-point-form" + sfx, dict(gc, kind="coord2cell-call"),
                              "coord2cell(pair) = %r differs from the vector call %r" % (r1.tolist(), int(res[0])))
        except Exception as e:
            ctx.violation("coord2cell:single-point-form" + sfx, dict(gc, kind="coord2cell-call"),
                          "coord2cell(pair) raised %r" % (e,))


def invalid_cells(ntot):
    return [-1, -7, ntot, ntot + 5, 2 ** 40]


def exact_centre(gc, c):
    row, col = divmod(c, gc["ncols"])
    ex = Fraction(gc["xll"]) + Fraction(gc["csz"]) * (Fraction(col) + Fraction(1, 2))
    ey = Fraction(gc["yll"]) + Fraction(gc["csz"]) * (Fraction(gc["nrows"] - 1 - row) + Fraction(1, 2))
    return ex, ey


def close(obs, exact, gc, origin):
    if not math.isfinite(obs):
        return False
    tol = Fraction(2) ** -45 * max(abs(Fraction(origin)), abs(exact), Fraction(gc["csz"]))
    return abs(Fraction(obs) - exact) <= tol


def check_cells(ctx, g, gc):
    nrows, ncols = gc["nrows"], gc["ncols"]
    ntot = nrows * ncols
    valid = list(range(ntot))
    inval = invalid_cells(ntot)
    allc = valid + inval
    base = dict(gc, kind="cells")

    # ---- cell2coord (vector call mixing valid and invalid)
    try:
        xy = g.cell2coord(allc)
    except Exception as e:
        xy = None
        # an error for a vector that contains invalid cells is an acceptable flag;
        # then the valid cells are judged through a valid-only call
        ctx.count("cell2coord.mixed_call_raised")
    try:
        xyv = g.cell2coord(valid)
    except Exception as e:
        ctx.case(True, n=ntot)
        ctx.violation("cell2coord:raised:%s" % type(e).__name__, base, "cell2coord raised %r on valid cells" % (e,))
        xyv = None
    if xyv is not None:
        ctx.case(True, outcome=xyv.tobytes(), n=ntot)
        if xyv.shape != (ntot, 2):
            ctx.violation("cell2coord:shape", base, "shape %r for %d cells" % (xyv.shape, ntot))
            xyv = None
    if xyv is not None:
        for c in valid:
            ex, ey = exact_centre(gc, c)
            ox, oy = float(xyv[c, 0]), float(xyv[c, 1])
            if not (close(ox, ex, gc, gc["xll"]) and close(oy, ey, gc, gc["yll"])):
                ctx.violation("cell2coord:not-centre", dict(base, cell=c),
                              "cell %d of a %dx%d grid: centre is (%r, %r), cell2coord returned (%r, %r)" % (
                                  c, nrows, ncols, float(ex), float(ey), ox, oy),
                              observed=[ox, oy], expected=[float(ex), float(ey)])
            if xy is not None and xy.shape == (len(allc), 2):
                if xy[c, 0] != xyv[c, 0] or xy[c, 1] != xyv[c, 1]:
                    ctx.violation("cell2coord:valid-changed-by-invalid-neighbours", dict(base, cell=c),
                                  "cell %d: %r in a call that also holds invalid cells, %r alone" % (
                                      c, xy[c].tolist(), xyv[c].tolist()))
        # round trip
        try:
            back = g.coord2cell(xyv)
            ctx.case(True, outcome=back.tobytes(), n=ntot)
            for c in valid:
                if int(back[c]) != c:
                    ctx.violation("roundtrip:coord2cell(cell2coord(c))", dict(base, cell=c),
                                  "coord2cell(cell2coord(%d)) = %d on a %dx%d grid (cellsize %r, xll %r, yll %r)" % (
                                      c, int(back[c]), nrows, ncols, gc["csz"], gc["xll"], gc["yll"]),
                                  observed=int(back[c]), expected=c)
                else:
                    ctx.count("roundtrip.ok")
        except Exception as e:
            ctx.case(True, n=ntot)
            ctx.violation("roundtrip:raised", base, "coord2cell(cell2coord(valid)) raised %r" % (e,))
    # invalid cells, one at a time and (when the mixed call returned) in the mixed vector
    for i, c in enumerate(inval):
        case = dict(base, cell=c)
        flagged = False
        try:
            one = g.cell2coord(c)
            flagged = bool(np.isnan(one).any())
            obs = one.tolist()
        except Exception as e:
            flagged = True
            obs = repr(e)
        ctx.case(True, outcome=repr(obs))
        if not flagged:
            ctx.violation("cell2coord:invalid-cell-not-flagged", case,
                          "invalid cell number %d of a %dx%d grid mapped to coordinates %r" % (c, nrows, ncols, obs),
                          observed=obs)
        else:
            ctx.count("cell2coord.invalid_flagged")
        if xy is not None and xy.shape == (len(allc), 2):
            if not np.isnan(xy[ntot + i]).any():
                ctx.violation("cell2coord:invalid-cell-not-flagged:in-vector", case,
                              "invalid cell number %d inside a vector mapped to %r" % (c, xy[ntot + i].tolist()))

    # ---- cell2rowcol
    try:
        rcv = g.cell2rowcol(valid)
    except Exception as e:
        ctx.case(True, n=ntot)
        ctx.violation("cell2rowcol:raised:%s" % type(e).__name__, base, "cell2rowcol raised %r on valid cells" % (e,))
        rcv = None
    if rcv is not None:
        ctx.case(True, outcome=rcv.tobytes(), n=ntot)
        if rcv.shape != (ntot, 2):
            ctx.violation("cell2rowcol:shape", base, "shape %r for %d cells" % (rcv.shape, ntot))
        else:
            for c in valid:
                exp = list(divmod(c, ncols))
                if [int(rcv[c, 0]), int(rcv[c, 1])] != exp:
                    ctx.violation("cell2rowcol:value", dict(base, cell=c),
                                  "cell %d of a %dx%d grid is (row, col) = %r, got %r" % (c, nrows, ncols, exp, rcv[c].tolist()),
                                  observed=rcv[c].tolist(), expected=exp)
    try:
        rca = g.cell2rowcol(allc)
    except Exception:
        rca = None
        ctx.count("cell2rowcol.mixed_call_raised")
    for i, c in enumerate(inval):
        case = dict(base, cell=c)
        try:
            one = g.cell2rowcol(c)
            flagged = bool((one < 0).any())
            obs = one.tolist()
        except Exception as e:
            flagged = True
            obs = repr(e)
        ctx.case(True, outcome=repr(obs))
        if not flagged:
            ctx.violation("cell2rowcol:invalid-cell-not-flagged", case,
                          "invalid cell number %d of a %dx%d grid mapped to (row, col) %r" % (c, nrows, ncols, obs), observed=obs)
        else:
            ctx.count("cell2rowcol.invalid_flagged")
        if rca is not None and rca.shape == (len(allc), 2):
            if not (rca[ntot + i] < 0).any():
                ctx.violation("cell2rowcol:invalid-cell-not-flagged:in-vector", case,
                              "invalid cell number %d inside a vector mapped to %r" % (c, rca[ntot + i].tolist()))
    if rca is not None and rcv is not None and rca.shape == (len(allc), 2) and rcv.shape == (ntot, 2):
        if not (rca[:ntot] == rcv).all():
            ctx.violation("cell2rowcol:valid-changed-by-invalid-neighbours", base,
                          "valid cells get different rows/cols when the vector also holds invalid cells")

    # ---- neighbours
    nb = {}
    for c in valid:
        case = dict(base, cell=c)
        try:
            v = g.neighbours(c)
        except Exception as e:
            ctx.case(True)
            ctx.violation("neighbours:raised:%s" % type(e).__name__, case, "neighbours(%d) raised %r" % (c, e))
            continue
        ctx.case(True, outcome=v.tobytes())
        if v.shape != (9,):
            ctx.violation("neighbours:shape", case, "neighbours(%d) has shape %r, expected 9 slots" % (c, v.shape))
            continue
        nb[c] = [int(t) for t in v]
    for c, v in nb.items():
        case = dict(base, cell=c)
        row, col = divmod(c, ncols)
        exp = []
        for k in range(9):
            dr, dc = k // 3 - 1, k % 3 - 1
            r2, c2 = row + dr, col + dc
            if k == 4 or r2 < 0 or r2 >= nrows or c2 < 0 or c2 >= ncols:
                exp.append(-1)
            else:
                exp.append(r2 * ncols + c2)
        edge = (row in (0, nrows - 1)) or (col in (0, ncols - 1))
        ctx.count("neighbours.%s" % ("edge_cell" if edge else "interior_cell"))
        if v[4] != -1:
            ctx.violation("neighbours:self-slot-not-minus1", case, "slot 4 of neighbours(%d) is %d" % (c, v[4]), observed=v)
        for k in range(9):
            if k == 4:
                continue
            d = v[k]
            if exp[k] == -1 and d != -1:
                ctx.violation("neighbours:off-grid-not-minus1", case,
                              "neighbours(%d) slot %d points off the %dx%d grid but holds %d" % (c, k, nrows, ncols, d),
                              observed=v, expected=exp)
            elif exp[k] != -1 and d != exp[k]:
                ctx.violation("neighbours:wrong-cell", case,
                              "neighbours(%d) slot %d should be cell %d on a %dx%d grid, got %d" % (c, k, exp[k], nrows, ncols, d),
                              observed=v, expected=exp)
            if d >= 0:
                # symmetric and mirrored
                if d not in nb:
                    if not (0 <= d < ntot):
                        ctx.violation("neighbours:not-a-cell", case, "neighbours(%d) slot %d = %d is not a cell" % (c, k, d), observed=v)
                    continue
                if nb[d][8 - k] != c:
                    ctx.violation("neighbours:not-symmetric-mirrored", case,
                                  "neighbours(%d)[%d] = %d but neighbours(%d)[%d] = %d" % (c, k, d, d, 8 - k, nb[d][8 - k]),
                                  observed=[v, nb[d]])
                else:
                    ctx.count("neighbours.mirror_pairs")
    for c in inval:
        case = dict(base, cell=c)
        try:
            v = g.neighbours(c)
            flagged = bool((v < 0).all())
            obs = v.tolist()
        except Exception as e:
            flagged = True
            obs = repr(e)
        ctx.case(True, outcome=repr(obs))
        if not flagged:
            ctx.violation("neighbours:invalid-cell-not-flagged", case,
                          "neighbours(%d) on a %dx%d grid returned %r" % (c, nrows, ncols, obs), observed=obs)
        else:
            ctx.count("neighbours.invalid_flagged")

    # ---- xvalues / yvalues / xlim / ylim
    try:
        xv, yv, xl, yl = g.xvalues, g.yvalues, g.xlim, g.ylim
    except Exception as e:
        ctx.case(True)
        ctx.violation("xyvalues:raised", base, "xvalues/yvalues/xlim/ylim raised %r" % (e,))
        return
    ctx.case(True, outcome=xv.tobytes() + yv.tobytes(), n=4)
    okx = len(xv) == ncols and all(close(float(xv[j]), exact_centre(gc, j)[0], gc, gc["xll"]) for j in range(ncols))
    oky = len(yv) == nrows and all(close(float(yv[i]), exact_centre(gc, i * ncols)[1], gc, gc["yll"]) for i in range(nrows))
    if not okx:
        ctx.violation("xvalues:not-column-centres", base, "xvalues %r are not the column centres" % (xv.tolist(),), observed=xv.tolist())
    if not oky:
        ctx.violation("yvalues:not-row-centres", base, "yvalues %r are not the row centres (top to bottom)" % (yv.tolist(),), observed=yv.tolist())
    fx, fy, fc = Fraction(gc["xll"]), Fraction(gc["yll"]), Fraction(gc["csz"])
    if not (len(xl) == 2 and close(float(xl[0]), fx, gc, gc["xll"]) and close(float(xl[1]), fx + ncols * fc, gc, gc["xll"])):
        ctx.violation("xlim:not-extent", base, "xlim %r" % (tuple(map(float, xl)),))
    if not (len(yl) == 2 and close(float(yl[0]), fy, gc, gc["yll"]) and close(float(yl[1]), fy + nrows * fc, gc, gc["yll"])):
        ctx.violation("ylim:not-extent", base, "ylim %r" % (tuple(map(float, yl)),))


# ---------------------------------------------------------------------------
# size ladder: large grids queried on a sparse, structured set of cells

THRESHOLDS = [7, 8, 9, 15, 16, 17, 31, 32, 33, 63, 64, 65, 127, 128, 129, 255, 256, 257, 511, 512, 513,
              999, 1000, 1001, 1023, 1024, 1025, 4095, 4096, 4097, 32767, 32768, 46340, 46341,
              65535, 65536, 65537, 2 ** 31 - 1, 2 ** 31, 2 ** 31 + 1, 2 ** 32 - 1, 2 ** 32, 2 ** 32 + 1]
COARSE_THRESHOLDS = [15, 16, 17, 255, 256, 257, 999, 1000, 65535, 65536, 2 ** 31 - 1, 2 ** 31, 2 ** 32 - 1, 2 ** 32]


def sparse_indices(n):
    """rows / columns of an axis of length n that are queried: both ends, the middle, and every index next to a
    power of two (or 1000, 46341 = ceil(sqrt(2^31))) below n"""
    s = set(k for k in (0, 1, 2, n // 2 - 1, n // 2, n - 3, n - 2, n - 1) if 0 <= k < n)
    s.update(t for t in THRESHOLDS if t < n)
    return sorted(s)


def small_indices(n):
    return sorted(set(k for k in (0, 1, n // 2, n - 2, n - 1) if 0 <= k < n))


def coarse_indices(n):
    s = set(small_indices(n))
    s.update(t for t in COARSE_THRESHOLDS if t < n)
    return sorted(s)


def sparse_cells(nrows, ncols):
    """sparse rows x few columns, few rows x sparse columns, a diagonal of 17 cells, and the cells whose NUMBER is
    next to 2^15, 2^16, 2^31, 2^32 (a 32-bit cell number / row*ncols product would wrap there)"""
    ntot = nrows * ncols
    R, C = sparse_indices(nrows), sparse_indices(ncols)
    Rs, Cs = small_indices(nrows), small_indices(ncols)
    cells = set(r * ncols + c for r in R for c in Cs)
    cells.update(r * ncols + c for r in Rs for c in C)
    for i in range(17):
        cells.add((i * (nrows - 1) // 16) * ncols + i * (ncols - 1) // 16)
    for p in (2 ** 15, 2 ** 16, 2 ** 31, 2 ** 32):
        for d in (-2, -1, 0, 1, 2):
            if 0 <= p + d < ntot:
                cells.add(p + d)
    # the row in which row*ncols crosses 2^31 / 2^32, at both ends
    for p in (2 ** 31, 2 ** 32):
        r = p // ncols
        for rr in (r - 1, r, r + 1):
            if 0 <= rr < nrows:
                cells.update((rr * ncols, rr * ncols + ncols - 1))
    return sorted(cells)


def invalid_cells_ext(ntot):
    """invalid cell numbers; beyond those of the exhaustive part: numbers whose low 32 bits are a valid cell"""
    cand = [-1, -7, ntot, ntot + 5, 2 ** 40, 2 ** 31, 2 ** 32, 2 ** 32 + ntot - 1, 2 ** 31 + ntot // 2,
            -2 ** 32, -2 ** 32 + ntot - 1, -2 ** 31, ntot + 2 ** 32, 2 ** 62]
    out = []
    for c in cand:
        if (c < 0 or c >= ntot) and c not in out:
            out.append(c)
    return out


def unjudged_or_violation(ctx, gc, key, case, msg):
    """an exception on a geometry-only ('virtual') grid is not judged: an implementation may legitimately
    refuse a grid whose dimensions were re-assigned; wrong numbers are judged"""
    if gc.get("mode") == "virtual":
        ctx.count("unjudged.virtual_grid.raised")
    else:
        ctx.violation(key, case, msg)


def check_cells_sparse(ctx, g, gc):
    nrows, ncols = gc["nrows"], gc["ncols"]
    ntot = nrows * ncols
    sfx = SFX[gc["mode"]]
    base = dict(gc, kind="cells-sparse")
    cells = sparse_cells(nrows, ncols)
    arr = np.array(cells, dtype=np.int64)
    inval = invalid_cells_ext(ntot)
    n = len(cells)
    ctx.count("ladder.sparse_cells", n)

    # ---- cell2rowcol
    try:
        rc = g.cell2rowcol(arr)
    except Exception as e:
        ctx.case(True, n=n)
        unjudged_or_violation(ctx, gc, "cell2rowcol:raised:%s" % type(e).__name__ + sfx, base,
                              "cell2rowcol raised %r on valid cells" % (e,))
        rc = None
    if rc is not None:
        ctx.case(True, outcome=rc.tobytes(), n=n)
        if rc.shape != (n, 2):
            ctx.violation("cell2rowcol:shape" + sfx, base, "shape %r for %d cells" % (rc.shape, n))
        else:
            for i, c in enumerate(cells):
                exp = list(divmod(c, ncols))
                if [int(rc[i, 0]), int(rc[i, 1])] != exp:
                    ctx.violation("cell2rowcol:value" + sfx, dict(base, cell=c),
                                  "cell %d of a %dx%d grid is (row, col) = %r, got %r" % (c, nrows, ncols, exp, rc[i].tolist()),
                                  observed=rc[i].tolist(), expected=exp)
    # ---- cell2coord and round trip
    try:
        xy = g.cell2coord(arr)
    except Exception as e:
        ctx.case(True, n=n)
        unjudged_or_violation(ctx, gc, "cell2coord:raised:%s" % type(e).__name__ + sfx, base,
                              "cell2coord raised %r on valid cells" % (e,))
        xy = None
    if xy is not None:
        ctx.case(True, outcome=xy.tobytes(), n=n)
        if xy.shape != (n, 2):
            ctx.violation("cell2coord:shape" + sfx, base, "shape %r for %d cells" % (xy.shape, n))
            xy = None
    if xy is not None:
        for i, c in enumerate(cells):
            ex, ey = exact_centre(gc, c)
            ox, oy = float(xy[i, 0]), float(xy[i, 1])
            if not (close(ox, ex, gc, gc["xll"]) and close(oy, ey, gc, gc["yll"])):
                ctx.violation("cell2coord:not-centre" + sfx, dict(base, cell=c),
                              "cell %d of a %dx%d grid: centre is (%r, %r), cell2coord returned (%r, %r)" % (
                                  c, nrows, ncols, float(ex), float(ey), ox, oy),
                              observed=[ox, oy], expected=[float(ex), float(ey)])
        try:
            back = g.coord2cell(xy)
            ctx.case(True, outcome=back.tobytes(), n=n)
            for i, c in enumerate(cells):
                if int(back[i]) != c:
                    ctx.violation("roundtrip:coord2cell(cell2coord(c))" + sfx, dict(base, cell=c),
                                  "coord2cell(cell2coord(%d)) = %d on a %dx%d grid (cellsize %r, xll %r, yll %r)" % (
                                      c, int(back[i]), nrows, ncols, gc["csz"], gc["xll"], gc["yll"]),
                                  observed=int(back[i]), expected=c)
                else:
                    ctx.count("roundtrip.ok")
        except Exception as e:
            ctx.case(True, n=n)
            unjudged_or_violation(ctx, gc, "roundtrip:raised" + sfx, base, "coord2cell(cell2coord(valid)) raised %r" % (e,))
    # ---- invalid cell numbers (alone, and appended to a vector of valid cells)
    for c in inval:
        case = dict(base, cell=c)
        for name, call, flag in (("cell2coord", g.cell2coord, lambda o: bool(np.isnan(o).any())),
                                 ("cell2rowcol", g.cell2rowcol, lambda o: bool((o < 0).any())),
                                 ("neighbours", g.neighbours, lambda o: bool((o < 0).all()))):
            try:
                one = call(c)
                flagged = flag(one)
                obs = one.tolist()
            except Exception as e:
                flagged = True
                obs = repr(e)
            ctx.case(True, outcome=repr(obs))
            if not flagged:
                ctx.violation("%s:invalid-cell-not-flagged%s" % (name, sfx), case,
                              "invalid cell number %d of a %dx%d grid: %s returned %r" % (c, nrows, ncols, name, obs),
                              observed=obs)
            else:
                ctx.count("%s.invalid_flagged" % name)
    k0 = min(3, len(cells))
    mixed = np.array(cells[:k0] + inval, dtype=np.int64)
    for name, call, flag in (("cell2coord", g.cell2coord, lambda o: np.isnan(o).any(axis=1)),
                             ("cell2rowcol", g.cell2rowcol, lambda o: (o < 0).any(axis=1))):
        try:
            out = call(mixed)
        except Exception:
            ctx.count("%s.mixed_call_raised" % name)
            continue
        ctx.case(True, outcome=out.tobytes(), n=len(inval))
        if out.shape == (len(mixed), 2):
            fl = flag(out)
            for i, c in enumerate(inval):
                if not fl[k0 + i]:
                    ctx.violation("%s:invalid-cell-not-flagged:in-vector%s" % (name, sfx), dict(base, cell=c),
                                  "invalid cell number %d inside a vector mapped to %r" % (c, out[k0 + i].tolist()))

    # ---- neighbours of every sparse cell; mirror relation through the neighbours' own answers
    cache = {}

    def nbs(c):
        if c not in cache:
            try:
                v = g.neighbours(c)
            except Exception as e:
                cache[c] = e
                return e
            cache[c] = [int(t) for t in v] if v.shape == (9,) else v
        return cache[c]
    for c in cells:
        case = dict(base, cell=c)
        v = nbs(c)
        if isinstance(v, Exception):
            ctx.case(True)
            unjudged_or_violation(ctx, gc, "neighbours:raised:%s" % type(v).__name__ + sfx, case, "neighbours(%d) raised %r" % (c, v))
            continue
        if not isinstance(v, list):
            ctx.case(True)
            ctx.violation("neighbours:shape" + sfx, case, "neighbours(%d) has shape %r, expected 9 slots" % (c, v.shape))
            continue
        ctx.case(True, outcome=tuple(v))
        row, col = divmod(c, ncols)
        exp = []
        for k in range(9):
            r2, c2 = row + k // 3 - 1, col + k % 3 - 1
            exp.append(-1 if (k == 4 or r2 < 0 or r2 >= nrows or c2 < 0 or c2 >= ncols) else r2 * ncols + c2)
        edge = (row in (0, nrows - 1)) or (col in (0, ncols - 1))
        ctx.count("neighbours.%s" % ("edge_cell" if edge else "interior_cell"))
        if v != exp:
            k = [i for i in range(9) if v[i] != exp[i]][0]
            key = ("neighbours:self-slot-not-minus1" if k == 4 else
                   "neighbours:off-grid-not-minus1" if exp[k] == -1 else "neighbours:wrong-cell")
            ctx.violation(key + sfx, case, "neighbours(%d) on a %dx%d grid: slot %d holds %d, expected %d" % (
                c, nrows, ncols, k, v[k], exp[k]), observed=v, expected=exp)
            continue
        for k in range(9):
            d = exp[k]
            if d < 0:
                continue
            w = nbs(d)
            if isinstance(w, list) and w[8 - k] == c:
                ctx.count("neighbours.mirror_pairs")
            else:
                ctx.violation("neighbours:not-symmetric-mirrored" + sfx, case,
                              "neighbours(%d)[%d] = %d but neighbours(%d)[%d] = %r" % (
                                  c, k, d, d, 8 - k, w[8 - k] if isinstance(w, list) else w), observed=[v, repr(w)])

    # ---- xvalues / yvalues / xlim / ylim
    try:
        xl, yl = g.xlim, g.ylim
        xv = yv = None
        if max(nrows, ncols) <= 10 ** 6:
            xv, yv = g.xvalues, g.yvalues
    except Exception as e:
        ctx.case(True)
        unjudged_or_violation(ctx, gc, "xyvalues:raised" + sfx, base, "xvalues/yvalues/xlim/ylim raised %r" % (e,))
        return
    ctx.case(True, outcome=(b"" if xv is None else xv.tobytes() + yv.tobytes()) + repr((xl, yl)).encode(), n=4)
    if xv is not None:
        okx = len(xv) == ncols and all(close(float(xv[j]), exact_centre(gc, j)[0], gc, gc["xll"]) for j in sparse_indices(ncols))
        oky = len(yv) == nrows and all(close(float(yv[i]), exact_centre(gc, i * ncols)[1], gc, gc["yll"]) for i in sparse_indices(nrows))
        # between the sparse indices: strictly monotone (implied by 'the centres', consecutive centres differ by one cell size)
        okx = okx and bool(np.all(np.diff(xv) > 0))
        oky = oky and bool(np.all(np.diff(yv) < 0))
        if not okx:
            ctx.violation("xvalues:not-column-centres" + sfx, base, "xvalues (length %d, first %r) are not the %d column centres" % (
                len(xv), xv[:5].tolist(), ncols))
        if not oky:
            ctx.violation("yvalues:not-row-centres" + sfx, base, "yvalues (length %d, first %r) are not the %d row centres (top to bottom)" % (
                len(yv), yv[:5].tolist(), nrows))
    fx, fy, fc = Fraction(gc["xll"]), Fraction(gc["yll"]), Fraction(gc["csz"])
    if not (len(xl) == 2 and close(float(xl[0]), fx, gc, gc["xll"]) and close(float(xl[1]), fx + ncols * fc, gc, gc["xll"])):
        ctx.violation("xlim:not-extent" + sfx, base, "xlim %r" % (tuple(map(float, xl)),))
    if not (len(yl) == 2 and close(float(yl[0]), fy, gc, gc["yll"]) and close(float(yl[1]), fy + nrows * fc, gc, gc["yll"])):
        ctx.violation("ylim:not-extent" + sfx, base, "ylim %r" % (tuple(map(float, yl)),))


# ---------------------------------------------------------------------------
# layouts of the query arrays (differential: same values, other container / dtype / strides)

def same_result(a, b):
    a, b = np.asarray(a), np.asarray(b)
    return a.shape == b.shape and a.dtype == b.dtype and bool(np.array_equal(a, b, equal_nan=(a.dtype.kind == "f")))


def check_layouts(ctx, g, gc):
    nrows, ncols, csz, xll, yll = gc["nrows"], gc["ncols"], gc["csz"], gc["xll"], gc["yll"]
    ntot = nrows * ncols
    mode = gc.get("mode")
    sfx = SFX[mode]
    case = dict(gc, kind="layout")
    cells = sparse_cells(nrows, ncols) if mode else list(range(ntot))
    ref_cells = np.array(cells + [-1, ntot], dtype=np.int64)
    try:
        g.cell2rowcol(ref_cells), g.cell2coord(ref_cells)
    except Exception:
        ref_cells = np.array(cells, dtype=np.int64)        # a vector with invalid numbers is refused: valid ones only
    n = len(ref_cells)
    variants = [("list", lambda a: [int(v) for v in a], None),
                ("tuple", lambda a: tuple(int(v) for v in a), None),
                ("int64-readonly", lambda a: _readonly(a.copy()), None),
                ("int64-strided", lambda a: _strided(a), None),
                ("int64-reversed", lambda a: a[::-1], lambda r: r[::-1]),
                ("int64-bigendian", lambda a: a.astype(">i8"), None)]
    if np.all(np.abs(ref_cells) < 2 ** 31):
        variants.append(("int32", lambda a: a.astype(np.int32), None))
        variants.append(("int32-strided", lambda a: _strided(a.astype(np.int32)), None))
    if np.all(ref_cells >= 0) and np.all(ref_cells < 2 ** 32):
        variants.append(("uint32", lambda a: a.astype(np.uint32), None))
    if np.all(np.abs(ref_cells) < 2 ** 15):
        variants.append(("int16", lambda a: a.astype(np.int16), None))
    if np.all(np.abs(ref_cells) < 2 ** 53):
        variants.append(("float64-integer-valued", lambda a: a.astype(np.float64), None))
    for fname in ("cell2rowcol", "cell2coord"):
        fun = getattr(g, fname)
        try:
            ref = fun(ref_cells)
        except Exception:
            ctx.count("layout.unjudged.%s.reference_raised" % fname)
            continue
        for name, conv, back in variants:
            try:
                out = fun(conv(ref_cells))
            except Exception:
                ctx.case(True, n=n)
                ctx.count("layout.rejected.%s.%s" % (fname, name))
                continue
            ctx.case(True, outcome=np.asarray(out).tobytes(), n=n)
            if back is not None:
                out = back(np.asarray(out))
            if same_result(out, ref):
                ctx.count("layout.agree.%s.%s" % (fname, name))
            else:
                bad = _first_diff(out, ref)
                ctx.violation("%s:layout=%s%s" % (fname, name, sfx), case,
                              "%s of the same %d cell numbers given as %s differs from the int64 call: first difference at "
                              "position %r (cell %r): %r vs %r" % (fname, n, name, bad, None if bad is None else int(ref_cells[bad]),
                                                                    None if bad is None else np.asarray(out)[bad].tolist(),
                                                                    None if bad is None else ref[bad].tolist()))
    # neighbours: scalar types of the cell number
    for c in (cells[0], cells[len(cells) // 2], cells[-1]):
        try:
            ref = g.neighbours(int(c))
        except Exception:
            ctx.count("layout.unjudged.neighbours.reference_raised")
            continue
        scal = [("np.int64", np.int64(c)), ("0d-array", np.array(c, dtype=np.int64))]
        if c < 2 ** 53:
            scal.append(("float", float(c)))
        if c < 2 ** 31:
            scal.append(("np.int32", np.int32(c)))
        if c < 2 ** 32:
            scal.append(("np.uint32", np.uint32(c)))
        for name, v in scal:
            try:
                out = g.neighbours(v)
            except Exception:
                ctx.case(True)
                ctx.count("layout.rejected.neighbours.%s" % name)
                continue
            ctx.case(True, outcome=np.asarray(out).tobytes())
            if same_result(out, ref):
                ctx.count("layout.agree.neighbours.%s" % name)
            else:
                ctx.violation("neighbours:layout=%s%s" % (name, sfx), dict(case, cell=int(c)),
                              "neighbours(%s(%d)) = %r, neighbours(%d) = %r" % (name, c, np.asarray(out).tolist(), c, ref.tolist()))
    # coord2cell: the query points of the grid (full product of the 1-D positions)
    inset, dists = (EPS, DISTS) if mode in (None, "ladder") else (0.25, BIG_DISTS)
    xs = positions_1d(ncols, xll, csz, None if mode is None else coarse_indices(ncols), inset, dists)
    ys = positions_1d(nrows, yll, csz, None if mode is None else coarse_indices(nrows), inset, dists)
    pts = np.array([[px[0], py[0]] for px in xs for py in ys], dtype=np.float64)
    try:
        ref = g.coord2cell(pts)
    except Exception:
        ctx.count("layout.unjudged.coord2cell.reference_raised")
        return
    exact32 = (pts.astype(np.float32).astype(np.float64) == pts).all(axis=1)
    isint = (np.round(pts) == pts).all(axis=1) & (np.abs(pts) < 2 ** 53).all(axis=1)
    pvars = [("list", lambda a: a.tolist(), None, None),
             ("readonly", lambda a: _readonly(a.copy()), None, None),
             ("fortran", lambda a: np.asfortranarray(a), None, None),
             ("strided-rows", lambda a: _strided_rows(a), None, None),
             ("strided-columns", lambda a: _strided_cols(a), None, None),
             ("reversed", lambda a: a[::-1], lambda r: r[::-1], None),
             ("bigendian", lambda a: a.astype(">f8"), None, None),
             ("float32", lambda a: a.astype(np.float32), None, exact32),
             ("float32-fortran", lambda a: np.asfortranarray(a.astype(np.float32)), None, exact32),
             ("int64", lambda a: a.astype(np.int64), None, isint),
             ("int32", lambda a: a.astype(np.int32), None, isint & (np.abs(pts) < 2 ** 31).all(axis=1))]
    for name, conv, back, mask in pvars:
        p, r = (pts, ref) if mask is None else (pts[mask], ref[mask])
        if len(p) == 0:
            ctx.count("layout.unjudged.coord2cell.%s.no_exact_point" % name)
            continue
        try:
            out = g.coord2cell(conv(p))
        except Exception:
            ctx.case(True, n=len(p))
            ctx.count("layout.rejected.coord2cell.%s" % name)
            continue
        ctx.case(True, outcome=np.asarray(out).tobytes(), n=len(p))
        if back is not None:
            out = back(np.asarray(out))
        if same_result(out, r):
            ctx.count("layout.agree.coord2cell.%s" % name)
        else:
            bad = _first_diff(out, r)
            ctx.violation("coord2cell:layout=%s%s" % (name, sfx), case,
                          "coord2cell of the same %d points given as %s differs from the float64 C-contiguous call: first "
                          "difference at point %r: %r vs %r" % (len(p), name, None if bad is None else p[bad].tolist(),
                                                                None if bad is None else np.asarray(out)[bad].tolist(),
                                                                None if bad is None else r[bad].tolist()))


def _readonly(a):
    a.setflags(write=False)
    return a


def _strided(a):
    big = np.full(2 * len(a) + 1, -5, dtype=a.dtype)
    big[1::2] = a
    return big[1::2]


def _strided_rows(a):
    big = np.full((2 * a.shape[0], a.shape[1]), 12345.5, dtype=a.dtype)
    big[::2] = a
    return big[::2]


def _strided_cols(a):
    big = np.full((a.shape[0], 2 * a.shape[1]), 12345.5, dtype=a.dtype)
    big[:, ::2] = a
    return big[:, ::2]


def _first_diff(out, ref):
    out, ref = np.asarray(out), np.asarray(ref)
    if out.shape != ref.shape:
        return None
    ne = (out != ref) & ~((out != out) & (ref != ref))
    ne = ne.reshape(len(ref), -1).any(axis=1)
    return int(np.flatnonzero(ne)[0]) if ne.any() else None


def run_ladder_unit(unit, ctx):
    nrows, ncols, mode = unit["nrows"], unit["ncols"], unit["mode"]
    first = True
    for csz in unit["cellsizes"]:
        for ox, oy in unit["origins"]:
            xll, yll = csz * ox, csz * oy
            gc = geom_case(nrows, ncols, csz, xll, yll, mode)
            if first:
                ctx.case(False, n=0, sample=dict(gc, kind="cells-sparse"))
            try:
                g = make_grid(nrows, ncols, csz, xll, yll, mode)
            except MemoryError:
                ctx.count("unjudged.%s_grid.MemoryError" % mode)
                continue
            ctx.count("grids.%s" % mode)
            check_coord2cell(ctx, g, gc)
            check_cells_sparse(ctx, g, gc)
            if first or (csz == 1.0 and ox == 0.0):     # float32 layouts are exact on this geometry
                check_layouts(ctx, g, gc)
            first = False
    # cell size 2, even origin: cell centres are odd integers, so int32 / int64 query points fall inside cells
    gc = geom_case(nrows, ncols, 2.0, -4.0, 6.0, mode)
    try:
        g = make_grid(nrows, ncols, 2.0, -4.0, 6.0, mode)
        ctx.count("grids.%s" % mode)
        check_layouts(ctx, g, gc)
    except MemoryError:
        ctx.count("unjudged.%s_grid.MemoryError" % mode)


def run_unit(unit, ctx):
    if unit.get("kind") == "ladder":
        return run_ladder_unit(unit, ctx)
    nrows, ncols, csz = unit["nrows"], unit["ncols"], unit["csz"]
    first = True
    for ox in unit["origins"]:
        for oy in unit["origins"]:
            xll, yll = csz * ox, csz * oy
            gc = geom_case(nrows, ncols, csz, xll, yll)
            if first:
                ctx.case(False, n=0, sample=dict(gc, kind="cells"))
            g = make_grid(nrows, ncols, csz, xll, yll)
            ctx.count("grids")
            check_coord2cell(ctx, g, gc)
            check_cells(ctx, g, gc)
            if first:
                check_layouts(ctx, g, gc)       # first grid of the unit: the same queries in other layouts
            first = False
    # history: ONE grid object whose origin is re-assigned through its public attributes between queries
    # (anything memoised on the object must follow); the case records where the grid came from
    gm = None
    prev = None
    for ox in unit["origins"]:
        for oy in unit["origins"]:
            xll, yll = csz * ox, csz * oy
            gc = dict(geom_case(nrows, ncols, csz, xll, yll), moved_from=prev)
            if gm is None:
                gm = make_grid(nrows, ncols, csz, xll, yll)
            else:
                touch_grid(gm)
                gm.xllcorner = np.float64(xll)
                gm.yllcorner = np.float64(yll)
            ctx.count("grids_moved")
            check_cells(ctx, gm, gc)
            prev = [xll, yll]


def replay(case):
    from mc.explore import Result

    class All(Result):          # keep every violation of the replayed grid (no per-key cap)
        def violation(self, key, case, msg, observed=None, expected=None):
            self.nviol += 1
            self.violations.setdefault(key, []).append(
                {"key": key, "case": case, "msg": msg, "observed": observed, "expected": expected})
    ctx = All()
    gc = geom_case(case["nrows"], case["ncols"], case["csz"], case["xll"], case["yll"], case.get("mode"))
    if gc.get("mode"):
        g = make_grid(gc["nrows"], gc["ncols"], gc["csz"], gc["xll"], gc["yll"], gc["mode"])
    elif case.get("moved_from"):
        # the grid was created elsewhere, queried, and then moved by attribute assignment
        g = make_grid(gc["nrows"], gc["ncols"], gc["csz"], case["moved_from"][0], case["moved_from"][1])
        touch_grid(g)
        g.xllcorner = np.float64(gc["xll"])
        g.yllcorner = np.float64(gc["yll"])
        gc = dict(gc, moved_from=case["moved_from"])
    else:
        g = make_grid(gc["nrows"], gc["ncols"], gc["csz"], gc["xll"], gc["yll"])
    if case.get("kind") == "coord2cell":
        check_coord2cell(ctx, g, gc, only=(case["x"], case["y"], case.get("xtag", ""), case.get("ytag", "")))
    elif case.get("kind") == "coord2cell-call":
        check_coord2cell(ctx, g, gc)
    elif case.get("kind") == "layout":
        check_layouts(ctx, g, gc)
    elif case.get("kind") == "cells-sparse":
        check_cells_sparse(ctx, g, gc)
        if "cell" in case:
            c = case["cell"]
            return [v for lst in ctx.violations.values() for v in lst if v["case"].get("cell", c) == c]
    else:
        check_cells(ctx, g, gc)
        if "cell" in case:
            c = case["cell"]
            return [v for lst in ctx.violations.values() for v in lst
                    if v["case"].get("cell", c) == c]
    return [v for lst in ctx.violations.values() for v in lst]
