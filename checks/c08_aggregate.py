"""C08 - aggregate / flathomogen / goue / monthly2daily.

Space (all crossed fully unless stated):
  aggregate/flathomogen: n = 1..N; every composition of n into runs; run labels
  from LABELS (start, step); every value vector over VALS; operators 0..3;
  maxnan in {0, 1, 2, n+1}; plus every adjacent-run label swap (must raise).
  monthly2daily: start month x year x length x value pattern x {flat, cubic}.
Oracle: exact reduction per run in Fractions.
"""
import itertools, math
from fractions import Fraction
import numpy as np
from mc.explore import recycle
import pandas as pd

ID = "C08"
# computational entry points whose results are watched by the engine's retained-result oracle (mc/explore.py)
RETAIN = [('hydrodiy.data.dutils', 'aggregate'), ('hydrodiy.data.dutils', 'flathomogen'), ('hydrodiy.data.dutils', 'monthly2daily'), ('hydrodiy.data.signatures', 'goue')]
RULE = ("every (composition of n into runs) x label scheme x value vector over "
        "{-2.5,-1,0,1.5,4,NaN} x operator 0..3 x maxnan {0,1,2,n+1}, on the real "
        "dutils.aggregate/flathomogen/goue, against a Fraction reduction per run; "
        "every adjacent-run label inversion must raise; monthly2daily: every start "
        "month of 4 years x lengths x value patterns x flat/cubic, monthly sums and "
        "calendar-day index. A case is one call; non-trivial = the kernel was reached "
        "and (aggregate) at least one group has >= 2 elements or a NaN, (monthly2daily) "
        "always. Cases are generated once each by nested enumeration (distinct by construction).")
ASSUMPTIONS = [
    "float64 sums of the dyadic alphabet are exact; means compared to 1e-12 relative",
    "groups with no non-missing value are judged for the sum operator only (as the property says)",
    "flathomogen: when a group holds more than maxnan NaN the non-missing entries may be NaN (documented) or the group mean (literal statement)",
    "extension modules rebuilt from the working tree C sources; Cython wrapper C not re-translated",
]

VALS = [-2.5, -1.0, 0.0, 1.5, 4.0, float("nan")]
I32MAX = 2 ** 31 - 1


def bound_text(tier, seed):
    return ("quick: n<=4 all labels; thorough: n<=5 all labels, n=6 default label, "
            "n in {12,40} with <=2 deviations; monthly2daily quick lengths {2,3,13,14}, "
            "thorough 2..40,120,300")


def compositions(n):
    for bits in itertools.product([0, 1], repeat=n - 1):
        runs, cur = [], 1
        for b in bits:
            if b:
                runs.append(cur)
                cur = 1
            else:
                cur += 1
        runs.append(cur)
        yield runs


def label_schemes(nruns, full):
    out = [(0, 1)]
    if full:
        out += [(-3, 1), (199501, 1), (0, 5), (-3, 5), (I32MAX - (nruns - 1), 1),
                (I32MAX - 5 * (nruns - 1), 5), (-2 ** 31, 7), ("spread", 0)]
    return out


def units(tier, seed):
    us = []
    nmax = 4 if tier == "quick" else 5
    for n in range(1, nmax + 1):
        for ci, runs in enumerate(compositions(n)):
            us.append({"kind": "agg", "n": n, "runs": runs, "full": True})
    if tier != "quick":
        for runs in compositions(6):
            us.append({"kind": "agg", "n": 6, "runs": runs, "full": False})
        for n in (12, 40):
            us.append({"kind": "aggdev", "n": n, "seed": seed})
    years = [1999, 2000, 2023, 2024, 1900, 2100]      # 1900 and 2100: divisible by 4 but not leap years
    # one unit per start month: all years are converted in one process, year innermost, so that anything kept
    # between calls for "the same start month and length" meets another calendar
    for m in range(1, 13):
        us.append({"kind": "m2d", "years": years, "month": m, "tier": tier})
    us.append({"kind": "guards"})
    # groups of very different magnitude (a group sum must not depend on what was summed before it)
    for g in (2, 3, 4):
        us.append({"kind": "aggmag", "ngroups": g})
    us.append({"kind": "agginf"})
    # size classes beyond the exhaustive bound: structured series with the same per-run reference
    # size ladder around powers of two (typical thresholds of blocked / vectorised code paths)
    ladder = [7, 8, 9, 15, 16, 17, 31, 32, 33, 63, 64, 65, 100, 127, 128, 129, 255, 256, 257, 511, 512, 513,
              1023, 1024, 1025, 2047, 2048, 2049, 4095, 4096, 4097]
    for i in range(0, len(ladder), 4):
        us.append({"kind": "aggladder", "ns": ladder[i:i + 4], "seed": seed})
    # dense range: every length (a defect may sit at one particular size)
    for lo in range(7, 131, 31):
        us.append({"kind": "aggladder", "ns": list(range(lo, min(131, lo + 31))), "seed": seed, "dense": True})
    for n in ([1000, 20011] if tier == "quick" else [1000, 100003, 1000003]):
        for runlen in (1, 7, 366):
            if n > 200000 and runlen != 366:
                continue
            us.append({"kind": "aggbig", "n": n, "runlen": runlen, "seed": seed})
    return us


def ref_groups(runs, vals):
    """-> list of (nonmissing list as Fractions, nmissing, lastvalue)"""
    out, i = [], 0
    for r in runs:
        g = vals[i:i + r]
        nm = [Fraction(v) for v in g if not math.isnan(v)]
        out.append((nm, r - len(nm)))
        i += r
    return out


def feq(a, b, rel=1e-12):
    """float a (observed) vs Fraction/float b (expected, or None for NaN)"""
    if b is None:
        return math.isnan(a)
    if math.isnan(a):
        return False
    b = float(b)
    return abs(a - b) <= rel * max(1.0, abs(b))


def index_of(runs, scheme):
    s, st = scheme
    idx = []
    n = len(runs)
    for k, r in enumerate(runs):
        if s == "spread":
            # labels spread over the whole int32 range: consecutive labels are up to 2**32-1 apart
            lab = -2 ** 31 if n == 1 else -2 ** 31 + (k * (2 ** 32 - 1)) // (n - 1)
        else:
            lab = s + k * st
        idx += [lab] * r
    return np.array(idx, dtype=np.int64)


def check_agg_case(ctx, dutils, runs, scheme, vals, groups, case_base):
    n = len(vals)
    # the same two array objects are refilled for every call of the same shape (see mc.explore.recycle)
    idx = recycle("idx", index_of(runs, scheme))
    x = recycle("x", np.array(vals, dtype=np.float64))
    nt = any(r >= 2 for r in runs) or any(math.isnan(v) for v in vals)
    for maxnan in sorted(set([0, 1, 2, n + 1])):
        for oper in (0, 1, 2, 3):
            case = dict(case_base, maxnan=maxnan, oper=oper)
            try:
                out = dutils.aggregate(idx, x, oper, maxnan)
            except Exception as e:
                ctx.case(nt)
                ctx.violation("aggregate:raised:%s" % type(e).__name__, case,
                              "aggregate raised %r on a valid non-decreasing index" % (e,))
                continue
            ctx.case(nt, outcome=out.tobytes())
            if len(out) != len(runs):
                ctx.violation("aggregate:length", case, "expected %d groups, got %d values" % (len(runs), len(out)),
                              observed=out.tolist(), expected=len(runs))
                continue
            for gi, (nm, nmiss) in enumerate(groups):
                o = float(out[gi])
                if nmiss > maxnan:
                    if not math.isnan(o):
                        ctx.violation("aggregate:oper=%d:maxnan-not-nan" % oper, case,
                                      "group %d has %d missing > maxnan=%d but value %r" % (gi, nmiss, maxnan, o),
                                      observed=out.tolist())
                    continue
                if not nm:
                    ctx.count("agg.all_missing_group")
                    if oper == 0 and not feq(o, 0):
                        ctx.violation("aggregate:oper=0:allmissing", case,
                                      "all-missing group within maxnan: sum should be 0, got %r" % o,
                                      observed=out.tolist())
                    continue
                if oper == 0:
                    exp = sum(nm)
                elif oper == 1:
                    exp = sum(nm) / len(nm)
                elif oper == 2:
                    exp = max(nm)
                else:
                    exp = nm[-1]
                if not feq(o, exp):
                    sub = ""
                    if oper == 2:
                        sub = ":neg" if exp < 0 else ":nan"
                    if oper == 3:
                        sub = ":lastnan"
                    ctx.violation("aggregate:oper=%d:value%s" % (oper, sub), case,
                                  "group %d: expected %s of non-missing %s = %s, got %r" % (
                                      gi, ["sum", "mean", "max", "last"][oper],
                                      [float(v) for v in nm], float(exp), o),
                                  observed=out.tolist(), expected=float(exp))
            # conservation of totals for the sum
            if oper == 0 and maxnan > n:
                tot = sum(sum(nm) for nm, _ in groups)
                if not feq(float(np.sum(out)), tot):
                    ctx.violation("aggregate:total", case, "sum of aggregated sums %r != %r" % (float(np.sum(out)), float(tot)))
        # flathomogen
        case = dict(case_base, maxnan=maxnan, func="flathomogen")
        try:
            fh = dutils.flathomogen(idx, x, maxnan)
        except Exception as e:
            ctx.case(nt)
            ctx.violation("flathomogen:raised:%s" % type(e).__name__, case, "flathomogen raised %r" % (e,))
            continue
        ctx.case(nt, outcome=fh.tobytes())
        if len(fh) != n:
            ctx.violation("flathomogen:length", case, "length %d != %d" % (len(fh), n))
            continue
        i = 0
        for gi, (nm, nmiss) in enumerate(groups):
            r = runs[gi]
            mean = (sum(nm) / len(nm)) if nm else None
            for j in range(i, i + r):
                o = float(fh[j])
                if math.isnan(vals[j]):
                    if not math.isnan(o):
                        ctx.violation("flathomogen:missing-filled", case, "missing entry %d became %r" % (j, o), observed=fh.tolist())
                elif nmiss > maxnan:
                    if not (math.isnan(o) or feq(o, mean)):
                        ctx.violation("flathomogen:value", case, "entry %d: %r is neither NaN nor the group mean %r" % (j, o, float(mean)), observed=fh.tolist())
                else:
                    if not feq(o, mean):
                        ctx.violation("flathomogen:value", case, "entry %d: expected group mean %r, got %r" % (j, float(mean), o), observed=fh.tolist(), expected=float(mean))
            if nmiss <= maxnan and nm:
                tot = float(np.nansum(fh[i:i + r]))
                if not feq(tot, sum(nm), 1e-11):
                    ctx.violation("flathomogen:group-total", case, "group %d total %r != %r" % (gi, tot, float(sum(nm))))
            i += r


def check_inversions(ctx, dutils, runs, vals, case_base):
    """swap labels of adjacent runs: the index decreases somewhere -> must raise"""
    if len(runs) < 2:
        return
    x = np.array(vals, dtype=np.float64)
    base = index_of(runs, (0, 1))
    # a decrease by more than 2**31 (first run at INT32_MAX, the others at INT32_MIN)
    widx = np.array([I32MAX] * runs[0] + [-2 ** 31] * (len(vals) - runs[0]), dtype=np.int64)
    for fname in ("aggregate", "flathomogen"):
        case = dict(case_base, inversion="wrap", func=fname, index=widx.tolist())
        try:
            out = dutils.aggregate(widx, x, 0, len(vals)) if fname == "aggregate" else dutils.flathomogen(widx, x, len(vals))
            ctx.case(True)
            ctx.violation("%s:inversion-accepted:wrap" % fname, case, "decreasing index %s accepted, returned %s" % (widx.tolist(), out.tolist()))
        except ValueError:
            ctx.case(True, outcome="raise")
            ctx.count("inversion.rejected")
        except Exception as e:
            ctx.case(True)
            ctx.violation("%s:inversion:wrong-exception" % fname, case, "raised %r instead of ValueError" % (e,))
    for k in range(len(runs) - 1):
        labels = list(range(len(runs)))
        labels[k], labels[k + 1] = labels[k + 1], labels[k]
        idx = []
        for lab, r in zip(labels, runs):
            idx += [lab * 3 - 4] * r
        idx = np.array(idx)
        variants = [(None, idx)]
        # the same inversion with non-negative labels held in other integer types (a difference of unsigned
        # values wraps around instead of going negative) and as booleans when there are two runs
        pos = idx + 5
        for dt in ("int32", "int16", "uint8", "uint16", "uint32", "uint64", "float64"):
            variants.append((dt, pos.astype(dt)))
        if len(runs) == 2:
            variants.append(("bool", pos > pos.min()))
        for (dt, idx), fname in itertools.product(variants, ("aggregate", "flathomogen")):
            case = dict(case_base, inversion=k, func=fname, index=idx.tolist())
            if dt is not None:
                case["index_dtype"] = dt
            try:
                if fname == "aggregate":
                    out = dutils.aggregate(idx, x, 0, len(vals))
                else:
                    out = dutils.flathomogen(idx, x, len(vals))
            except ValueError:
                ctx.case(True, outcome="raise")
                ctx.count("inversion.rejected")
                continue
            except Exception as e:
                ctx.case(True)
                ctx.violation("%s:inversion:wrong-exception" % fname, case, "raised %r instead of ValueError" % (e,))
                continue
            ctx.case(True)
            ctx.violation("%s:inversion-accepted%s" % (fname, "" if dt is None else ":index-dtype=" + dt), case,
                          "decreasing aggregation index %s%s accepted, returned %s" % (
                              idx.tolist(), "" if dt is None else " (%s)" % dt, out.tolist()))


def run_agg_unit(unit, ctx):
    from hydrodiy.data import dutils
    from hydrodiy.data import signatures
    runs, n = unit["runs"], unit["n"]
    schemes = label_schemes(len(runs), unit["full"])
    first = True
    for vals in itertools.product(VALS, repeat=n):
        groups = ref_groups(runs, vals)
        for scheme in schemes:
            cb = {"kind": "agg", "runs": runs, "scheme": list(scheme),
                  "vals": [None if math.isnan(v) else v for v in vals]}
            if first:
                ctx.case(False, sample=cb, n=0)
                first = False
            check_agg_case(ctx, dutils, runs, scheme, vals, groups, cb)
        if not any(math.isnan(v) for v in vals):
            cb = {"kind": "agg", "runs": runs, "scheme": [0, 1], "vals": list(vals)}
            check_inversions(ctx, dutils, runs, vals, cb)
            check_goue(ctx, dutils, signatures, runs, vals, groups, cb)


def check_goue(ctx, dutils, signatures, runs, vals, groups, cb):
    n = len(vals)
    if n < 2:
        return
    m = sum(Fraction(v) for v in vals) / n
    ss = sum((Fraction(v) - m) ** 2 for v in vals)
    if ss == 0 or m == 0:
        ctx.count("goue.degenerate_skipped")
        return
    flat = []
    for (nm, _), r in zip(groups, runs):
        flat += [sum(nm) / len(nm)] * r
    err = sum((Fraction(v) - f) ** 2 for v, f in zip(vals, flat))
    exp = 1 - err / ss
    idx = index_of(runs, (0, 1))
    case = dict(cb, func="goue")
    try:
        g = float(signatures.goue(idx, np.array(vals)))
    except Exception as e:
        ctx.case(True)
        ctx.violation("goue:raised", case, "goue raised %r" % (e,))
        return
    ctx.case(True, outcome=g)
    if not feq(g, exp, 1e-9):
        ctx.violation("goue:value", case, "goue %r != NSE against flat series %r" % (g, float(exp)), observed=g, expected=float(exp))


def run_aggdev_unit(unit, ctx):
    """n = 12 / 40: <= 2 deviations (value or run boundary) from a base case"""
    from hydrodiy.data import dutils
    n = unit["n"]
    seed = unit["seed"]
    # base: runs of length 3 (+ remainder) ; values ramp over the alphabet without NaN
    fin = [v for v in VALS if not math.isnan(v)]
    basevals = [fin[(i + seed) % len(fin)] for i in range(n)]
    basebits = [1 if (i + 1) % 3 == 0 else 0 for i in range(n - 1)]
    devs = [("v", i, v) for i in range(n) for v in VALS] + [("b", i, None) for i in range(n - 1)]
    combos = [()] + [(d,) for d in devs] + list(itertools.combinations(devs, 2))
    for combo in combos:
        vals = list(basevals)
        bits = list(basebits)
        ok = True
        for kind, i, v in combo:
            if kind == "v":
                vals[i] = v
            else:
                bits[i] = 1 - bits[i]
        runs, cur = [], 1
        for b in bits:
            if b:
                runs.append(cur)
                cur = 1
            else:
                cur += 1
        runs.append(cur)
        groups = ref_groups(runs, vals)
        cb = {"kind": "agg", "runs": runs, "scheme": [199501, 1],
              "vals": [None if math.isnan(v) else v for v in vals]}
        check_agg_case(ctx, dutils, runs, (199501, 1), vals, groups, cb)


def m2d_patterns(nm, tier):
    A = [0.0, 1.0, 31.0, 100.5]
    if nm <= 3:
        for p in itertools.product(A, repeat=nm):
            yield list(p)
        return
    bases = [[31.0] * nm, [float(i % 7) * 10.5 + 1 for i in range(nm)]]
    maxdev = 1 if (tier == "quick" or nm > 20) else 2
    if nm > 60:
        maxdev = 0
    for b in bases:
        yield list(b)
        if maxdev >= 1:
            for i in range(nm):
                for v in A:
                    if v != b[i]:
                        c = list(b)
                        c[i] = v
                        yield c
        if maxdev >= 2:
            for i, j in itertools.combinations(range(nm), 2):
                if j - i > 3:
                    continue        # interacting deviations only (neighbouring months)
                for v in (0.0, 100.5):
                    for w in (0.0, 100.5):
                        c = list(b)
                        c[i] = v
                        c[j] = w
                        yield c


def check_m2d_case(ctx, dutils, year, month, vals, interp, unit=None):
    nm = len(vals)
    idx = pd.date_range("%04d-%02d-01" % (year, month), periods=nm, freq="MS")
    if unit is not None:
        idx = idx.as_unit(unit)         # storage resolution of the time stamps (date_range default otherwise)
    se = pd.Series(vals, index=idx)
    case = {"kind": "m2d", "year": year, "month": month, "vals": vals, "interp": interp}
    if unit is not None:
        case["unit"] = unit
    try:
        sed = dutils.monthly2daily(se, interp)
    except Exception as e:
        ctx.case(True)
        ctx.violation("monthly2daily:%s:raised" % interp, case, "raised %r" % (e,))
        return
    ctx.case(True, outcome=hash(sed.values.tobytes()))
    end = idx[-1] + pd.offsets.MonthBegin(1) - pd.Timedelta(days=1)
    days = pd.date_range(idx[0], end, freq="D")
    if len(sed) != len(days) or not (sed.index == days).all():
        ctx.violation("monthly2daily:%s:index" % interp, case,
                      "expected one value per calendar day %s..%s (%d), got %d values %s..%s" % (
                          days[0].date(), days[-1].date(), len(days), len(sed),
                          sed.index[0] if len(sed) else None, sed.index[-1] if len(sed) else None))
        return
    sums = sed.groupby([sed.index.year, sed.index.month]).sum(min_count=1).values
    for k in range(nm):
        if not (abs(sums[k] - vals[k]) <= 1e-9 * max(1.0, abs(vals[k]))):
            ctx.violation("monthly2daily:%s:month-sum" % interp, case,
                          "month %d (%s): daily sum %r != monthly input %r" % (k, idx[k].date(), float(sums[k]), vals[k]),
                          observed=[float(s) for s in sums], expected=vals)
            break


def run_m2d_unit(unit, ctx):
    from hydrodiy.data import dutils
    tier = unit["tier"]
    lengths = [2, 3, 13, 14] if tier == "quick" else list(range(2, 41)) + [120, 300]
    few = [2, 3, 13, 14, 26, 120]
    first = True
    for nm in lengths:
        for ipat, vals in enumerate(m2d_patterns(nm, tier)):
            for interp in ("flat", "cubic"):
                for year in unit["years"]:
                    if tier != "quick" and year not in (2023, 2024) and nm not in few:
                        continue
                    if first:
                        ctx.case(False, n=0, sample={"kind": "m2d", "year": year, "month": unit["month"], "vals": vals, "interp": interp})
                        first = False
                    check_m2d_case(ctx, dutils, year, unit["month"], vals, interp)
                    if ipat < 2 and year == unit["years"][0]:
                        for tu in ("s", "ms", "us", "ns"):
                            check_m2d_case(ctx, dutils, year, unit["month"], vals, interp, unit=tu)


def run_guards(unit, ctx):
    """argument errors the wrappers promise"""
    from hydrodiy.data import dutils
    for fname in ("aggregate", "flathomogen"):
        f = getattr(dutils, fname)
        case = {"kind": "guard", "func": fname}
        try:
            f(np.array([1, 1, 2]), np.array([1.0, 2.0]))
            ctx.case(True)
            ctx.violation("%s:length-mismatch-accepted" % fname, case, "index and inputs of different lengths accepted")
        except ValueError:
            ctx.case(True, outcome="raise")
        except Exception as e:
            ctx.case(True)
            ctx.violation("%s:length-mismatch-wrong-exception" % fname, case, repr(e))


def run_aggbig(unit, ctx):
    """long structured series: runs of fixed length (last one partial), values cycle through the
    finite alphabet with a NaN every 11th (shifted by the seed) position; labels yyyymm-like and large"""
    from hydrodiy.data import dutils
    n, L, seed = unit["n"], unit["runlen"], unit["seed"]
    fin = [v for v in VALS if not math.isnan(v)]
    vals = [fin[(i * 3 + seed) % len(fin)] for i in range(n)]
    for i in range((5 + seed) % 11, n, 11):
        vals[i] = float("nan")
    nruns = (n + L - 1) // L
    runs = [L] * (n // L) + ([n % L] if n % L else [])
    groups = ref_groups(runs, vals)
    for scheme in ((199501, 1), (I32MAX - (nruns - 1), 1)):
        cb = {"kind": "aggbig", "n": n, "runlen": L, "seed": seed, "scheme": list(scheme)}
        ctx.case(False, n=0, sample=cb)
        check_agg_case(ctx, dutils, runs, scheme, vals, groups, cb)
    if n <= 5000:
        check_layouts(ctx, dutils, runs, vals, {"kind": "aggbig", "n": n, "runlen": L, "seed": seed, "scheme": [199501, 1]})


def layout_variants(idx, x):
    """same values, other dtypes / memory layouts / containers (the alphabet is exact in float32)"""
    import pandas as pd
    out = [("float32", idx, x.astype(np.float32)),
           ("index-int32", idx.astype(np.int32), x),
           ("index-float64", idx.astype(np.float64), x),
           ("index-uint32", idx.astype(np.uint32), x),
           ("index-uint64", idx.astype(np.uint64), x),
           ("index-list", idx.tolist(), x)]
    big = np.full(2 * len(x) + 1, 7.25)
    big[1::2] = x
    out.append(("strided", idx, big[1::2]))
    bigi = np.full(2 * len(idx) + 1, -5, dtype=np.int64)
    bigi[1::2] = idx
    out.append(("index-strided", bigi[1::2], x))
    ro = x.copy()
    ro.setflags(write=False)
    out.append(("readonly", idx, ro))
    out.append(("series", pd.Series(idx), pd.Series(x, index=np.arange(len(x))[::-1])))
    return out


def check_layouts(ctx, dutils, runs, vals, case_base):
    idx = index_of(runs, (199501, 1))
    x = np.array(vals, dtype=np.float64)
    n = len(vals)
    for oper, maxnan in ((0, n + 1), (1, 1), (2, n + 1), (3, 2)):
        try:
            ref = dutils.aggregate(idx, x, oper, maxnan)
            reff = dutils.flathomogen(idx, x, maxnan)
        except Exception:
            return
        for lname, li, lx in layout_variants(idx, x):
            for fname, refv in (("aggregate", ref), ("flathomogen", reff)):
                case = dict(case_base, layout=lname, oper=oper, maxnan=maxnan, func=fname)
                try:
                    out = dutils.aggregate(li, lx, oper, maxnan) if fname == "aggregate" else dutils.flathomogen(li, lx, maxnan)
                except Exception as e:
                    ctx.case(True, outcome="raise")
                    ctx.count("layout.rejected.%s.%s" % (lname, type(e).__name__))
                    continue
                ctx.case(True, outcome=np.asarray(out).tobytes())
                ctx.count("layout.accepted." + lname)
                o = np.asarray(out, dtype=np.float64)
                if o.shape != refv.shape or not np.array_equal(o, refv, equal_nan=True):
                    ctx.violation("%s:layout=%s" % (fname, lname), case,
                                  "%s with the same values given as %s differs from the float64 C-contiguous call: %s vs %s" % (
                                      fname, lname, o[:8].tolist(), refv[:8].tolist()))


MAGS = [1e16, 3e9, 1.0, 1.1e-4, 1e-12]


def run_aggmag(unit, ctx):
    """every assignment of a magnitude to each of g groups (positive, non-dyadic values inside a group) x three
    run-length patterns; judged by the exact per-group reference like every other aggregation case"""
    from hydrodiy.data import dutils
    g = unit["ngroups"]
    first = True
    for runs in ([1] * g, [2] * g, [(3, 1, 2, 3)[k] for k in range(g)]):
        for mags in itertools.product(MAGS, repeat=g):
            if len(set(mags)) == 1:
                continue
            vals = []
            for m, r in zip(mags, runs):
                vals += [m * (1 + 0.1 * j) for j in range(r)]
            groups = ref_groups(runs, vals)
            cb = {"kind": "agg", "runs": list(runs), "scheme": [199501, 1], "vals": vals}
            if first:
                ctx.case(False, n=0, sample=cb)
                first = False
            ctx.count("aggmag.cases")
            check_agg_case(ctx, dutils, list(runs), (199501, 1), vals, groups, cb)


INFV = [float("-inf"), float("inf"), 1.5, -2.5, float("nan")]


def check_agg_inf(ctx, dutils, runs, vals):
    """groups holding infinite values: sum / mean / max / last of the non-missing values in float arithmetic
    (a group holding both +inf and -inf has no sum: only max and last are judged there)"""
    n = len(vals)
    idx = index_of(runs, (199501, 1))
    x = np.array(vals, dtype=np.float64)
    groups, i = [], 0
    for r in runs:
        g = vals[i:i + r]
        groups.append(([v for v in g if v == v], sum(1 for v in g if v != v)))
        i += r
    for maxnan in (0, 1, n + 1):
        for oper in (0, 1, 2, 3):
            case = {"kind": "agginf", "runs": list(runs), "vals": [None if v != v else ("inf" if v == INFV[1] else "-inf" if v == INFV[0] else v) for v in vals],
                    "oper": oper, "maxnan": maxnan}
            try:
                out = dutils.aggregate(idx, x, oper, maxnan)
            except Exception as e:
                ctx.case(True)
                ctx.violation("aggregate:raised:%s:infinite-values" % type(e).__name__, case, "aggregate raised %r" % (e,))
                continue
            ctx.case(True, outcome=out.tobytes())
            if len(out) != len(runs):
                ctx.violation("aggregate:length:infinite-values", case, "expected %d groups, got %d" % (len(runs), len(out)))
                continue
            for gi, (nm, nmiss) in enumerate(groups):
                o = float(out[gi])
                if nmiss > maxnan:
                    exp = float("nan")
                elif not nm:
                    if oper != 0:
                        continue
                    exp = 0.0
                elif oper <= 1:
                    tot = sum(nm)
                    if tot != tot:
                        ctx.count("unjudged.agginf.sum_of_opposite_infinities")
                        continue
                    exp = tot if oper == 0 else tot / len(nm)
                elif oper == 2:
                    exp = max(nm)
                else:
                    exp = nm[-1]
                ok = (o != o) if exp != exp else (o == exp or (math.isfinite(exp) and feq(o, exp)))
                if not ok:
                    ctx.violation("aggregate:oper=%d:value:infinite-values" % oper, case,
                                  "group %d: %s of the non-missing values %r is %r, got %r" % (
                                      gi, ["sum", "mean", "max", "last"][oper], nm, exp, o), observed=out.tolist(), expected=exp)


def run_agginf(unit, ctx):
    from hydrodiy.data import dutils
    first = True
    for runs in ([1, 1], [2, 1], [1, 2], [2, 2], [1, 1, 1], [3]):
        for vals in itertools.product(INFV, repeat=sum(runs)):
            if not any(v in (INFV[0], INFV[1]) for v in vals):
                continue
            if first:
                ctx.case(False, n=0, sample={"kind": "agginf", "runs": runs})
                first = False
            ctx.count("agginf.cases")
            check_agg_inf(ctx, dutils, runs, list(vals))


def run_unit(unit, ctx):
    k = unit["kind"]
    if k == "agginf":
        run_agginf(unit, ctx)
        return
    if k == "aggmag":
        run_aggmag(unit, ctx)
        return
    if k == "aggladder":
        for n in unit["ns"]:
            for runlen in ((3,) if unit.get("dense") else (1, 3, 31)):
                run_aggbig({"n": n, "runlen": runlen, "seed": unit["seed"]}, ctx)
        return
    if k == "aggbig":
        run_aggbig(unit, ctx)
        return
    if k == "agg":
        run_agg_unit(unit, ctx)
    elif k == "aggdev":
        run_aggdev_unit(unit, ctx)
    elif k == "m2d":
        run_m2d_unit(unit, ctx)
    elif k == "guards":
        run_guards(unit, ctx)


def replay(case):
    from mc.explore import Result
    from hydrodiy.data import dutils, signatures
    ctx = Result()
    k = case["kind"]
    if k == "agg":
        vals = [float("nan") if v is None else v for v in case["vals"]]
        runs = case["runs"]
        groups = ref_groups(runs, vals)
        cb = {"kind": "agg", "runs": runs, "scheme": case["scheme"], "vals": case["vals"]}
        check_agg_case(ctx, dutils, runs, tuple(case["scheme"]), vals, groups, cb)
        if not any(math.isnan(v) for v in vals):
            check_inversions(ctx, dutils, runs, vals, cb)
            check_goue(ctx, dutils, signatures, runs, vals, groups, cb)
    elif k == "agginf":
        vals = [float("nan") if v is None else float(v) for v in case["vals"]]
        check_agg_inf(ctx, dutils, case["runs"], vals)
    elif k == "aggbig":
        run_aggbig(case, ctx)
    elif k == "m2d":
        check_m2d_case(ctx, dutils, case["year"], case["month"], case["vals"], case["interp"], unit=case.get("unit"))
    elif k == "guard":
        run_guards({}, ctx)
    out = []
    want = case.get("oper"), case.get("func")
    for key, lst in ctx.violations.items():
        out += lst
    return out
