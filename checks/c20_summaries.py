"""C20 - sampling, ranking and summary helpers.

Observed on the real code: sutils.lhs / ppos / standard_normal / pareto_front,
plot.boxplot.boxplot_stats / Boxplot(...).stats, plot.violinplot.Violin(...).stats /
kde_x / kde_y.

Spaces (every one crossed completely, nothing sampled to reach a verdict):
  lhs       the two random sources of lhs are *scripted environment answers*
            (numpy.random.permutation, numpy.random.uniform are replaced): all n!
            permutations x ranges x jitter corner patterns (all equal lo/mid/hi and
            every single deviation), 1 parameter; 2-3 parameters with every tuple of
            permutations for small n and a rotated permutation per parameter above;
            n = 8..300 with 4 structured permutations; a few seeded real draws
            (supplementary).
  ppos      all n <= 300 x plotting constants.
  standard_normal  all vectors of length <= 5 over {0,1,2} x cst x rank method
            (+ sorted=True on the sorted vectors).
  pareto_front  all point sets with n*d <= 9 (12) over {0,1,NaN}; larger sets =
            three base configurations with <= 2 cell deviations; both orientations,
            C and Fortran layout.
  columns   all columns of length 0..6 over {0,1,2.5,NaN,+inf,-inf}: boxplot_stats
            x (box, whisker) coverages, Boxplot frames of 3 columns / Series / arrays,
            Boxplot(by=) with groups of unequal size, Violin (frames of 3 columns,
            single columns, jitter answer lo/mid/hi).
  ladder    (same oracles) generated tie-rich / dyadic inputs with the size on the ladder
            7,8,9,15,...,1023,1024,1025 (thorough ..4097, 10001): columns for
            boxplot_stats / Boxplot / Boxplot(by=) / Violin, point sets for pareto_front
            (d = 1,2,3,5), vectors for standard_normal, nsamples for lhs (structured
            permutations) and ppos; each ladder case is called again with the same values
            in other layouts (float32, int64, strided / reversed view, Fortran order,
            read-only, pandas with a non-default index) and must return the same answer.
Oracles: Fraction linear percentiles / mean / count of the finite values; numpy-vectorised
brute-force dominance (comparisons only, exact); stratum membership of the sorted sample.
"""
import itertools, math, os
from fractions import Fraction
import numpy as np
from mc.explore import recycle
import pandas as pd

ID = "C20"
# computational entry points whose results are watched by the engine's retained-result oracle (mc/explore.py)
RETAIN = [('hydrodiy.stat.sutils', 'pareto_front'), ('hydrodiy.stat.sutils', 'standard_normal'), ('hydrodiy.stat.sutils', 'lhs'), ('hydrodiy.plot.boxplot', 'boxplot_stats')]
RULE = ("lhs: numpy.random.permutation/uniform replaced by scripted answers; every one of the n! "
        "permutations x 4 ranges x jitter corner patterns {all lo, all mid, all hi(-ulp), every single "
        "deviation}; 2-3 parameters: every tuple of permutations (small n) or one rotated permutation per "
        "parameter; oracle: the k-th smallest sample of each column lies in the k-th of the n equal "
        "half-open strata. ppos: every n <= 300 x cst. standard_normal: every vector over {0,1,2} of "
        "length <= 5 x cst x pandas rank method against independently computed ranks. pareto_front: every "
        "n x d matrix over the alphabet with n*d <= bound, both orientations, against the pairwise "
        "definition; base configurations (all ties / chain / anti-chain) with <= 2 deviating cells up to "
        "60 x 5. box/violin: every column of length 0..6 over {0,1,2.5,NaN,+inf,-inf} x coverage pairs "
        "against Fraction statistics of the finite values; every such column split by unequal `by` "
        "groups against each group alone. One case = one call of the function under test on one input; "
        "non-trivial = lhs n>=2, ppos n>=2, standard_normal with >=2 values, pareto with >=2 points, "
        "columns holding at least one NaN/inf or a tie. Cases come from nested product enumeration and "
        "are distinct by construction. Size ladder: for every n of the ladder (7..1025 around the powers of "
        "two and round numbers; thorough ..4097 and 10001) generated inputs - columns {23-level dyadic ties, "
        "permuted ramp of n distinct integers, ties with NaN/+inf/-inf holes, ramp with one NaN, 0/1 runs, decimal "
        "ties needing all 53 bits}; "
        "point sets {all ties, chain, anti-chain, small-integer lattice, lattice with NaN cells, lattice with ties "
        "broken at 2**-30, front + dominated copies} x d in {1,2,3,5}; vectors {ties, permuted ramp, 0/1 runs, ties broken at 2**-30} x rank methods x cst; lhs "
        "with 4 structured permutations x 4 ranges x jitter {lo, mid, hi, alternating} and 3 parameters - "
        "judged by the same exact oracles (Fractions / pairwise definition evaluated in row blocks / rank "
        "order computed by exact sorting). Layout variants: every ladder input is passed again as float32 "
        "(only when exact), int64 (integer-valued data), strided and reversed views, Fortran order (2-D), "
        "read-only array, pandas Series / DataFrame with a non-default index, list; the answer must equal "
        "the float64 C-contiguous answer (key ...:layout=<name>); a layout rejected with an exception is "
        "counted.")
ASSUMPTIONS = [
    "sample percentile = linear interpolation between order statistics (numpy/pandas default, Hyndman-Fan 7), "
    "compared to 1e-9 relative; mean to 1e-12",
    "box plot: with fewer than 4 finite values the documented NaN row is accepted as well as the exact statistics; "
    "the count is always judged; a statistic row missing from Boxplot(by=).stats (pivot drops all-NaN rows) is read as NaN",
    "Boxplot of an empty frame returns an empty stats table (no count row): counted, not judged",
    "violin: with <= 2 finite values or a constant column the density profile may be all-NaN; an exception is "
    "judged as a violation because no summary is returned at all",
    "violin kde_x is only counted (sorted / inside the data range), the property constrains the profile heights only",
    "lhs strata are compared with a tolerance of 1e-9 x max(|pmin|,|pmax|) (float rounding at a stratum edge is not a defect)",
    "pareto: a pair of points with no coordinate observed in both is 'strictly better in every non-missing "
    "coordinate' vacuously; when a verdict hinges only on such pairs both answers are accepted and counted; "
    "+-inf coordinates are outside the alphabet (inf-inf is NaN in the kernel)",
    "standard_normal with NaN: the property quantifies over NaN-free vectors; NaN inputs only counted",
    "labels of the percentile rows follow the library convention '{:0.1f}%' and are used to locate values only",
    "scripted answers stand for numpy.random.permutation / numpy.random.uniform as lhs and Violin call them today; "
    "if an implementation draws differently the answers are not consumed, the output is still judged and the case counted",
    "extension modules rebuilt from the working tree C sources; Cython wrapper C not re-translated",
    "size ladder: standard_normal above length 64 is judged through the rank order (data sorted exactly by (reference rank, position): scores and returned ranks strictly increase between rank groups and are equal - scores to 1e-12 - inside one), which is the same demand as the pairwise loop used for short vectors",
    "layout variants: results must equal the float64 C-contiguous result to the tolerance of the check (statistics 1e-9 / mean 1e-12 relative, flags / ranks / lhs samples exactly); only boxplot_stats called directly on a float32 array is compared to 2e-5 relative, because numpy then interpolates percentiles and averages in float32 (rounding 6e-8 relative; Boxplot and Violin convert to float64 first and get the normal tolerance); a layout the function rejects with a Python exception is counted (layout-rejected.*), not judged",
    "layout variants of lhs: pmin / pmax given as float32 are only judged when nsamples is a power of two (the half stratum width du/2 is then exact in float32): lhs casts pmin to float64 but not pmax, so with numpy >= 2 `pmax[i] - du/2` is evaluated in float32 and the stratum centres move by up to 6e-8 x |pmax|; at the worst-case jitter a sample then leaves its stratum by ~1e-8 (lhs(10, float32[0], float32[1]), jitter -du/2: 9 of 10 samples) - a marginal genuine deviation reported with proposed_fixes/C20-lhs-float32-pmax.diff; that fix is committed in /repo and every size is judged now (VERIF_C20_LHS_F32=0 restores the power-of-two restriction)",
]
TECHNIQUE = ("bounded exhaustive enumeration on the real functions with scripted random-source answers, "
             "exact Fraction / comparison-only reference models")

NAN = float("nan")
INF = float("inf")
COLA = [0.0, 1.0, 2.5, NAN, INF, -INF]
EXTRA_LETTERS = [-1.0, 0.5, 1e6, -2.5]
CSTS = [0.0, 0.1, 0.3, 0.375, 0.4, 0.5]
EXTRA_CST = [0.05, 0.25, 0.3175, 0.45]
METHODS = ["average", "min", "max", "first", "dense"]
RANGES = [(0.0, 1.0), (-5.0, 3.0), (1e-3, 1e3), (7.0, 7.001)]
BOXCOV = [40, 50, 75, 99]
LADDER = [7, 8, 9, 15, 16, 17, 31, 32, 33, 63, 64, 65, 100, 127, 128, 129, 255, 256, 257, 500, 501,
          511, 512, 513, 1000, 1001, 1023, 1024, 1025]
LADDER_X = [2047, 2048, 2049, 4095, 4096, 4097, 10001]
SENTINEL = -777.25
LAY1 = ["f32", "int64", "strided", "reversed", "readonly", "series", "list"]
LAY2 = ["fortran", "f32", "int64", "strided", "readonly", "frame"]


def coverage_pairs():
    out = []
    for b in BOXCOV:
        for w in (b + 1, 90, 99.9):
            if w > b:
                out.append((b, w))
    return out           # 11 pairs (90 is not above 99)


COVP = coverage_pairs()


def ladder_text(tier):
    return ("; size ladder n in %s: 6 generated columns x 3 coverage pairs (boxplot_stats), frames / series / arrays "
            "(Boxplot), 3 columns x 2 unequal groupings (by=), Violin frames of 3 / 2 / 1 columns; pareto 5-7 generated "
            "point sets x d in {1,2,3,5} x both orientations; standard_normal 4 generated vectors x 5 rank methods x 3 "
            "cst (+sorted); lhs 4 structured permutations x 4 ranges x 4 jitter patterns, 3 parameters; ppos x 7 cst; "
            "layout variants %s (1-D), %s (2-D), lhs %s on the ladder cases" % (
                LADDER if tier == "quick" else LADDER + LADDER_X, LAY1, LAY2, LHS_LAYOUTS))


def bound_text(tier, seed):
    if tier == "quick":
        return ("lhs n<=5 all n! perms x 4 ranges x (3+6n) jitter patterns, 2-3 params n<=3 all perm tuples, n=8..300 "
                "structured; ppos n<=300 x 7 cst; standard_normal len<=5; pareto n*d<=9 over {0,1,NaN}, (12x2,12x3) "
                "<=2 deviations, 60x5 <=1; columns over {0,1,2.5,NaN,+inf,-inf}: boxplot_stats len 0..4 x 11 coverage "
                "pairs, len 5 x 3 pairs; Boxplot frames and Violin len 0..5 (len 6 without -inf), default coverage; "
                "by: len 5 groups (4,1) interleaved (no -inf) and contiguous ({0,1,2.5,NaN}), len 9/10 <=2 deviations "
                "over {NaN,+inf,1}; 300-value columns <=1 deviation; +seed letter len<=4" + ladder_text(tier))
    return ("lhs n<=7 all n! perms x 4 ranges x (3+6n) jitter patterns, 2-3 params n<=4/3 all perm tuples, n=8..300 "
            "structured; ppos n<=300 x 7 cst; standard_normal len<=6; pareto n*d<=12 over {0,1,NaN}, n*d<=8 over "
            "{0,1,2,NaN}, (20x3,30x2,60x2,25x5) <=2 deviations, 60x5 <=1; columns len 0..6 x 11 coverage pairs "
            "(boxplot_stats), Boxplot frames x 4 pairs, Violin len 0..6 (+jitter corners len<=5), by: len 6 x 5 "
            "layouts, len 5 x 3 layouts, len 9/10 <=2 deviations; +seed letter len<=5" + ladder_text(tier))


# --------------------------------------------------------------------------- encoding
def enc(v):
    v = float(v)
    if math.isnan(v):
        return None
    if math.isinf(v):
        return "inf" if v > 0 else "-inf"
    return v


def dec(v):
    if v is None:
        return NAN
    if v == "inf":
        return INF
    if v == "-inf":
        return -INF
    return float(v)


def enc_list(vs):
    return [enc(v) for v in vs]


def feq(a, b, rel):
    """observed float a vs expected (Fraction/float, None = NaN)"""
    if b is None:
        return math.isnan(a)
    if math.isnan(a):
        return False
    b = float(b)
    return abs(a - b) <= rel * max(1.0, abs(b))


# --------------------------------------------------------------------------- generated inputs (size ladder)
def coprime_step(n):
    return next(st for st in range(max(2, n // 3), 2 * n + 3) if math.gcd(st, n) == 1)


def gen_col(spec):
    """spec {"gen": name, "n": n, "seed": s} -> list of floats (structured: ties, dyadic values, holes)"""
    g, n, s = spec["gen"], spec["n"], spec.get("seed", 0)
    if g == "ties":            # 23 dyadic levels, every level ~n/23 times
        return [0.5 * ((i * 7 + s) % 23) for i in range(n)]
    if g in ("ramp", "onenan"):  # n distinct integers in a scrambled order
        st = coprime_step(n)
        col = [float((i * st + s) % n) for i in range(n)]
        if g == "onenan":
            col[n // 2] = NAN
        return col
    if g == "holes":           # ties with NaN / +inf / -inf anywhere
        col = [0.5 * ((i * 7 + s) % 23) for i in range(n)]
        for i in range(n):
            if i % 5 == 2:
                col[i] = NAN
            elif i % 17 == 3:
                col[i] = INF
            elif i % 19 == 7:
                col[i] = -INF
        return col
    if g == "two":             # runs of 0 / 1
        return [float(((i * 3 + s) // 2) % 2) for i in range(n)]
    if g == "decimal":         # ties, values that need all 53 bits (not representable in float32)
        return [0.1 * ((i * 7 + s) % 23) + 0.001 * (i % 5) for i in range(n)]
    if g == "fine":            # coarse ties that are only resolved at the 2**-30 level
        return [float((i * 7 + s) % 16) + 2.0 ** -30 * ((i * 3) % 5) for i in range(n)]
    raise ValueError(g)


def gen_by(spec):
    """grouping vectors with categories of unequal size"""
    g, n = spec["gen"], spec["n"]
    if g == "mod":             # 'a' every third value: sizes ~n/3 and ~2n/3, interleaved
        return ["a" if i % 3 == 0 else "b" for i in range(n)]
    if g == "blocks":          # contiguous: 5 values, the bulk, and the last value alone
        return [0 if i < 5 else (2 if i == n - 1 else 1) for i in range(n)]
    raise ValueError(g)


def gen_pareto(spec):
    g, n, d, s = spec["gen"], spec["n"], spec["d"], spec.get("seed", 0)
    if g in ("ties", "chain", "anti"):
        return pareto_base(g, n, d, s)
    i = np.arange(n)
    dat = np.zeros((n, d))
    if g in ("lattice", "lattice-nan", "lattice-fine"):        # small integers: heavy ties, many dominated points
        for k in range(d):
            dat[:, k] = (i * (3 + 2 * k) + s * (k + 1)) % (5 + k)
        if g == "lattice-fine":    # ... whose ties are broken at the 2**-30 level (invisible in float32)
            for k in range(d):
                dat[:, k] += 2.0 ** -30 * ((i * 5 + k) % 3)
        if g == "lattice-nan":
            for k in range(d):
                dat[(i * 7 + 3 * k + s) % 11 == 0, k] = NAN
        return dat
    if g == "front":           # first half: an anti-chain; second half: the same points lowered by 1 (all dominated)
        h = (n + 1) // 2
        for k in range(d):
            a = i[:h] if (k + s) % 2 == 0 else h - 1 - i[:h]
            dat[:h, k] = a
            dat[h:, k] = a[:n - h] - 1
        return dat
    raise ValueError(g)


def expand_perm(p, n):
    """permutation given explicitly or by name"""
    if not isinstance(p, str):
        return list(p)
    ident = list(range(n))
    if p == "ident":
        return ident
    if p == "rev":
        return ident[::-1]
    if p == "rot":
        return ident[1:] + ident[:1]
    if p.startswith("rot"):
        r = int(p[3:]) % n
        return ident[r:] + ident[:r]
    if p == "stride":
        st = coprime_step(n)
        return [(i * st) % n for i in range(n)]
    raise ValueError(p)


def expand_col(c):
    return gen_col(c) if isinstance(c, dict) else [dec(v) for v in c]


def expand_by(b):
    return gen_by(b) if isinstance(b, dict) else list(b)


def show(vals, k=12):
    vals = list(vals)
    if len(vals) <= 2 * k:
        return repr(vals)
    return "[%s, ... %d values ..., %s]" % (", ".join(repr(v) for v in vals[:k]), len(vals) - 2 * k,
                                             ", ".join(repr(v) for v in vals[-k:]))


# --------------------------------------------------------------------------- layout variants
def variant_1d(vals, name):
    """the values of a float64 vector in another layout; None when the layout does not apply"""
    arr = np.array(vals, dtype=np.float64)
    n = len(arr)
    if name == "f32":
        a = arr.astype(np.float32)
        return a if np.array_equal(a.astype(np.float64), arr, equal_nan=True) else None
    if name == "int64":
        if n == 0 or not np.isfinite(arr).all() or not (arr == np.floor(arr)).all():
            return None
        return arr.astype(np.int64)
    if name == "strided":
        big = np.full(2 * n + 1, SENTINEL)
        big[1::2] = arr
        return big[1::2]
    if name == "reversed":
        return arr[::-1].copy()[::-1]
    if name == "readonly":
        a = arr.copy()
        a.setflags(write=False)
        return a
    if name == "series":
        return pd.Series(arr.copy(), index=5 + 3 * np.arange(n)[::-1])
    if name == "list":
        return [float(v) for v in arr]
    raise ValueError(name)


def variant_2d(arr, name):
    arr = np.array(arr, dtype=np.float64, order="C")
    if name == "fortran":
        return np.asfortranarray(arr) if min(arr.shape) >= 2 else None
    if name == "f32":
        a = arr.astype(np.float32)
        return a if np.array_equal(a.astype(np.float64), arr, equal_nan=True) else None
    if name == "int64":
        if arr.size == 0 or not np.isfinite(arr).all() or not (arr == np.floor(arr)).all():
            return None
        return arr.astype(np.int64)
    if name == "strided":
        big = np.full((2 * arr.shape[0] + 1, 2 * arr.shape[1] + 1), SENTINEL)
        big[1::2, 1::2] = arr
        return big[1::2, 1::2]
    if name == "readonly":
        a = arr.copy()
        a.setflags(write=False)
        return a
    if name == "frame":
        return pd.DataFrame(arr.copy(), index=5 + 3 * np.arange(arr.shape[0])[::-1])
    raise ValueError(name)


def same_numbers(a, b, rel):
    """NaN-aware comparison of two float arrays -> index of the first difference or None"""
    a = np.asarray(a, dtype=np.float64)
    b = np.asarray(b, dtype=np.float64)
    if a.shape != b.shape:
        return "shape %r vs %r" % (a.shape, b.shape)
    with np.errstate(all="ignore"):
        ok = (np.isnan(a) & np.isnan(b)) | (a == b) | (np.abs(a - b) <= rel * np.maximum(1.0, np.abs(b)))
    if ok.all():
        return None
    return tuple(int(v) for v in np.argwhere(~ok)[0])


def same_table(a, b, rel):
    """two pandas tables (Series / DataFrame): same row labels, same numbers -> None or a description"""
    if list(map(str, a.index)) != list(map(str, b.index)):
        return "row labels %s vs %s" % (show(list(a.index), 6), show(list(b.index), 6))
    w = same_numbers(np.asarray(a, dtype=np.float64), np.asarray(b, dtype=np.float64), rel)
    if w is None:
        return None
    if isinstance(w, str):
        return w
    return "row %r%s: %r vs %r" % (a.index[w[0]], "" if len(w) == 1 else " column %d" % w[1],
                                   float(np.asarray(a, dtype=np.float64)[w]), float(np.asarray(b, dtype=np.float64)[w]))


# --------------------------------------------------------------------------- scripted random source
class Env(object):
    """Replaces numpy.random.permutation / uniform by scripted answers."""

    def __init__(self):
        self.perms = None      # list of permutations, consumed one per call
        self.jit = None        # list of kind strings over 'lmh' (one per call), or single str
        self.nperm = self.nunif = self.unscripted = 0
        self._op = self._ou = None

    def install(self):
        self._op, self._ou = np.random.permutation, np.random.uniform
        np.random.permutation = self._perm
        np.random.uniform = self._unif

    def restore(self):
        if self._op is not None:
            np.random.permutation, np.random.uniform = self._op, self._ou
            self._op = self._ou = None

    def script(self, perms, jit):
        self.perms, self.jit = perms, jit
        self.nperm = self.nunif = self.unscripted = 0

    def _perm(self, x):
        i = self.nperm
        self.nperm += 1
        if self.perms is not None and isinstance(x, (int, np.integer)) and i < len(self.perms) \
                and len(self.perms[i]) == x:
            return np.array(self.perms[i], dtype=np.int64)
        self.unscripted += 1
        return self._op(x)

    def _unif(self, low=0.0, high=1.0, size=None):
        i = self.nunif
        self.nunif += 1
        if self.jit is None or size is None or not isinstance(size, (int, np.integer)):
            self.unscripted += 1
            return self._ou(low, high, size)
        kinds = self.jit if isinstance(self.jit, str) else (self.jit[i] if i < len(self.jit) else None)
        if kinds is None:
            self.unscripted += 1
            return self._ou(low, high, size)
        low = float(low)
        high = float(high)
        lut = {"l": low, "m": 0.5 * (low + high), "h": float(np.nextafter(high, low))}
        if len(kinds) == 1:
            return np.full(size, lut[kinds])
        if len(kinds) != size:
            self.unscripted += 1
            return self._ou(low, high, size)
        return np.array([lut[c] for c in kinds])


# --------------------------------------------------------------------------- lhs
_STRATA = {}


def strata(n, pmin, pmax):
    k = (n, pmin, pmax)
    if k not in _STRATA:
        a, b = Fraction(pmin), Fraction(pmax)
        w = (b - a) / n
        tol = 1e-9 * max(abs(pmin), abs(pmax))
        lo = np.array([float(a + i * w) for i in range(n)]) - tol
        hi = np.array([float(a + (i + 1) * w) for i in range(n)]) + tol
        if len(_STRATA) > 5000:
            _STRATA.clear()
        _STRATA[k] = (lo, hi)
    return _STRATA[k]


def jitter_class(jit):
    if jit is None:
        return "random"
    s = set("".join(jit))
    if len(s) == 1:
        return {"l": "lo", "m": "mid", "h": "hi"}[s.pop()]
    return "mixed"


# see ASSUMPTIONS (float32 bounds are only used when du/2 is exact in float32); VERIF_C20_LHS_F32=1 judges every n
LHS_F32_ANY_N = os.environ.get("VERIF_C20_LHS_F32", "1") == "1"      # the lhs float32 repair is in /repo: every n is judged (set 0 to restrict to powers of two)


def lhs_variant(n, pmins, pmaxs, name):
    """-> (nsamples, pmin, pmax) in another layout or None"""
    lo, hi = np.array(pmins, dtype=np.float64), np.array(pmaxs, dtype=np.float64)
    if name == "f32":
        a, b = variant_1d(lo, "f32"), variant_1d(hi, "f32")
        if a is None or b is None:
            return None
        if not LHS_F32_ANY_N and (n & (n - 1)) != 0:
            return "inexact"
        return n, a, b
    if name in ("int64", "strided", "readonly", "series"):
        a, b = variant_1d(lo, name), variant_1d(hi, name)
        return None if a is None or b is None else (n, a, b)
    if name == "tuple":
        return n, tuple(pmins), tuple(pmaxs)
    if name == "n-int64":
        return np.int64(n), list(pmins), list(pmaxs)
    if name == "n-int32":
        return np.int32(n), list(pmins), list(pmaxs)
    if name == "n-float":
        return float(n), list(pmins), list(pmaxs)
    raise ValueError(name)


LHS_LAYOUTS = ["f32", "int64", "strided", "readonly", "series", "tuple", "n-int64", "n-int32", "n-float"]


def check_lhs(ctx, env, n, pmins, pmaxs, perms, jit, seed=None, scalar_pmax=False, sample=False,
              layouts=(), sfx=""):
    """one call of sutils.lhs under scripted (or seeded real) randomness; perms may name structured
    permutations ("ident", "rev", "rot", "rot<k>", "stride"); layouts: the call is repeated with
    nsamples / pmin / pmax in other layouts and must return the same samples"""
    from hydrodiy.stat import sutils

    def case():
        c = {"kind": "lhs", "n": n, "pmin": list(pmins), "pmax": list(pmaxs), "perms": perms,
             "jitter": jit, "seed": seed, "scalar_pmax": scalar_pmax}
        if layouts:
            c["layouts"] = list(layouts)
        if sfx:
            c["sfx"] = sfx
        return c
    p = len(pmins)
    xperms = None if perms is None else [expand_perm(q, n) for q in perms]
    if seed is None:
        env.script(xperms, jit)
    else:
        env.script(None, None)
        env.restore()
        np.random.seed(seed)
    try:
        try:
            smp = sutils.lhs(n, list(pmins), pmaxs[0] if scalar_pmax else list(pmaxs))
        finally:
            if seed is not None:
                env.install()
    except Exception as e:
        ctx.case(n >= 2, sample=case() if sample else None)
        ctx.violation("lhs:raised:%s%s" % (type(e).__name__, sfx), case(), "lhs raised %r" % (e,))
        return
    ctx.case(n >= 2, outcome=smp.tobytes(), sample=case() if sample else None)
    if seed is None and (env.unscripted or env.nperm != p or env.nunif != p):
        ctx.count("lhs.env-answers-not-consumed")
    else:
        ctx.count("lhs.scripted" if seed is None else "lhs.seeded-real-draw")
    if smp.shape != (n, p):
        ctx.violation("lhs:shape" + sfx, case(), "expected shape %r, got %r" % ((n, p), smp.shape))
        return
    jc = jitter_class(jit)
    for j in range(p):
        lo, hi = strata(n, pmins[j], pmaxs[j])
        col = np.sort(smp[:, j])
        ok = (col >= lo) & (col < hi)
        if not ok.all():
            k = int(np.where(~ok)[0][0])
            ctx.violation("lhs:one-per-stratum:jitter=%s%s" % (jc, sfx), case(),
                          "parameter %d range [%r,%r] n=%d: the %d-th smallest sample %r is outside stratum %d "
                          "[%r, %r)" % (j, pmins[j], pmaxs[j], n, k, float(col[k]), k,
                                        float(lo[k]), float(hi[k])),
                          observed=enc_list(smp[:, j] if n <= 300 else smp[:50, j]))
            break
    # ---- the same call with the arguments in other layouts (scripted randomness only)
    for name in (layouts if seed is None else ()):
        v = lhs_variant(n, pmins, pmaxs, name)
        if v is None:
            ctx.count("layout-not-applicable.lhs.%s" % name)
            continue
        if v == "inexact":
            ctx.count("unjudged.lhs.float32-bounds-inexact-du")
            continue
        env.script(xperms, jit)
        try:
            alt = sutils.lhs(*v)
        except Exception as e:
            ctx.case(n >= 2)
            ctx.count("layout-rejected.lhs.%s.%s" % (name, type(e).__name__))
            continue
        alt = np.asarray(alt)
        ctx.case(n >= 2, outcome=(name, alt.tobytes()))
        ctx.count("layout.lhs.%s" % name)
        if alt.shape != smp.shape or not np.array_equal(alt, smp):
            w = "shape %r" % (alt.shape,) if alt.shape != smp.shape else \
                "max difference %r" % float(np.max(np.abs(alt.astype(np.float64) - smp)))
            ctx.violation("lhs:layout=%s" % name, case(),
                          "lhs(n=%d) with the arguments as %s returns other samples than with python lists of "
                          "float (%s)" % (n, name, w))


def jitter_patterns(n):
    out = ["l", "m", "h"]
    if n >= 2:
        for base in "lmh":
            for i in range(n):
                for dv in "lmh":
                    if dv != base:
                        out.append(base * i + dv + base * (n - 1 - i))
    return out


def run_lhs_unit(unit, ctx):
    env = Env()
    env.install()
    try:
        k = unit["kind"]
        if k == "lhs1":
            n = unit["n"]
            pmin, pmax = RANGES[unit["range"]]
            pats = jitter_patterns(n)
            allp = list(itertools.permutations(range(n)))
            lo, hi = unit["chunk"]
            first = True
            for perm in allp[lo:hi]:
                perm = list(perm)
                for pat in pats:
                    check_lhs(ctx, env, n, [pmin], [pmax], [perm], [pat], sample=first)
                    first = False
        elif k == "lhsp":
            n, p = unit["n"], unit["p"]
            allp = [list(q) for q in itertools.permutations(range(n))]
            first = True
            if unit["full"]:
                tuples = itertools.product(range(len(allp)), repeat=p)
            else:
                st = max(1, len(allp) // 3 + 1)
                tuples = (tuple((i + j * st) % len(allp) for j in range(p)) for i in range(len(allp)))
            for tp in tuples:
                perms = [allp[i] for i in tp]
                for r0 in range(len(RANGES)):
                    pmins = [RANGES[(r0 + j) % 4][0] for j in range(p)]
                    pmaxs = [RANGES[(r0 + j) % 4][1] for j in range(p)]
                    for pat in "lmh":
                        check_lhs(ctx, env, n, pmins, pmaxs, perms, [pat] * p, sample=first)
                        first = False
                # scalar pmax broadcast
                for pat in "lh":
                    check_lhs(ctx, env, n, [0.0] * p, [1.0] * p, perms, [pat] * p, scalar_pmax=True)
        elif k == "lhsmid":
            first = True
            for n in range(unit["lo"], unit["hi"]):
                ident = list(range(n))
                st = next(s for s in range(max(2, n // 3), 2 * n + 3) if math.gcd(s, n) == 1)
                for perm in (ident, ident[::-1], ident[1:] + ident[:1], [(i * st) % n for i in range(n)]):
                    for ri, (pmin, pmax) in enumerate(RANGES):
                        for pat in "lmh":
                            check_lhs(ctx, env, n, [pmin], [pmax], [perm], [pat], sample=first)
                            first = False
                        alt = "".join("lh"[i % 2] for i in range(n))
                        check_lhs(ctx, env, n, [pmin], [pmax], [perm], [alt])
        elif k == "lhslad":
            first = True
            for n in unit["ns"]:
                for pi, perm in enumerate(("ident", "rev", "rot", "stride")):
                    for ri, (pmin, pmax) in enumerate(RANGES):
                        alt = "".join("lh"[i % 2] for i in range(n))
                        for pat in ("l", "m", "h", alt):
                            lay = LHS_LAYOUTS if (pat in "lh" and pi == (ri + 1) % 4) else ()
                            check_lhs(ctx, env, n, [pmin], [pmax], [perm], [pat], sample=first and n < 40,
                                      layouts=lay, sfx=":ladder")
                            first = False
                # 3 parameters, a rotated permutation per parameter, ranges rotated
                for r0 in range(len(RANGES)):
                    pmins = [RANGES[(r0 + j) % 4][0] for j in range(3)]
                    pmaxs = [RANGES[(r0 + j) % 4][1] for j in range(3)]
                    for pat in "lh":
                        check_lhs(ctx, env, n, pmins, pmaxs, ["stride", "rot%d" % (n // 3), "rev"], [pat] * 3,
                                  layouts=LHS_LAYOUTS if r0 == 0 else (), sfx=":ladder")
                # float32 / int64 representable bounds
                for pmins, pmaxs in (([0.0, -5.0, 7.0], [1.0, 3.0, 8.0]),):
                    for pat in "lh":
                        check_lhs(ctx, env, n, pmins, pmaxs, ["rev", "stride", "ident"], [pat] * 3,
                                  layouts=LHS_LAYOUTS, sfx=":ladder")
        elif k == "lhsreal":
            n = unit["n"]
            for t in range(unit["draws"]):
                sd = 1000 * unit["seed"] + 17 * t + n
                pmins = [RANGES[j % 4][0] for j in range(6)]
                pmaxs = [RANGES[j % 4][1] for j in range(6)]
                check_lhs(ctx, env, n, pmins, pmaxs, None, None, seed=sd, sample=(t == 0))
    finally:
        env.restore()


# --------------------------------------------------------------------------- ppos
def check_ppos(ctx, n, cst, sample=False, layouts=(), sfx=""):
    from hydrodiy.stat import sutils
    case = {"kind": "ppos", "n": n, "cst": cst}
    if layouts:
        case["layouts"] = list(layouts)
    if sfx:
        case["sfx"] = sfx
    try:
        pp = np.asarray(sutils.ppos(n, cst), dtype=np.float64)
    except Exception as e:
        ctx.case(n >= 2)
        ctx.violation("ppos:raised:%s%s" % (type(e).__name__, sfx), case, "ppos(%d, %r) raised %r" % (n, cst, e))
        return
    ctx.case(n >= 2, outcome=hash(pp.tobytes()), sample=case if sample else None)
    if pp.shape != (n,):
        ctx.violation("ppos:length" + sfx, case, "expected %d positions, got shape %r" % (n, pp.shape))
        return
    if n == 0:
        return
    if not (np.diff(pp) > 0).all():
        ctx.violation("ppos:strictly-increasing" + sfx, case, "plotting positions not strictly increasing",
                      observed=enc_list(pp[:20]))
    if not (pp[0] > 0 and pp[-1] < 1 and np.isfinite(pp).all()):
        ctx.violation("ppos:inside-(0,1)" + sfx, case, "positions leave (0,1): first %r last %r" % (pp[0], pp[-1]))
    if not (np.abs(pp + pp[::-1] - 1.0) <= 1e-12).all():
        ctx.violation("ppos:symmetry" + sfx, case, "pp[i] + pp[n-1-i] != 1 (max dev %r)" %
                      float(np.max(np.abs(pp + pp[::-1] - 1.0))))
    # ---- the size / constant given as numpy scalars: same positions
    for name in layouts:
        if name == "n-int64":
            a = (np.int64(n), cst)
        elif name == "n-int32":
            a = (np.int32(n), cst)
        elif name == "cst-f64":
            a = (n, np.float64(cst))
        elif name == "cst-f32":
            if float(np.float32(cst)) != cst:
                ctx.count("layout-not-applicable.ppos.cst-f32")
                continue
            a = (n, np.float32(cst))
        else:
            raise ValueError(name)
        try:
            alt = np.asarray(sutils.ppos(*a))
        except Exception as e:
            ctx.case(n >= 2)
            ctx.count("layout-rejected.ppos.%s.%s" % (name, type(e).__name__))
            continue
        ctx.case(n >= 2, outcome=(name, hash(alt.tobytes())))
        ctx.count("layout.ppos.%s" % name)
        # float32 constant: numpy keeps float64 for an int64 arange minus a float32 scalar; 1e-12 as for symmetry
        w = same_numbers(alt, pp, 1e-12)
        if w is not None:
            ctx.violation("ppos:layout=%s" % name, case,
                          "ppos(%d, %r) with the arguments as %s differs from the python int / float call at %r" % (
                              n, cst, name, w))


PPOS_LAYOUTS = ["n-int64", "n-int32", "cst-f64", "cst-f32"]


def run_ppos_unit(unit, ctx):
    first = True
    if unit["kind"] == "pposlad":
        for n in unit["ns"]:
            for cst in unit["csts"]:
                check_ppos(ctx, n, cst, sample=first, layouts=PPOS_LAYOUTS, sfx=":ladder")
                first = False
        return
    for n in range(unit["lo"], unit["hi"]):
        for cst in unit["csts"]:
            check_ppos(ctx, n, cst, sample=first)
            first = False


# --------------------------------------------------------------------------- standard_normal
def ref_ranks(x, method):
    """independent rank computation (1-based like pandas)"""
    n = len(x)
    out = []
    distinct = sorted(set(x))
    for i, v in enumerate(x):
        less = sum(1 for w in x if w < v)
        eq = sum(1 for w in x if w == v)
        if method == "min":
            r = Fraction(less + 1)
        elif method == "max":
            r = Fraction(less + eq)
        elif method == "average":
            r = Fraction(2 * less + eq + 1, 2)
        elif method == "first":
            r = Fraction(less + 1 + sum(1 for w in x[:i] if w == v))
        else:
            r = Fraction(distinct.index(v) + 1)
        out.append(r)
    return out


def ref_ranks_sorted(x, method):
    """reference ranks (doubled, as ints) by exact sorting: O(n log n) twin of ref_ranks for long vectors"""
    n = len(x)
    order = sorted(range(n), key=lambda i: (x[i], i))
    out = [0] * n
    a = 0
    dense = 0
    while a < n:
        b = a
        while b + 1 < n and x[order[b + 1]] == x[order[a]]:
            b += 1
        dense += 1
        for t in range(a, b + 1):          # positions a..b (0-based) share one value: ranks a+1 .. b+1
            i = order[t]
            if method == "min":
                r = 2 * (a + 1)
            elif method == "max":
                r = 2 * (b + 1)
            elif method == "average":
                r = (a + 1) + (b + 1)
            elif method == "first":
                r = 2 * (t + 1)            # order is stable in the position
            else:
                r = 2 * dense
            out[i] = r
        a = b + 1
    return out


def snorm_variant(x, name):
    return variant_1d(x, name)


SNORM_LAYOUTS = ["f32", "int64", "strided", "reversed", "readonly", "series", "list"]


def check_snorm(ctx, x, cst, method, srt, sample=False, spec=None, layouts=(), sfx=""):
    from hydrodiy.stat import sutils
    case = {"kind": "snorm", "x": spec if spec is not None else enc_list(x), "cst": cst, "method": method,
            "sorted": srt}
    if layouts:
        case["layouts"] = list(layouts)
    if sfx:
        case["sfx"] = sfx
    n = len(x)
    nt = n >= 2
    arr = recycle("sn", np.array(x, dtype=np.float64))
    if any(math.isnan(v) for v in x):
        try:
            sutils.standard_normal(arr, cst, srt, method)
            ctx.count("unjudged.standard_normal.nan-accepted")
        except ValueError:
            ctx.count("unjudged.standard_normal.nan-rejected")
        except Exception:
            ctx.count("unjudged.standard_normal.nan-other-exception")
        ctx.case(False)
        return
    try:
        u, rk = sutils.standard_normal(arr, cst, srt, method)
        u = np.asarray(u, dtype=np.float64)
        rk = np.asarray(rk, dtype=np.float64)
    except Exception as e:
        ctx.case(nt)
        ctx.violation("standard_normal:raised:%s%s" % (type(e).__name__, sfx), case, "raised %r" % (e,))
        return
    ctx.case(nt, outcome=hash(u.tobytes()), sample=case if sample else None)
    if u.shape != (n,) or rk.shape != (n,):
        ctx.violation("standard_normal:length" + sfx, case, "shapes %r %r for %d values" % (u.shape, rk.shape, n))
        return
    mkey = "sorted" if srt else method
    if len(set(x)) < n:
        ctx.count("snorm.ties")
    if n <= 64:
        ref = [Fraction(i) for i in range(n)] if srt else ref_ranks(x, method)
        judge_snorm_pairs(ctx, case, n, ref, u, rk, mkey, sfx)
    else:
        ref = list(range(n)) if srt else ref_ranks_sorted(x, method)
        judge_snorm_sorted(ctx, case, n, ref, u, rk, mkey, sfx)
    # ---- the same vector in other layouts: same scores and ranks
    for name in layouts:
        v = snorm_variant(x, name)
        if v is None:
            ctx.count("layout-not-applicable.standard_normal.%s" % name)
            continue
        try:
            u2, rk2 = sutils.standard_normal(v, cst, srt, method)
            u2 = np.asarray(u2, dtype=np.float64)
            rk2 = np.asarray(rk2, dtype=np.float64)
        except Exception as e:
            ctx.case(nt)
            ctx.count("layout-rejected.standard_normal.%s.%s" % (name, type(e).__name__))
            continue
        ctx.case(nt, outcome=(name, hash(u2.tobytes())))
        ctx.count("layout.standard_normal.%s" % name)
        w = same_numbers(u2, u, 1e-12)
        w = w if w is not None else same_numbers(rk2, rk, 0.0)
        if w is not None:
            ctx.violation("standard_normal:layout=%s:%s" % (name, mkey), case,
                          "standard_normal of the same %d values given as %s differs from the float64 array call at %r" % (
                              n, name, w))


def judge_snorm_pairs(ctx, case, n, ref, u, rk, mkey, sfx=""):
    for i in range(n):
        for j in range(n):
            if ref[i] < ref[j]:
                if not (u[i] < u[j]):
                    ctx.violation("standard_normal:not-strictly-increasing-in-rank:%s%s" % (mkey, sfx), case,
                                  "rank %s < rank %s but score %r !< %r" % (ref[i], ref[j], u[i], u[j]),
                                  observed=enc_list(u))
                    return
                if not (rk[i] < rk[j]):
                    ctx.violation("standard_normal:returned-ranks:%s%s" % (mkey, sfx), case,
                                  "returned ranks %r do not order like the %s ranks %s" %
                                  (rk.tolist(), mkey, [str(r) for r in ref]))
                    return
            elif ref[i] == ref[j] and i < j:
                if not (abs(u[i] - u[j]) <= 1e-12):
                    ctx.violation("standard_normal:equal-ranks-differ:%s%s" % (mkey, sfx), case,
                                  "equal ranks but scores %r and %r" % (u[i], u[j]), observed=enc_list(u))
                    return
                if not (rk[i] == rk[j]):
                    ctx.violation("standard_normal:returned-ranks:%s%s" % (mkey, sfx), case,
                                  "returned ranks %r differ for tied %s ranks" % (rk.tolist(), mkey))
                    return


def judge_snorm_sorted(ctx, case, n, ref, u, rk, mkey, sfx=""):
    """the pairwise demand through the rank order: the values are grouped by reference rank (exact sort);
    inside a group all scores lie within 1e-12 of the first and all returned ranks are equal; between
    consecutive groups max(score of the lower) < min(score of the higher) and the returned ranks increase -
    by transitivity this is the demand of the pairwise loop on every pair"""
    order = sorted(range(n), key=lambda i: (ref[i], i))
    groups = []
    for i in order:
        if groups and ref[groups[-1][0]] == ref[i]:
            groups[-1].append(i)
        else:
            groups.append([i])
    for g in groups:
        h = g[0]
        for i in g[1:]:
            if not (abs(u[i] - u[h]) <= 1e-12):
                ctx.violation("standard_normal:equal-ranks-differ:%s%s" % (mkey, sfx), case,
                              "n=%d: values %d and %d have equal ranks but scores %r and %r" % (n, h, i, float(u[h]), float(u[i])))
                return
            if not (rk[i] == rk[h]):
                ctx.violation("standard_normal:returned-ranks:%s%s" % (mkey, sfx), case,
                              "n=%d: returned ranks %r and %r differ for the tied values %d and %d" % (
                                  n, rk[h], rk[i], h, i))
                return
    for lo, hi in zip(groups[:-1], groups[1:]):
        a = max(lo, key=lambda i: u[i])
        b = min(hi, key=lambda i: u[i])
        if not (u[a] < u[b]):
            ctx.violation("standard_normal:not-strictly-increasing-in-rank:%s%s" % (mkey, sfx), case,
                          "n=%d: value %d has a lower %s rank than value %d but score %r !< %r" % (
                              n, a, mkey, b, float(u[a]), float(u[b])))
            return
        if not (rk[lo[0]] < rk[hi[0]]):
            ctx.violation("standard_normal:returned-ranks:%s%s" % (mkey, sfx), case,
                          "n=%d: returned ranks %r (value %d) and %r (value %d) do not order like the %s ranks" % (
                              n, rk[lo[0]], lo[0], rk[hi[0]], hi[0], mkey))
            return


def gen_vec(spec):
    """standard_normal ladder vectors (NaN-free)"""
    return gen_col(spec)


def run_snormlad_unit(unit, ctx):
    first = True
    for n in unit["ns"]:
        for gi, g in enumerate(("ties", "ramp", "two", "fine")):
            spec = {"gen": g, "n": n, "seed": unit["seed"]}
            x = gen_vec(spec)
            for mi, method in enumerate(METHODS):
                for ci, cst in enumerate(unit["csts"]):
                    lay = SNORM_LAYOUTS if (ci == (mi + gi) % len(unit["csts"])) else ()
                    check_snorm(ctx, x, cst, method, False, sample=first and n < 40, spec=spec, layouts=lay,
                                sfx=":ladder")
                    first = False
            xs = sorted(x)
            sspec = dict(spec, sort=True)
            for cst in unit["csts"][:2]:
                check_snorm(ctx, xs, cst, "average", True, spec=sspec, layouts=SNORM_LAYOUTS[:3], sfx=":ladder")


def run_snorm_unit(unit, ctx):
    L, method = unit["len"], unit["method"]
    first = True
    for x in itertools.product([0.0, 1.0, 2.0], repeat=L):
        x = list(x)
        for cst in unit["csts"]:
            check_snorm(ctx, x, cst, method, False, sample=first)
            first = False
            if method == "average" and x == sorted(x):
                check_snorm(ctx, x, cst, method, True)
    if method == "average" and L >= 1:
        for i in range(L):
            x = [0.0, 1.0, 2.0, 1.0, 0.0, 2.0][:L]
            x[i] = NAN
            check_snorm(ctx, x, 0.3, method, False)


# --------------------------------------------------------------------------- pareto_front
def pareto_ref(data, orientation):
    """-> (must_be_dominated, may_be_dominated) boolean arrays; comparisons only"""
    n = data.shape[0]
    diff = data[None, :, :] - data[:, None, :]         # [i, j, k] = data[j,k]-data[i,k]
    miss = np.isnan(diff)
    better = (orientation * diff) > 0
    pair = (better | miss).all(axis=2)
    np.fill_diagonal(pair, False)
    informative = (~miss).any(axis=2)
    strict = (pair & informative).any(axis=1)
    vac = (pair & ~informative).any(axis=1)
    return strict, (vac & ~strict)


def pareto_ref_blocks(data, orientation, block=128):
    """pareto_ref for many points: the same pairwise definition evaluated for `block` rows at a time
    (memory block x n x d instead of n x n x d)"""
    n = data.shape[0]
    strict = np.zeros(n, dtype=bool)
    vac = np.zeros(n, dtype=bool)
    for i0 in range(0, n, block):
        i1 = min(n, i0 + block)
        diff = data[None, :, :] - data[i0:i1, None, :]      # [i, j, k] = data[j,k]-data[i0+i,k]
        miss = np.isnan(diff)
        better = (orientation * diff) > 0
        pair = (better | miss).all(axis=2)
        pair[np.arange(i1 - i0), np.arange(i0, i1)] = False
        informative = (~miss).any(axis=2)
        strict[i0:i1] = (pair & informative).any(axis=1)
        vac[i0:i1] = (pair & ~informative).any(axis=1)
    return strict, (vac & ~strict)


PARETO_LAYOUTS = ["f32", "int64", "strided", "readonly", "frame"]


def pareto_class(data):
    if np.isnan(data).any():
        return "nan-coordinates"
    return "complete"


def check_pareto(ctx, data, variants=True, sample=False, spec=None, layouts=(), sfx=""):
    """data: float64 (n,d). Runs both orientations (+ negation and layout relations).
    spec: compact description of generated data (gen_pareto) used in the case instead of the cells;
    layouts: both orientations are run again with the same values in these layouts."""
    from hydrodiy.stat import sutils
    n, d = data.shape

    def case(orient):
        c = {"kind": "pareto", "shape": [n, d], "orientation": orient}
        if spec is not None:
            c["gen"] = spec
        else:
            c["data"] = [enc_list(r) for r in data.tolist()]
        if layouts:
            c["layouts"] = list(layouts)
        if sfx:
            c["sfx"] = sfx
        return c
    res = {}
    for orient in (1, -1):
        try:
            out = sutils.pareto_front(recycle("pareto", data), orient)
        except Exception as e:
            ctx.case(n >= 2)
            ctx.violation("pareto_front:raised:%s%s" % (type(e).__name__, sfx), case(orient), "raised %r" % (e,))
            return
        out = np.asarray(out)
        res[orient] = out
        ctx.case(n >= 2, outcome=(orient, out.tobytes()), sample=case(orient) if (sample and orient == 1) else None)
        if out.shape != (n,):
            ctx.violation("pareto_front:length" + sfx, case(orient), "expected %d flags, got shape %r" % (n, out.shape))
            return
        if n == 0:
            continue
        if not np.isin(out, (0, 1)).all():
            ctx.violation("pareto_front:flag-values" + sfx, case(orient), "flags outside {0,1}: %s" % show(out.tolist()))
            return
        must, may = pareto_ref(data, orient) if n <= 256 else pareto_ref_blocks(data, orient)
        got = out == 1
        bad = (got != must) & ~may
        if may.any():
            ctx.count("unjudged.pareto.verdict-hinges-on-pair-without-common-coordinate", int(may.sum()))
        if must.any():
            ctx.count("pareto.some-dominated")
        if bad.any():
            i = int(np.where(bad)[0][0])
            what = "dominated-not-flagged" if must[i] else "flagged-not-dominated"
            ctx.violation("pareto_front:%s:%s:orientation=%d%s" % (what, pareto_class(data), orient, sfx), case(orient),
                          "point %d %r of %d: flag %d, definition says %d" % (i, data[i].tolist(), n, int(out[i]), int(must[i])),
                          observed=out.tolist() if n <= 300 else out[:300].tolist(),
                          expected=must.astype(int).tolist() if n <= 300 else must[:300].astype(int).tolist())
        if not np.isnan(data).any() and got.all():
            ctx.violation("pareto_front:empty-front:complete-data:orientation=%d%s" % (orient, sfx), case(orient),
                          "every point of a complete data set is flagged dominated",
                          observed=out.tolist() if n <= 300 else out[:300].tolist())
    # ---- the same values in other layouts / dtypes: same flags
    for name in (layouts if n > 0 else ()):
        v = variant_2d(data, name)
        if v is None:
            ctx.count("layout-not-applicable.pareto_front.%s" % name)
            continue
        for orient in (1, -1):
            try:
                alt = np.asarray(sutils.pareto_front(v, orient))
            except Exception as e:
                ctx.case(n >= 2)
                ctx.count("layout-rejected.pareto_front.%s.%s" % (name, type(e).__name__))
                break
            ctx.case(n >= 2, outcome=(name, orient, alt.tobytes()))
            ctx.count("layout.pareto_front.%s" % name)
            if alt.shape != res[orient].shape or not np.array_equal(alt, res[orient]):
                ctx.violation("pareto_front:layout=%s" % name, case(orient),
                              "%d x %d points given as %s: flags differ from the float64 C-ordered call (%d flags differ)" % (
                                  n, d, name, -1 if alt.shape != res[orient].shape else int((alt != res[orient]).sum())))
                break
    if not variants or n == 0:
        return
    # orientation -1 == negated data with orientation +1
    try:
        neg = np.asarray(sutils.pareto_front(-data, 1))
        ctx.case(n >= 2, outcome=("neg", neg.tobytes()))
        if not np.array_equal(neg, res[-1]):
            ctx.violation("pareto_front:orientation-vs-negation:%s%s" % (pareto_class(data), sfx), case(-1),
                          "pareto_front(data,-1)=%s but pareto_front(-data,+1)=%s" % (show(res[-1].tolist()), show(neg.tolist())))
    except Exception as e:
        ctx.case(n >= 2)
        ctx.violation("pareto_front:raised:%s%s" % (type(e).__name__, sfx), case(1), "negated data raised %r" % (e,))
    if d >= 2 and n >= 2:
        f = np.asarray(sutils.pareto_front(np.asfortranarray(data), 1))
        ctx.case(True, outcome=("F", f.tobytes()))
        if not np.array_equal(f, res[1]):
            ctx.violation("pareto_front:fortran-layout" + sfx, case(1),
                          "Fortran-ordered input gives %s, C-ordered %s" % (show(f.tolist()), show(res[1].tolist())))


def pareto_shapes(maxcells):
    out = []
    for d in range(1, 6):
        for n in range(0, maxcells // d + 1):
            out.append((n, d))
    return out


def run_pareto_unit(unit, ctx):
    n, d = unit["n"], unit["d"]
    alpha = [dec(v) for v in unit["alpha"]]
    pre = [dec(v) for v in unit["prefix"]]
    cells = n * d
    first = True
    for rest in itertools.product(alpha, repeat=cells - len(pre)):
        data = np.array(pre + list(rest), dtype=np.float64).reshape(n, d)
        check_pareto(ctx, data, sample=first)
        first = False


def run_paretolad_unit(unit, ctx):
    d = unit["d"]
    first = True
    for n in unit["ns"]:
        gens = ["ties", "chain", "lattice", "lattice-nan", "lattice-fine"] + (["anti", "front"] if d >= 2 else [])
        for gi, g in enumerate(gens):
            spec = {"gen": g, "n": n, "d": d, "seed": unit["seed"]}
            check_pareto(ctx, gen_pareto(spec), sample=first and n < 40, spec=spec,
                         layouts=PARETO_LAYOUTS if g in ("lattice", "lattice-nan", "lattice-fine", "front", "chain") else (),
                         sfx=":ladder")
            first = False


def pareto_base(kind, n, d, seed):
    if kind == "ties":
        return np.zeros((n, d))
    if kind == "chain":
        return np.repeat(np.arange(n, dtype=np.float64)[:, None], d, axis=1)
    # anti-chain: coordinates alternate i and n-1-i (d>=2), so nobody dominates
    base = np.zeros((n, d))
    for k in range(d):
        base[:, k] = np.arange(n) if (k + seed) % 2 == 0 else n - 1 - np.arange(n)
    return base


def run_paretodev_unit(unit, ctx):
    n, d, kind, maxdev = unit["n"], unit["d"], unit["base"], unit["maxdev"]
    base = pareto_base(kind, n, d, unit["seed"])
    cellsl = [(i, k) for i in range(n) for k in range(d)]

    def devvals(i, k):
        if kind == "ties":
            return [NAN, -1.0, 1.0]
        return [NAN, -1.0, float(n), float(base[(i + 1) % n, k])]
    devs = [(i, k, v) for (i, k) in cellsl for v in devvals(i, k)]
    lo, hi = unit.get("slice", [0, len(devs)])
    if lo == 0:
        check_pareto(ctx, base.copy(), sample=True)
    for a in range(lo, hi):
        i, k, v = devs[a]
        dat = base.copy()
        dat[i, k] = v
        check_pareto(ctx, dat, variants=(maxdev < 2))
        if maxdev >= 2:
            for b in range(a + 1, len(devs)):
                i2, k2, v2 = devs[b]
                if (i2, k2) == (i, k):
                    continue
                dat2 = dat.copy()
                dat2[i2, k2] = v2
                check_pareto(ctx, dat2, variants=False)


# --------------------------------------------------------------------------- box / violin reference
def col_class(col):
    fin = [v for v in col if math.isfinite(v)]
    if len(col) == 0:
        return "empty"
    if any(math.isinf(v) for v in col):
        return "inf-in-column"
    if any(math.isnan(v) for v in col):
        return "nan-in-column"
    if len(set(fin)) == 1 and len(fin) >= 2:
        return "constant-column"
    return "finite-column"


def nontrivial_col(col):
    fin = [v for v in col if math.isfinite(v)]
    return len(fin) != len(col) or len(set(fin)) < len(fin)


def ref_quantile(xs, q):
    """xs sorted Fractions (non-empty), q Fraction in [0,1]: linear interpolation of order statistics"""
    n = len(xs)
    pos = q * (n - 1)
    lo = pos.numerator // pos.denominator
    fr = pos - lo
    if lo >= n - 1:
        return xs[n - 1]
    return xs[lo] + (xs[lo + 1] - xs[lo]) * fr


def levels(box, whisk):
    """-> [(label, Fraction level in percent)] in the order wlo, blo, median, bhi, whi"""
    out = []
    fb, fw = Fraction(str(box)), Fraction(str(whisk))
    lv = [(100 - fw) / 2, (100 - fb) / 2, Fraction(50), 100 - (100 - fb) / 2, 100 - (100 - fw) / 2]
    bq1 = float(100 - box) / 2
    wq1 = float(100 - whisk) / 2
    fl = [wq1, bq1, 50, 100. - bq1, 100. - wq1]
    for f, l in zip(fl, lv):
        out.append(("{0:0.1f}%".format(f), l))
    return out


STATN = ["whisker-low", "box-low", "median", "box-high", "whisker-high"]


def ref_box(col, box, whisk):
    """-> dict label -> Fraction or None (NaN) ; plus 'count'"""
    fin = sorted(Fraction(v) for v in col if math.isfinite(v))
    exp = {"count": len(fin)}
    lv = levels(box, whisk)
    if not fin:
        for lab, _ in lv:
            exp[lab] = None
        exp["mean"] = exp["min"] = exp["max"] = None
        return exp, lv
    for lab, q in lv:
        exp[lab] = ref_quantile(fin, q / 100)
    exp["mean"] = sum(fin) / len(fin)
    exp["min"], exp["max"] = fin[0], fin[-1]
    return exp, lv


def judge_box(ctx, func, col, box, whisk, get, case, sfx=""):
    """get(label) -> observed float (NaN when the label is absent)"""
    exp, lv = ref_box(col, box, whisk)
    cls = col_class(col)
    nfin = exp["count"]
    cnt = get("count")
    if not (cnt == nfin):
        ctx.violation("%s:count:%s%s" % (func, cls, sfx), case,
                      "count %r but the column holds %d finite values" % (cnt, nfin), observed=enc(cnt), expected=nfin)
    names = [(lab, STATN[i], 1e-9) for i, (lab, _) in enumerate(lv)] + \
            [("mean", "mean", 1e-12), ("min", "min", 1e-12), ("max", "max", 1e-12)]
    obs = {}
    for lab, nm, tol in names:
        o = get(lab)
        obs[nm] = o
        if nfin < 4:
            if math.isnan(o):
                ctx.count("box.lt4-finite.nan-row-accepted")
                continue
            if exp[lab] is None:
                ctx.violation("%s:%s:value-without-data:%s%s" % (func, nm, cls, sfx), case,
                              "%s = %r but the column has no finite value" % (lab, o))
                continue
        if not feq(o, exp[lab], tol):
            ctx.violation("%s:%s:%s%s" % (func, nm, cls, sfx), case,
                          "%s: observed %r, %s of the %d finite values %s is %r" % (
                              lab, o, nm, nfin, show([float(v) for v in col if math.isfinite(v)]),
                              None if exp[lab] is None else float(exp[lab])),
                          observed=enc(o), expected=None if exp[lab] is None else float(exp[lab]))
    seq = [obs[k] for k in ("min", "whisker-low", "box-low", "median", "box-high", "whisker-high", "max")]
    if not any(math.isnan(v) for v in seq):
        ctx.count("box.order-checked")
        for a, b in zip(seq[:-1], seq[1:]):
            if a > b + 1e-12 * max(1.0, abs(b)):
                ctx.violation("%s:order:%s%s" % (func, cls, sfx), case,
                              "min <= percentiles <= max violated: %r" % (seq,), observed=enc_list(seq))
                break


def check_bs(ctx, col, box, whisk, sample=False, spec=None, layouts=(), sfx=""):
    from hydrodiy.plot.boxplot import boxplot_stats
    case = {"kind": "bs", "col": spec if spec is not None else enc_list(col), "box": box, "whisk": whisk}
    if layouts:
        case["layouts"] = list(layouts)
    if sfx:
        case["sfx"] = sfx
    nt = nontrivial_col(col)
    try:
        st = boxplot_stats(recycle("col", np.array(col, dtype=np.float64)), box, whisk)
    except Exception as e:
        ctx.case(nt)
        ctx.violation("boxplot_stats:raised:%s:%s%s" % (type(e).__name__, col_class(col), sfx), case, "raised %r" % (e,))
        return
    ctx.case(nt, outcome=hash(np.asarray(st.values, dtype=np.float64).tobytes()), sample=case if sample else None)
    d = {k: float(v) for k, v in zip(st.index, st.values)}
    judge_box(ctx, "boxplot_stats", col, box, whisk, lambda lab: d.get(lab, NAN), case, sfx)
    # ---- the same column in other layouts
    for name in layouts:
        v = variant_1d(col, name)
        if v is None:
            ctx.count("layout-not-applicable.boxplot_stats.%s" % name)
            continue
        try:
            st2 = boxplot_stats(v, box, whisk)
        except Exception as e:
            ctx.case(nt)
            ctx.count("layout-rejected.boxplot_stats.%s.%s" % (name, type(e).__name__))
            continue
        ctx.case(nt, outcome=(name, hash(np.asarray(st2.values, dtype=np.float64).tobytes())))
        ctx.count("layout.boxplot_stats.%s" % name)
        # float32 data: numpy interpolates the percentiles and averages in float32 (6e-8 relative rounding)
        w = same_table(st2, st, 2e-5 if name == "f32" else 1e-9)
        if w is not None:
            ctx.violation("boxplot_stats:layout=%s" % name, case,
                          "boxplot_stats of the same %d values given as %s differs from the float64 array call: %s" % (
                              len(col), name, w))


BX_LAYOUTS = ["fortran", "f32", "int64", "strided", "readonly", "frame"]


def check_bx(ctx, cols, box, whisk, inp, sample=False, specs=None, layouts=(), sfx=""):
    """Boxplot(frame of columns).stats ; inp in frame / array / series (series: one column)"""
    from hydrodiy.plot.boxplot import Boxplot
    case = {"kind": "bx", "cols": specs if specs is not None else [enc_list(c) for c in cols], "box": box,
            "whisk": whisk, "input": inp}
    if layouts:
        case["layouts"] = list(layouts)
    if sfx:
        case["sfx"] = sfx
    nt = any(nontrivial_col(c) for c in cols)
    arr = np.array(cols, dtype=np.float64).reshape(len(cols), -1).T
    names = list(range(len(cols)))
    if inp == "frame":
        names = ["c%d" % i for i in range(len(cols))]
        data = pd.DataFrame(arr, columns=names)
    elif inp == "series":
        data = pd.Series(arr[:, 0])
    elif inp == "array1d":
        data = arr[:, 0]
    else:
        data = arr
    try:
        st = Boxplot(data, box_coverage=box, whiskers_coverage=whisk).stats
    except Exception as e:
        ctx.case(nt, n=len(cols))
        ctx.violation("Boxplot.stats:raised:%s%s" % (type(e).__name__, sfx), case, "Boxplot raised %r" % (e,))
        return
    ctx.case(nt, n=len(cols), outcome=hash(np.asarray(st.values, dtype=np.float64).tobytes()),
             sample=case if sample else None)
    if arr.shape[0] == 0 and st.shape[0] == 0:
        ctx.count("unjudged.Boxplot.empty-frame-no-rows")
        return
    for j, col in enumerate(cols):
        if names[j] not in st.columns:
            ctx.violation("Boxplot.stats:column-missing" + sfx, case, "column %r missing from stats" % (names[j],))
            continue
        se = st[names[j]]
        d = {k: float(v) for k, v in zip(se.index, se.values)}
        judge_box(ctx, "Boxplot.stats", col, box, whisk, lambda lab: d.get(lab, NAN), dict(case, column=j), sfx)
    # ---- the same block of columns in other layouts
    for name in layouts:
        if arr.shape[1] > 1:
            v = variant_2d(arr, name)
        else:
            v = None if name == "fortran" else variant_1d(arr[:, 0], "series" if name == "frame" else name)
        if v is None:
            ctx.count("layout-not-applicable.Boxplot.%s" % name)
            continue
        try:
            st2 = Boxplot(v, box_coverage=box, whiskers_coverage=whisk).stats
        except Exception as e:
            ctx.case(nt, n=len(cols))
            ctx.count("layout-rejected.Boxplot.%s.%s" % (name, type(e).__name__))
            continue
        ctx.case(nt, n=len(cols), outcome=(name, hash(np.asarray(st2.values, dtype=np.float64).tobytes())))
        ctx.count("layout.Boxplot.%s" % name)
        w = same_table(st2, st, 1e-9)
        if w is not None:
            ctx.violation("Boxplot.stats:layout=%s" % name, case,
                          "Boxplot(%d x %d values given as %s).stats differs from the float64 call: %s" % (
                              arr.shape[0], arr.shape[1], name, w))


BY_LAYOUTS = ["series", "strided", "f32", "int64", "readonly", "by-array", "by-series"]


def by_variant(col, by, name):
    """-> (data, by) in another layout or None"""
    n = len(col)
    if name == "series":            # data and by as Series sharing a non-default index
        idx = 5 + 3 * np.arange(n)[::-1]
        return pd.Series(np.array(col, dtype=np.float64), index=idx), pd.Series(list(by), index=idx)
    if name == "by-array":
        return np.array(col, dtype=np.float64), np.array(list(by))
    if name == "by-series":
        return np.array(col, dtype=np.float64), pd.Series(list(by), name="grp")
    v = variant_1d(col, name)
    return None if v is None else (v, list(by))


def check_by(ctx, col, by, box, whisk, sample=False, spec=None, byspec=None, layouts=(), sfx=""):
    from hydrodiy.plot.boxplot import Boxplot
    case = {"kind": "by", "col": spec if spec is not None else enc_list(col),
            "by": byspec if byspec is not None else list(by), "box": box, "whisk": whisk}
    if layouts:
        case["layouts"] = list(layouts)
    if sfx:
        case["sfx"] = sfx
    try:
        st = Boxplot(np.array(col, dtype=np.float64), by=list(by), box_coverage=box, whiskers_coverage=whisk).stats
    except Exception as e:
        ctx.case(True)
        ctx.violation("Boxplot.stats[by]:raised:%s%s" % (type(e).__name__, sfx), case, "Boxplot(by=) raised %r" % (e,))
        return
    ctx.case(True, outcome=hash(np.asarray(st.values, dtype=np.float64).tobytes()), sample=case if sample else None)
    cats = sorted(set(by))
    if sorted(st.columns.tolist()) != cats:
        ctx.violation("Boxplot.stats[by]:categories" + sfx, case,
                      "stats columns %r, categories %r" % (st.columns.tolist(), cats))
        return
    for c in cats:
        sub = [v for v, b in zip(col, by) if b == c]
        se = st[c]
        d = {k: float(v) for k, v in zip(se.index, se.values)}
        for lab in ("min", "max", "mean"):
            if lab not in d:
                ctx.count("by.row-absent-read-as-nan")
                break
        judge_box(ctx, "Boxplot.stats[by]", sub, box, whisk, lambda lab: d.get(lab, NAN), dict(case, group=c), sfx)
    # ---- the same data / grouping vector in other layouts
    for name in layouts:
        v = by_variant(col, by, name)
        if v is None:
            ctx.count("layout-not-applicable.Boxplot[by].%s" % name)
            continue
        try:
            st2 = Boxplot(v[0], by=v[1], box_coverage=box, whiskers_coverage=whisk).stats
        except Exception as e:
            ctx.case(True)
            ctx.count("layout-rejected.Boxplot[by].%s.%s" % (name, type(e).__name__))
            continue
        ctx.case(True, outcome=(name, hash(np.asarray(st2.values, dtype=np.float64).tobytes())))
        ctx.count("layout.Boxplot[by].%s" % name)
        w = None
        if sorted(map(str, st2.columns.tolist())) != sorted(map(str, st.columns.tolist())):
            w = "categories %r vs %r" % (st2.columns.tolist(), st.columns.tolist())
        else:
            st2 = st2[list(st.columns)]
            w = same_table(st2, st, 1e-9)
        if w is not None:
            ctx.violation("Boxplot.stats[by]:layout=%s" % name, case,
                          "Boxplot(%d values given as %s, by=).stats differs from the float64 array / list call: %s" % (
                              len(col), name, w))


VSTAT = [("Q0", "low-extreme", Fraction(0)), ("Q25", "low-quartile", Fraction(1, 4)),
         ("median", "median", Fraction(1, 2)), ("Q75", "high-quartile", Fraction(3, 4)),
         ("Q100", "high-extreme", Fraction(1))]


def judge_violin_col(ctx, col, st, kx, ky, case, sfx=""):
    cls = col_class(col)
    fin = sorted(Fraction(v) for v in col if math.isfinite(v))
    for lab, nm, q in VSTAT:
        try:
            o = float(st[lab])
        except KeyError:
            o = NAN
        e = ref_quantile(fin, q) if fin else None
        if not feq(o, e, 1e-9):
            ctx.violation("Violin:stats:%s:%s%s" % (nm, cls, sfx), case,
                          "%s: observed %r, %s of the %d finite values %s is %r" % (
                              lab, o, nm, len(fin), show([float(v) for v in fin]), None if e is None else float(e)),
                          observed=enc(o), expected=None if e is None else float(e))
    ky = np.asarray(ky, dtype=np.float64)
    kx = np.asarray(kx, dtype=np.float64)
    allnan = bool(np.isnan(ky).all())
    degenerate = len(fin) <= 2 or len(set(fin)) == 1
    if allnan and degenerate:
        ctx.count("violin.kde-all-nan.degenerate-column")
        return
    if len(ky) == 0:
        ctx.violation("Violin:kde_y:empty-profile:%s%s" % (cls, sfx), case, "no density profile for %d finite values" % len(fin))
        return
    ctx.count("violin.kde-judged")
    if np.isnan(ky).any() or not (abs(float(ky.min())) <= 1e-12 and abs(float(ky.max()) - 1.0) <= 1e-12):
        ctx.violation("Violin:kde_y:not-normalised:%s%s" % (cls, sfx), case,
                      "density profile of %d finite values: min %r max %r nan %d (expected 0 .. 1)" % (
                          len(fin), float(np.nanmin(ky)) if not allnan else NAN,
                          float(np.nanmax(ky)) if not allnan else NAN, int(np.isnan(ky).sum())))
    if fin and not np.isnan(kx).any() and (np.diff(kx) >= 0).all() \
            and kx[0] >= float(fin[0]) - 1e-5 and kx[-1] <= float(fin[-1]) + 1e-5:
        ctx.count("violin.kde_x-sorted-inside-data-range")
    else:
        ctx.count("unjudged.violin.kde_x-other")


def violin_exc_key(e, col):
    fin = [v for v in col if math.isfinite(v)]
    cls = col_class(col)
    if len(fin) >= 3 and len(set(fin)) == 1:
        cls = "constant-column"
    return "Violin:raised:%s:%s" % (type(e).__name__, cls)


VI_LAYOUTS = ["fortran", "f32", "int64", "strided", "readonly", "frame"]


def check_violin(ctx, env, cols, jit, sample=False, specs=None, layouts=(), sfx=""):
    """Violin(frame).stats/kde ; when a frame raises every column is re-run alone for attribution"""
    from hydrodiy.plot.violinplot import Violin
    case = {"kind": "violin", "cols": specs if specs is not None else [enc_list(c) for c in cols], "jitter": jit}
    if layouts:
        case["layouts"] = list(layouts)
    if sfx:
        case["sfx"] = sfx
    nt = any(nontrivial_col(c) for c in cols)
    arr = np.array(cols, dtype=np.float64).reshape(len(cols), -1).T
    env.script(None, jit)
    try:
        vl = Violin(arr if len(cols) > 1 else arr[:, 0])
        st, kx, ky = vl.stats, vl.kde_x, vl.kde_y
    except Exception as e:
        ctx.case(nt, n=len(cols))
        if len(cols) == 1:
            ctx.violation(violin_exc_key(e, cols[0]) + sfx, case, "Violin raised %r" % (e,))
        else:
            ctx.count("violin.frame-raised-rerun-per-column")
            for ci, c in enumerate(cols):
                check_violin(ctx, env, [c], jit, specs=None if specs is None else [specs[ci]], sfx=sfx)
        return
    ctx.case(nt, n=len(cols), outcome=hash(np.asarray(st.values, dtype=np.float64).tobytes()
                                           + np.asarray(ky.values, dtype=np.float64).tobytes()),
             sample=case if sample else None)
    if env.nunif and not env.unscripted:
        ctx.count("violin.jitter-answer-consumed")
    for j, col in enumerate(cols):
        if j not in st.columns or j not in ky.columns or j not in kx.columns:
            ctx.violation("Violin:column-missing" + sfx, case, "column %d missing from stats / kde" % j)
            continue
        judge_violin_col(ctx, col, st[j], kx[j].values, ky[j].values, dict(case, column=j), sfx)
    # ---- the same block of columns in other layouts (same scripted jitter answer)
    for name in layouts:
        if arr.shape[1] > 1:
            v = variant_2d(arr, name)
        else:
            v = None if name == "fortran" else variant_1d(arr[:, 0], "series" if name == "frame" else name)
        if v is None:
            ctx.count("layout-not-applicable.Violin.%s" % name)
            continue
        env.script(None, jit)
        try:
            vl2 = Violin(v)
            st2, kx2, ky2 = vl2.stats, vl2.kde_x, vl2.kde_y
        except Exception as e:
            ctx.case(nt, n=len(cols))
            ctx.count("layout-rejected.Violin.%s.%s" % (name, type(e).__name__))
            continue
        ctx.case(nt, n=len(cols), outcome=(name, hash(np.asarray(st2.values, dtype=np.float64).tobytes())))
        ctx.count("layout.Violin.%s" % name)
        w = same_table(st2, st, 1e-9)
        what = "stats"
        if w is None:
            w, what = same_table(ky2, ky, 1e-9), "kde_y"
        if w is None:
            w, what = same_table(kx2, kx, 1e-9), "kde_x"
        if w is not None:
            ctx.violation("Violin:layout=%s:%s" % (name, what), case,
                          "Violin(%d x %d values given as %s).%s differs from the float64 call: %s" % (
                              arr.shape[0], arr.shape[1], name, what, w))


# --------------------------------------------------------------------------- column units
def col_alphabet(extra, nl=6):
    return COLA[:nl] + ([EXTRA_LETTERS[extra]] if extra is not None else [])


def columns_of(unit):
    A = col_alphabet(unit.get("extra"), unit.get("nl", 6))
    pre = [A[i] for i in unit["prefix"]]
    L = unit["len"]
    for rest in itertools.product(A, repeat=L - len(pre)):
        col = pre + list(rest)
        if unit.get("extra") is not None and EXTRA_LETTERS[unit["extra"]] not in col:
            continue            # already covered by the base alphabet units
        yield col


def frames_of(unit, k=3):
    buf = []
    for col in columns_of(unit):
        buf.append(col)
        if len(buf) == k:
            yield buf
            buf = []
    if buf:
        yield buf


def run_col_unit(unit, ctx):
    part = unit["part"]
    first = True
    if part == "bs":
        pairs = [COVP[i] for i in unit["pairs"]]
        for col in columns_of(unit):
            for box, whisk in pairs:
                check_bs(ctx, col, box, whisk, sample=first)
                first = False
    elif part == "bx":
        pairs = [COVP[i] for i in unit["pairs"]]
        fi = 0
        for cols in frames_of(unit):
            for box, whisk in pairs:
                inp = "frame" if fi % 2 == 0 else "array"
                if len(cols) == 1:
                    inp = "series" if fi % 2 == 0 else "array1d"
                check_bx(ctx, cols, box, whisk, inp, sample=first)
                first = False
            fi += 1
    elif part == "vi":
        env = Env()
        env.install()
        try:
            k = unit.get("frame", 3)
            for cols in frames_of(unit, k):
                for jit in unit["jits"]:
                    check_violin(ctx, env, cols, jit, sample=first)
                    first = False
        finally:
            env.restore()
    elif part == "by":
        box, whisk = COVP[unit["pair"]]
        for col in columns_of(unit):
            for by in unit["bys"]:
                check_by(ctx, col, by, box, whisk, sample=first)
                first = False


def big_columns(n, seed):
    """n-value columns: ramp with ties, <= 1 deviation"""
    base = [0.5 * ((i * 7 + seed) % 23) for i in range(n)]
    yield list(base)
    for i in range(n):
        for v in (NAN, INF, -INF):
            c = list(base)
            c[i] = v
            yield c
    yield [1.0] * n
    yield [NAN] * n
    yield [INF] * (n // 2) + [NAN] * (n - n // 2)


def run_bigcol_unit(unit, ctx):
    env = Env()
    env.install()
    try:
        first = True
        cols = list(big_columns(unit["n"], unit["seed"]))
        lo, hi = unit["slice"]
        stride = unit.get("stride")
        for ci, col in enumerate(cols[lo:hi]):
            if stride and (ci % stride[1]) != stride[0] * 53:
                continue
            for box, whisk in ((50, 90), (99, 99.9), (40, 41)):
                check_bs(ctx, col, box, whisk, sample=first)
                first = False
            check_bx(ctx, [col], 50, 90, "series")
            check_violin(ctx, env, [col], "m")
    finally:
        env.restore()


def run_boxlad_unit(unit, ctx):
    """columns with n values, n on the size ladder: boxplot_stats, Boxplot, Boxplot(by=), Violin"""
    env = Env()
    env.install()
    try:
        first = True
        seed = unit["seed"]
        for n in unit["ns"]:
            sp = {g: {"gen": g, "n": n, "seed": seed} for g in ("ties", "ramp", "holes", "onenan", "two", "decimal")}
            co = {g: gen_col(sp[g]) for g in sp}
            for gi, g in enumerate(("ties", "ramp", "holes", "onenan", "two", "decimal")):
                for pi, (box, whisk) in enumerate(((50, 90), (99, 99.9), (40, 41))):
                    check_bs(ctx, co[g], box, whisk, sample=first and n < 40, spec=sp[g],
                             layouts=LAY1 if pi == gi % 3 else (), sfx=":ladder")
                    first = False
            tri = ["ties", "ramp", "holes"]
            check_bx(ctx, [co[g] for g in tri], 50, 90, "frame", specs=[sp[g] for g in tri], sfx=":ladder")
            check_bx(ctx, [co[g] for g in tri], 99, 99.9, "array", specs=[sp[g] for g in tri],
                     layouts=BX_LAYOUTS, sfx=":ladder")
            duo = ["decimal", "two"]
            check_bx(ctx, [co[g] for g in duo], 75, 90, "array", specs=[sp[g] for g in duo],
                     layouts=BX_LAYOUTS, sfx=":ladder")
            check_bx(ctx, [co["onenan"]], 50, 90, "series", specs=[sp["onenan"]], layouts=BX_LAYOUTS, sfx=":ladder")
            check_bx(ctx, [co["ties"]], 40, 41, "array1d", specs=[sp["ties"]], sfx=":ladder")
            for g in ("ties", "holes", "decimal"):
                for bi, bg in enumerate(("mod", "blocks")):
                    bs = {"gen": bg, "n": n}
                    check_by(ctx, co[g], gen_by(bs), 50, 90, spec=sp[g], byspec=bs,
                             layouts=BY_LAYOUTS if (g, bg) in (("ties", "mod"), ("holes", "blocks"), ("decimal", "mod")) else (),
                             sfx=":ladder")
            check_violin(ctx, env, [co[g] for g in tri], "m", specs=[sp[g] for g in tri], layouts=VI_LAYOUTS,
                         sfx=":ladder")
            check_violin(ctx, env, [co[g] for g in duo], "l", specs=[sp[g] for g in duo], layouts=VI_LAYOUTS,
                         sfx=":ladder")
            check_violin(ctx, env, [co["onenan"]], "h", specs=[sp["onenan"]], layouts=VI_LAYOUTS, sfx=":ladder")
            check_violin(ctx, env, [co["ties"]], "m", specs=[sp["ties"]], sfx=":ladder")
    finally:
        env.restore()


def dev_by_cases(L, by, seed, full=True):
    fin = [0.0, 1.0, 2.5]
    base = [fin[(i + seed) % 3] for i in range(L)]
    yield list(base)
    devs = [(i, v) for i in range(L) for v in (COLA if full else [NAN, INF, 1.0])
            if not (v == base[i])]
    for a in range(len(devs)):
        i, v = devs[a]
        c = list(base)
        c[i] = v
        yield c
        for b in range(a + 1, len(devs)):
            j, w = devs[b]
            if j == i:
                continue
            c2 = list(c)
            c2[j] = w
            yield c2


def run_bydev_unit(unit, ctx):
    first = True
    by = unit["by"]
    for col in dev_by_cases(len(by), by, unit["seed"], unit.get("full", True)):
        for pi in unit["pairs"]:
            box, whisk = COVP[pi]
            check_by(ctx, col, by, box, whisk, sample=first)
            first = False


# --------------------------------------------------------------------------- units
def prefixes(L, plen, nletters=6):
    plen = min(plen, L)
    return [list(p) for p in itertools.product(range(nletters), repeat=plen)]


def units(tier, seed):
    quick = tier == "quick"
    us = []
    # ---- lhs
    nmax = 5 if quick else 7
    for n in range(1, nmax + 1):
        nf = math.factorial(n)
        nchunk = 1 if n <= 4 else (2 if n == 5 else (6 if n == 6 else 40))
        step = (nf + nchunk - 1) // nchunk
        for r in range(len(RANGES)):
            for lo in range(0, nf, step):
                us.append({"kind": "lhs1", "n": n, "range": r, "chunk": [lo, min(nf, lo + step)]})
    for p, nfull in ((2, 3 if quick else 4), (3, 3)):
        for n in range(1, nmax + 1):
            if n <= nfull:
                us.append({"kind": "lhsp", "n": n, "p": p, "full": True})
            elif n <= (5 if quick else 6):
                us.append({"kind": "lhsp", "n": n, "p": p, "full": False})
    for lo in range(8, 301, 40):
        us.append({"kind": "lhsmid", "lo": lo, "hi": min(301, lo + 40)})
    for n in (50, 300):
        us.append({"kind": "lhsreal", "n": n, "seed": seed, "draws": 5 if quick else 30})
    # ---- ppos
    csts = CSTS + [EXTRA_CST[seed % len(EXTRA_CST)]]
    for lo in range(0, 301, 60):
        us.append({"kind": "ppos", "lo": lo, "hi": min(301, lo + 60), "csts": csts})
    # ---- standard_normal
    for L in range(0, (5 if quick else 6) + 1):
        for m in METHODS:
            us.append({"kind": "snorm", "len": L, "method": m, "csts": csts})
    # ---- pareto
    A3 = [0.0, 1.0, None]
    maxcells = 9 if quick else 12
    for n, d in pareto_shapes(maxcells):
        cells = n * d
        plen = 0 if cells <= 7 else (cells - 7 if cells <= 10 else cells - 8)
        for pre in itertools.product(A3, repeat=plen):
            us.append({"kind": "pareto", "n": n, "d": d, "alpha": A3, "prefix": list(pre)})
    if not quick:
        A4 = [0.0, 1.0, 2.0, None]
        for n, d in pareto_shapes(8):
            cells = n * d
            if cells < 4:
                continue
            plen = 0 if cells <= 5 else cells - 5
            for pre in itertools.product(A4, repeat=plen):
                us.append({"kind": "pareto", "n": n, "d": d, "alpha": A4, "prefix": list(pre)})
    devshapes = [(12, 2, 2), (12, 3, 2), (60, 5, 1)] if quick else \
        [(12, 2, 2), (12, 3, 2), (20, 3, 2), (30, 2, 2), (60, 2, 2), (25, 5, 2), (60, 5, 1), (60, 1, 2), (2, 5, 2)]
    for n, d, md in devshapes:
        for base in ("ties", "chain", "anti"):
            if base == "anti" and d < 2:
                continue
            ndev = n * d * (3 if base == "ties" else 4)
            nsl = 1 if (md < 2 or ndev <= 150) else 8
            step = (ndev + nsl - 1) // nsl
            # slices of the first deviation; later slices are cheaper (triangular), so more of them at the front
            for lo in range(0, ndev, step):
                us.append({"kind": "paretodev", "n": n, "d": d, "base": base, "maxdev": md, "seed": seed,
                           "slice": [lo, min(ndev, lo + step)]})
    # ---- columns
    allpairs = list(range(len(COVP)))
    dflt = COVP.index((50, 90))
    alt = COVP.index((99, 99.9))
    alt2 = COVP.index((40, 41))
    alt3 = COVP.index((75, 76))
    for L in range(0, 7):
        plen = 0 if L <= 3 else (1 if L == 4 else 2)
        nl = 5 if (quick and L == 6) else 6
        for pre in prefixes(L, plen, nl):
            base = {"kind": "col", "len": L, "prefix": pre, "nl": nl}
            if quick:
                if L <= 5:
                    us.append(dict(base, part="bs", pairs=allpairs if L <= 4 else [dflt, alt, alt2]))
                us.append(dict(base, part="bx", pairs=[dflt]))
                us.append(dict(base, part="vi", jits=["m"] if L >= 5 else ["m", "l", "h"],
                               frame=3 if L >= 5 else 1))
            else:
                us.append(dict(base, part="bs", pairs=allpairs))
                us.append(dict(base, part="bx", pairs=[dflt, alt, alt2, alt3]))
                us.append(dict(base, part="vi", jits=["m"] if L >= 6 else ["m", "l", "h"], frame=3))
                if L <= 4:
                    us.append(dict(base, part="vi", jits=["m"], frame=1))
    # seed letter
    ex = seed % len(EXTRA_LETTERS)
    for L in range(1, (4 if quick else 5) + 1):
        plen = 0 if L <= 3 else 1
        for pre in prefixes(L, plen, 7):
            base = {"kind": "col", "len": L, "prefix": pre, "extra": ex}
            us.append(dict(base, part="bs", pairs=[dflt, alt]))
            us.append(dict(base, part="bx", pairs=[dflt]))
            us.append(dict(base, part="vi", jits=["m"], frame=3))
    # grouped
    if quick:
        for pre in prefixes(5, 2, 5):
            us.append({"kind": "col", "len": 5, "prefix": pre, "nl": 5, "part": "by", "pair": dflt,
                       "bys": [[1, 0, 1, 1, 1]]})
        for pre in prefixes(5, 1, 4):
            us.append({"kind": "col", "len": 5, "prefix": pre, "nl": 4, "part": "by", "pair": dflt,
                       "bys": [["a", "a", "a", "a", "b"]]})
    else:
        bys5 = [["a", "a", "a", "a", "b"], [1, 0, 1, 1, 1], ["y", "y", "x", "y", "y"]]
        for pre in prefixes(5, 2):
            us.append({"kind": "col", "len": 5, "prefix": pre, "part": "by", "pair": dflt, "bys": bys5})
        bys6 = [["a", "a", "a", "a", "b", "b"], [1, 1, 0, 0, 0, 0], ["a", "b", "a", "a", "a", "a"],
                [0, 0, 0, 0, 1, 2], ["c", "a", "b", "a", "b", "a"]]
        for pre in prefixes(6, 3):
            us.append({"kind": "col", "len": 6, "prefix": pre, "part": "by", "pair": dflt, "bys": bys6})
    for by in (["a"] * 4 + ["b"] * 5, [0, 1, 0, 1, 0, 1, 0, 1, 1], ["a"] * 4 + ["b"] * 5 + ["c"],
               [2, 0, 1, 1, 0, 1, 1, 0, 1, 0]):
        for pi in ([dflt] if quick else [dflt, alt, alt2]):
            us.append({"kind": "bydev", "by": by, "seed": seed, "pairs": [pi], "full": not quick})
    # large columns
    for n in ((300,) if quick else (100, 300, 700)):
        ncol = 3 * n + 4
        step = (ncol + 7) // 8
        for lo in range(0, ncol, step):
            us.append({"kind": "bigcol", "n": n, "seed": seed, "slice": [lo, min(ncol, lo + step)]})
    if quick:
        # columns longer than 500 values (every 53rd member of the 700-value deviation family)
        for part in range(4):
            us.append({"kind": "bigcol", "n": 700, "seed": seed, "slice": [0, 3 * 700 + 4], "stride": [part, 53 * 4]})
    # ---- size ladder (+ layout variants)
    lad = LADDER if quick else LADDER + LADDER_X

    # dense ranges (every size): box-plot / violin columns in both tiers, everything in thorough
    lad_box = sorted(set(lad) | set(range(7, 131 if quick else 301)))
    if not quick:
        lad = lad_box

    def groups(maxsum, sizes=None):
        out, cur = [], []
        for n in (lad if sizes is None else sizes):
            if cur and sum(cur) + n > maxsum:
                out.append(cur)
                cur = []
            cur.append(n)
        if cur:
            out.append(cur)
        return out
    for g in groups(1100, lad_box):
        us.append({"kind": "boxlad", "ns": g, "seed": seed})
    for d in (1, 2, 3, 5):
        for g in groups(2100):
            us.append({"kind": "paretolad", "ns": g, "d": d, "seed": seed})
    for g in groups(1100):
        us.append({"kind": "snormlad", "ns": g, "seed": seed, "csts": [0.0, 0.3, 0.5]})
    for g in groups(1100):
        us.append({"kind": "lhslad", "ns": g})
    us.append({"kind": "pposlad", "ns": lad, "csts": csts})
    return us


def run_unit(unit, ctx):
    k = unit["kind"]
    if k.startswith("lhs"):
        run_lhs_unit(unit, ctx)
    elif k in ("ppos", "pposlad"):
        run_ppos_unit(unit, ctx)
    elif k == "boxlad":
        run_boxlad_unit(unit, ctx)
    elif k == "paretolad":
        run_paretolad_unit(unit, ctx)
    elif k == "snormlad":
        run_snormlad_unit(unit, ctx)
    elif k == "snorm":
        run_snorm_unit(unit, ctx)
    elif k == "pareto":
        run_pareto_unit(unit, ctx)
    elif k == "paretodev":
        run_paretodev_unit(unit, ctx)
    elif k == "col":
        run_col_unit(unit, ctx)
    elif k == "bydev":
        run_bydev_unit(unit, ctx)
    elif k == "bigcol":
        run_bigcol_unit(unit, ctx)
    else:
        raise ValueError("unknown unit kind %r" % (k,))
    try:
        import matplotlib.pyplot as plt
        if plt.get_fignums():
            plt.close("all")
    except Exception:
        pass


def replay(case):
    from mc.explore import Result
    ctx = Result()
    k = case["kind"]
    env = Env()
    env.install()
    try:
        if k == "lhs":
            check_lhs(ctx, env, case["n"], case["pmin"], case["pmax"], case["perms"], case["jitter"],
                      seed=case.get("seed"), scalar_pmax=case.get("scalar_pmax", False),
                      layouts=case.get("layouts", ()), sfx=case.get("sfx", ""))
        elif k == "ppos":
            check_ppos(ctx, case["n"], case["cst"], layouts=case.get("layouts", ()), sfx=case.get("sfx", ""))
        elif k == "snorm":
            x = case["x"]
            if isinstance(x, dict):
                xv = gen_col(x)
                xv = sorted(xv) if x.get("sort") else xv
            else:
                xv = [dec(v) for v in x]
            check_snorm(ctx, xv, case["cst"], case["method"], case["sorted"],
                        spec=x if isinstance(x, dict) else None, layouts=case.get("layouts", ()),
                        sfx=case.get("sfx", ""))
        elif k == "pareto":
            n, d = case["shape"]
            if "gen" in case:
                data = gen_pareto(case["gen"])
            else:
                data = np.array([[dec(v) for v in r] for r in case["data"]], dtype=np.float64).reshape(n, d)
            check_pareto(ctx, data, spec=case.get("gen"), layouts=case.get("layouts", ()), sfx=case.get("sfx", ""))
        elif k == "bs":
            c = case["col"]
            check_bs(ctx, expand_col(c), case["box"], case["whisk"], spec=c if isinstance(c, dict) else None,
                     layouts=case.get("layouts", ()), sfx=case.get("sfx", ""))
        elif k == "bx":
            cs = case["cols"]
            check_bx(ctx, [expand_col(c) for c in cs], case["box"], case["whisk"], case["input"],
                     specs=cs if any(isinstance(c, dict) for c in cs) else None,
                     layouts=case.get("layouts", ()), sfx=case.get("sfx", ""))
        elif k == "by":
            c, b = case["col"], case["by"]
            check_by(ctx, expand_col(c), expand_by(b), case["box"], case["whisk"],
                     spec=c if isinstance(c, dict) else None, byspec=b if isinstance(b, dict) else None,
                     layouts=case.get("layouts", ()), sfx=case.get("sfx", ""))
        elif k == "violin":
            cs = case["cols"]
            check_violin(ctx, env, [expand_col(c) for c in cs], case["jitter"],
                         specs=cs if any(isinstance(c, dict) for c in cs) else None,
                         layouts=case.get("layouts", ()), sfx=case.get("sfx", ""))
        else:
            raise ValueError("unknown case kind %r" % (k,))
    finally:
        env.restore()
    return [v for lst in ctx.violations.values() for v in lst]
