"""C11 - flow accumulation equals the sum over everything upstream.

Same grid spaces as C06 (checks/_flow.py).  On every acyclic grid the value
oracle applies; cyclic grids and reduced max_accumulated_cells must terminate
without error.
"""
import itertools, math
from fractions import Fraction
import numpy as np
from checks import _flow
from checks._flow import FlowModel

ID = "C11"
# computational entry points whose results are watched by the engine's retained-result oracle (mc/explore.py)
RETAIN = [('hydrodiy.gis.grid', 'accumulate')]
SUPERVISED = True
CASE_TIMEOUT = 30.0
RULE = ("every flow-direction grid of the listed shapes over {0, 8 ESRI codes, a small invalid code, an invalid code beyond 2^32 whose low 32 bits are a valid code} (reduced per-cell "
        "alphabets where stated) x accumulated fields {default None, uniform 0.25, cell+1, position pattern over "
        "{-2,0,3}} executed on the real hydrodiy.gis.grid.accumulate and compared with the upstream-closure sum of an "
        "independent model (both as closure sum and as own + sum of direct upstream accumulated values); cyclic grids "
        "and max_accumulated_cells in {1,2} must terminate without error. evaluations = accumulate calls; "
        "non-trivial = acyclic grid with at least one cell draining into another; states = grids, transitions = cells "
        "compared, traces = upstream closures summed. Grids are generated once each.")
ASSUMPTIONS = [
    "terminal cells (sink, off-grid exit, invalid code) must carry the nodata value of the accumulated grid",
    "on cyclic grids only termination without error is required (values of cells not connected to a cycle are still judged)",
    "integer/dyadic fields keep float sums exact; tolerance 1e-9",
]


def bound_text(tier, seed):
    if tier == "quick":
        return ("all grids 1x1..1x3, 2x1, 3x1, 2x2 over 11 codes, 1x4/4x1 reduced alphabet, 2x3 and 3x3 <=2 deviations, "
                "1x8, 2x5, 4x4 <=1 deviation; 4 fields each")
    return ("all grids <=5 cells over 11 codes; all 2x3/3x2 over the reduced alphabet; all 3x3 over {in-grid dirs, sink}; "
            "1x8, 8x1, 2x5, 4x4 with <=2 deviations; 4 fields each (2 for 3x3)")


def units(tier, seed):
    from checks import c06_delineate
    us = c06_delineate.units(tier, seed)
    for u in us:
        u.pop("maxinlets", None)
    return us


def unit_grids(unit):
    from checks import c06_delineate
    return c06_delineate.unit_grids(unit)


def fields(nrows, ncols, seed, few=False):
    """(name, field values or None, nodata of the field grid, nodata of the flow direction grid).
    The no-data markers are chosen so that they are *reachable*: a partial sum can equal the marker
    (cell+1 with marker 3 = 1+2; counts with marker 3) and flow direction cells can hold the marker
    (the invalid code of this seed)."""
    ntot = nrows * ncols
    pat = [-2.0, 0.0, 3.0]
    inv = _flow.invalid_code(seed)
    f = [("default", None, None, 0),
         ("cell+1", [float(c + 1) for c in range(ntot)], -999.0, 0)]
    # values that need more than 24 significant bits (a single-precision intermediate would show)
    f.append(("tenths", [0.1 * (c + 1) for c in range(ntot)], -999.0, 0))
    if not few:
        f.append(("big-int", [float(2 ** 24 + 1 + 2 * c) for c in range(ntot)], -999.0, 0))
    # the same kind of field held in other storage types (the sums must still be the float64 sums of the values):
    # a boolean mask, small unsigned / signed integers whose sums leave the type's range, single precision
    f.append(("mask:dtype=bool", [float((c + seed) % 3 != 0) for c in range(ntot)], None, 0))
    f.append(("ones200:dtype=uint8", [200.0] * ntot, None, 0))
    f.append(("neg100:dtype=int8", [-100.0 + (c % 2) for c in range(ntot)], None, 0))
    f.append(("tenths:dtype=float32", [float(np.float32(0.1 * (c + 1))) for c in range(ntot)], None, 0))
    # grids that carry finite value bounds (mindata / maxdata): a fraction field bounded to [0, 1] whose sums exceed 1
    # with a no-data marker below the lower bound, and the default field over a flow grid bounded to [0, 128]
    f.append(("quarter:bounds=0,1", [0.25] * ntot, -999.0, 0))
    f.append(("default:fdbounds=0,128", None, None, 0))
    if few and ntot > 64:
        # long strips: a count can reach a typical 8-bit no-data marker
        f.append(("default:fdnodata=255", None, None, 255))
    if not few:
        f += [("uniform0.25", [0.25] * ntot, -999.0, 0),
              ("posneg", [pat[(c + seed) % 3] for c in range(ntot)], -999.0, 0),
              ("default:fdnodata=3", None, None, 3),
              ("default:fdnodata=invalid", None, None, inv),
              ("cell+1:nodata=3", [float(c + 1) for c in range(ntot)], 3.0, inv),
              ("posneg:nodata=0", [pat[(c + seed) % 3] for c in range(ntot)], 0.0, 0)]
    return f


def check_grid(ctx, nrows, ncols, codes, seed, few=False, strip=None):
    from hydrodiy.gis.grid import Grid, accumulate
    ntot = nrows * ncols
    m = FlowModel(nrows, ncols, codes)
    cyclic = m.has_cycle()
    base = {"shape": [nrows, ncols], "codes": list(codes), "seed": seed}
    if strip is not None and nrows * ncols > 64:
        base = {"shape": [nrows, ncols], "codes": None, "strip": strip, "seed": seed}
    ctx.states += 1
    nontriv = (not cyclic) and any(d >= 0 for d in m.down)
    arr = np.array(codes, dtype=np.int64).reshape(nrows, ncols)
    # cells touched by a cycle: on a cycle or downstream of nothing but... any cell whose upstream closure or chain meets a cycle
    tainted = set()
    if cyclic:
        for c in range(ntot):
            cells, cyc = m.chain(c)
            if cyc:
                tainted.update(cells)
        # everything downstream of a tainted cell is on the cycle already (chains end in the cycle)
    for fname, fvals, fnodata, fdnodata in fields(nrows, ncols, seed, few):
        case = dict(base, field=fname)
        fd = Grid("fd", ncols, nrows, dtype=np.int64, nodata=fdnodata)
        fd.data = arr
        if "fdbounds=" in fname and all(0 <= c <= 128 for c in codes):
            fd.mindata, fd.maxdata = 0, 128
        if fvals is None:
            toacc = None
            own = [1.0] * ntot
            nodata_exp = None
        else:
            fdt = np.dtype(fname.split("dtype=")[1]) if "dtype=" in fname else np.dtype(np.float64)
            if fnodata is None:
                toacc = Grid("acc", ncols, nrows, dtype=fdt.type)
            else:
                toacc = Grid("acc", ncols, nrows, dtype=fdt.type, nodata=fnodata)
            toacc.data = np.array(fvals).astype(fdt).reshape(nrows, ncols)
            if not np.array_equal(toacc.data.astype(np.float64).ravel(), np.array(fvals)):
                raise RuntimeError("harness: field %s not representable in %s" % (fname, fdt))
            if "bounds=" in fname:
                lo, hi = fname.split("bounds=")[1].split(",")
                toacc.mindata, toacc.maxdata = float(lo), float(hi)
            own = fvals
        fd_before = fd.data.copy()
        ta_before = None if toacc is None else toacc.data.copy()
        try:
            acc = accumulate(fd, toacc, nprint=100)
        except Exception as e:
            ctx.case(nontriv)
            ctx.violation("accumulate:raised:%s" % ("cyclic" if cyclic else "acyclic"), case, "accumulate raised %r" % (e,))
            continue
        out = acc.data.ravel()
        ctx.case(nontriv, outcome=out.tobytes())
        nod = acc.nodata
        # inputs' cell values untouched
        if not np.array_equal(np.asarray(fd.data, dtype=np.float64), fd_before.astype(np.float64)):
            ctx.violation("accumulate:flowdir-values-altered", case, "flow direction values changed: %s -> %s" % (fd_before.tolist(), fd.data.tolist()))
        if toacc is not None and not np.array_equal(toacc.data, ta_before, equal_nan=True):
            ctx.violation("accumulate:field-values-altered", case, "to_accumulate values changed: %s -> %s" % (ta_before.tolist(), toacc.data.tolist()))
        if out.shape[0] != ntot:
            ctx.violation("accumulate:shape", case, "output has %d cells" % out.shape[0])
            continue
        for c in range(ntot):
            if c in tainted:
                ctx.count("unjudged.cell_on_cycle")
                continue
            ctx.transitions += 1
            o = float(out[c])
            if m.down[c] < 0:
                kind = {-2: "sink", -1: "offgrid", -3: "invalid"}[m.down[c]]
                ok = (math.isnan(o) and isinstance(nod, float) and math.isnan(nod)) or o == nod
                if not ok:
                    ctx.violation("accumulate:terminal-not-nodata:%s" % kind, case,
                                  "cell %d (%s) holds %r, expected nodata %r" % (c, kind, o, nod), observed=out.tolist())
                continue
            closure = m.upstream_closure(c)
            if any(u in tainted for u in closure):
                ctx.count("unjudged.downstream_of_cycle")
                continue
            ctx.traces += 1
            exp = Fraction(own[c]) + sum(Fraction(own[u]) for u in closure)
            if abs(o - float(exp)) > 1e-9 * max(1.0, abs(float(exp))):
                ctx.violation("accumulate:value:%s" % ("uniform" if fname.split(":")[0] in ("default", "uniform0.25") else "nonuniform"), case,
                              "cell %d: accumulated %r, sum over itself and %d upstream cells = %r" % (c, o, len(closure), float(exp)),
                              observed=out.tolist(), expected=float(exp))
                continue
            # local recursion: own + accumulated(direct upstream), using the implementation's own values
            loc = own[c] + sum(float(out[u]) for u in m.up[c])
            if abs(o - loc) > 1e-9 * max(1.0, abs(loc)):
                ctx.violation("accumulate:recursion", case, "cell %d: %r != own %r + accumulated direct upstream %s" % (
                    c, o, own[c], [float(out[u]) for u in m.up[c]]))
        if fname == "default" and not cyclic:
            ctx.count("acyclic.default_field")
    # reduced cell limit: only termination without error
    for lim in (1, 2):
        fd = Grid("fd", ncols, nrows, dtype=np.int64)
        fd.data = arr
        case = dict(base, max_accumulated_cells=lim)
        try:
            accumulate(fd, None, nprint=100, max_accumulated_cells=lim)
            ctx.case(False, outcome="lim-ok")
        except Exception as e:
            ctx.case(False)
            ctx.violation("accumulate:raised:max_accumulated_cells", case, "accumulate(max_accumulated_cells=%d) raised %r" % (lim, e))


def run_unit(unit, ctx):
    if unit["kind"] == "strip":
        from checks import c06_delineate as c6
        n = unit["n"]
        if n > 1000:
            return
        for i, (horizontal, field, dev) in enumerate(c6.strip_cases(n)):
            if not ctx.sup.begin(i):
                continue
            codes = c6.strip_codes(n, horizontal, field, dev)
            nr, nc = (1, n) if horizontal else (n, 1)
            if i == 0:
                ctx.case(False, n=0, sample={"shape": [nr, nc], "strip": {"n": n, "horizontal": horizontal, "field": field, "dev": dev}, "seed": unit["seed"]})
            ctx.count("strip_grids")
            check_grid(ctx, nr, nc, codes, unit["seed"], few=(n > 64), strip={"n": n, "horizontal": horizontal, "field": field, "dev": dev})
            ctx.sup.end()
        return
    nrows, ncols = unit["shape"]
    few = (nrows, ncols) == (3, 3) and unit.get("kind") == "grids"
    first = True
    for i, codes in enumerate(unit_grids(unit)):
        if not ctx.sup.begin(i):
            continue
        if first:
            ctx.case(False, n=0, sample={"shape": [nrows, ncols], "codes": codes, "seed": unit["seed"]})
            first = False
        check_grid(ctx, nrows, ncols, codes, unit["seed"], few)
        ctx.sup.end()


def crash_violation(unit, idx, status, stderr):
    if unit["kind"] == "strip":
        from checks import c06_delineate as c6
        cases = list(c6.strip_cases(unit["n"]))
        h, f, d = cases[idx] if idx is not None and idx < len(cases) else (None, None, None)
        n = unit["n"]
        return ("grid:%s:strip" % ("hang" if "timeout" in status else "crash"),
                {"shape": [1, n] if h else [n, 1], "codes": None, "seed": unit["seed"], "strip": {"n": n, "horizontal": h, "field": f, "dev": d}},
                "the interpreter did not survive accumulate on a %d-cell strip grid: %s" % (n, status))
    codes = None
    for i, g in enumerate(unit_grids(unit)):
        if i == idx:
            codes = g
            break
    case = {"shape": unit["shape"], "codes": codes, "seed": unit["seed"]}
    kind = "hang" if "timeout" in status else "crash"
    return ("grid:%s" % kind, case, "the interpreter did not survive accumulate on this grid: %s" % status)


def replay(case):
    from mc.explore import Result
    ctx = Result()
    nrows, ncols = case["shape"]
    if case.get("strip"):
        from checks import c06_delineate as c6
        st = case["strip"]
        codes = c6.strip_codes(st["n"], st["horizontal"], st["field"], st["dev"])
        check_grid(ctx, nrows, ncols, codes, case.get("seed", 0), few=(st["n"] > 64), strip=st)
        return [v for lst in ctx.violations.values() for v in lst]
    check_grid(ctx, nrows, ncols, case["codes"], case.get("seed", 0))
    return [v for lst in ctx.violations.values() for v in lst]
