"""C16 - Catchment.intersect weights / weight grid and voronoi weights.

All geometry is generated on an integer lattice of half fine cells (unit h = fine cellsize / 2):
fine cell centres are odd lattice points, the coarse grid has integer origin (ox, oy) and cell
size m in 2..8 lattice units (cell-size ratio m/2 = 1, 1.5, .., 4), Voronoi points are lattice
points.  The oracle works on those integers only.

Sub-spaces (each crossed fully, see bound_text):
  sets3     fine 3x3, all 512 cell sets (injected with Catchment.from_dict, filled = set plus its
            enclosed holes) x coarse grids (m, dims, offsets around every edge phase)
  scan      a few cell sets x EVERY integer offset from "no overlap on the left/below" to "no overlap
            on the right/above" x every m x several coarse dimensions
  family    fine 6x6 (12x12 thorough): rectangles, rings, L / diagonal / checkerboard shapes
  delin     fine 6x6 (12x12 thorough): areas delineated by the real Catchment.delineate_area on
            converging flow grids with optional pits, every outlet
  voronoi   1..6 lattice points (all ordered tuples over position alphabets) x cell sets
Oracle:
  intersect: each catchment-cell centre has the set of coarse cells it may legally fall in (one cell;
  two / four when exactly on an interior edge / corner; the boundary cell or nothing when exactly on the
  outer boundary; nothing when strictly outside).  The returned (cells, weights) must be explained by an
  assignment of every centre to one allowed option (bipartite flow, exact), weights = count x (2/m)^2,
  no duplicate cells, area conserved, weight grid = weights scattered at (row-row_start, col-col_start)
  with the parent attributes and origin matching.  No centre can be inside: empty result or ValueError.
  voronoi: exact integer squared distances, lowest index on ties, weights = counts / n.

Size ladder (added, same integer oracles):
  big-intersect  fine grids 16x16, 17x17, 64x64, 65x65 (thorough: 32, 33, 128, 129 too) with structured cell sets
            {full, checkerboard, 2-cell-thick ring (holes: filled differs), diagonal band} x m (ratio m/2 = 1..4) x
            a coarse grid that covers the fine grid and one that covers about a quarter x 6 offsets x filled;
            grids beyond 20x20 use even m and even offsets only (no centre on a coarse edge, unique expectation;
            the flow-based feasibility test is too slow for thousands of cells)
  big-voronoi    fine 16x16 and 17x17 (thorough 33, 64) x {full, checkerboard, ring} x 7..65 points
            (7,8,9,15,16,17,31,32,33,63,64,65) on 4 structured patterns (square lattice over the grid, cell corners
            along a line = ties in every column, cell centres along a wrapped diagonal, lattice with coincident points)
Layouts of xypoints (added, differential): on the first case of every voronoi unit and on the 7-, 16- and 65-point
  cases of the ladder the same points are passed as list, tuple of tuples, read-only, Fortran order, strided rows /
  columns, big-endian, float32 and int32/int64 (when exactly representable), DataFrame (and flat [x, y] for a single
  point); the weights must equal those of the float64 C-contiguous call to 1e-12; a refused layout is counted.
"""
import itertools
from fractions import Fraction
import numpy as np

ID = "C16"
# computational entry points whose results are watched by the engine's retained-result oracle (mc/explore.py)
RETAIN = [('hydrodiy.gis.grid', 'Catchment.intersect'), ('hydrodiy.gis.grid', 'voronoi')]
TECHNIQUE = ("bounded exhaustive enumeration of (catchment cell set, coarse grid, offsets, filled flag) and of "
             "(cell set, Voronoi point tuples) on the real Catchment.intersect / voronoi, judged by an exact "
             "integer model in half-fine-cell units")
RULE = ("every (cell set, filled flag, cell-size ratio m/2, coarse dimensions, integer offset pair) of the tier's "
        "sub-spaces through Catchment.intersect, and every ordered tuple of 1..6 Voronoi points over position "
        "alphabets x cell sets through voronoi; all coordinates are integer multiples of half a fine cell, so the "
        "oracle is integer arithmetic. A case is one call. An intersect case is non-trivial when at least one "
        "catchment centre falls strictly inside the coarse grid and at least one does not fall in the same coarse "
        "cell or falls outside; a voronoi case is non-trivial when there are >= 2 points and >= 2 cells. Cases are "
        "generated once each by nested enumeration of distinct parameter values (distinct by construction). SIZE "
        "LADDER: structured cell sets (full, checkerboard, ring, diagonal band) on fine grids of 16, 17, 64, 65 cells "
        "a side x m x 2 coarse dimensions x 6 offsets x filled; voronoi with 7..65 structured points on 16x16 / 17x17 "
        "sets; LAYOUTS: 12 containers / dtypes / stride patterns of xypoints on the first case of every voronoi unit "
        "and 3 point counts of every ladder pattern (differential).")
ASSUMPTIONS = [
    "a centre exactly on an interior coarse edge may be counted in either adjacent cell (any one); a centre exactly on the outer boundary is inside the grid exactly when the library's own Grid.coord2cell puts it in a cell (the property is silent there; intersect and coord2cell must agree); exact feasibility is decided by a bipartite flow",
    "no catchment centre can fall inside the grid: an empty result and a ValueError are both accepted (property silent)",
    "empty catchment passed to voronoi (0/0) is not judged",
    "weights compared through count = weight x (m/2)^2 to 1e-6, sums to 1e-9 relative; voronoi weights to 1e-12",
    "voronoi ties are judged only on dyadic geometries (fine cellsize and origins powers of two multiples) where float distances are exact; on the non-dyadic geometry tie cases accept any tied index",
    "the weight grid's lower-left corner must be the parent's corner of (row_end, col_start) to 1e-9 cell sizes (the property asks for weights 'at the matching row and column of the parent grid')",
    "delineated areas are taken from the real delineate_area (its correctness is C06's subject) and used as input cell multisets",
    "Catchment.from_dict is used without inlets (its _idxintlets slip is irrelevant here)",
    "extension modules rebuilt from the working tree C sources; Cython wrapper C not re-translated",
    "size ladder: fine grids beyond 20x20 are intersected with even m and even offsets only, so that no catchment centre lies on a coarse cell edge and the expected cells / weights are unique (the exact assignment test for edge centres is a max-flow that is too slow for thousands of cells); 16x16 and 17x17 keep odd m and odd offsets",
    "layout variants of xypoints convert only coordinates that are exactly representable in the target dtype; a layout refused with a Python exception (Fortran order and DataFrame are refused by the present code) is accepted and counted in layout.rejected.voronoi.*; weights that differ by more than 1e-12 from the float64 C-contiguous call are a violation voronoi:layout=<name>",
]

OUT = "OUT"

# real geometries: (name, fine cellsize, fine origin in h units (fx, fy), dyadic)
GEOMS = [("unit", 1.0, (0, 0), True), ("dyadic-shifted", 0.25, (-7, 2001), True),
         ("large", 1024.0, (40, -12), True), ("tenth", 0.1, (3, -5), False),
         # cells of about 3 arc-seconds at longitude 145 / latitude -37: origin / cellsize ~ 1.5e5 (a relative
         # tolerance on the corner coordinates is then wider than a cell)
         ("arcsec", 2.0 ** -10, (296960, -75776), True)]
SEED_GEOMS = [("seed0", 2.0, (-33, 17), True), ("seed1", 0.5, (1001, -999), True),
              ("seed2", 8.0, (5, 5), True), ("seed3", 0.125, (-64, 64), True)]


def geoms(tier, seed):
    g = list(GEOMS) + [SEED_GEOMS[seed % len(SEED_GEOMS)]]
    return g


# ---------------------------------------------------------------------------
# model

def fill_holes(cells, nr, nc):
    """cells plus background cells not 4-connected to the outside of the grid"""
    S = set(cells)
    seen = set()
    stack = []
    for r in range(-1, nr + 1):
        for c in range(-1, nc + 1):
            if r in (-1, nr) or c in (-1, nc):
                stack.append((r, c))
                seen.add((r, c))
    while stack:
        r, c = stack.pop()
        for dr, dc in ((1, 0), (-1, 0), (0, 1), (0, -1)):
            r2, c2 = r + dr, c + dc
            if -1 <= r2 <= nr and -1 <= c2 <= nc and (r2, c2) not in seen:
                if 0 <= r2 < nr and 0 <= c2 < nc and (r2 * nc + c2) in S:
                    continue
                seen.add((r2, c2))
                stack.append((r2, c2))
    out = set(S)
    for r in range(nr):
        for c in range(nc):
            if (r, c) not in seen:
                out.add(r * nc + c)
    return sorted(out)


def centre_h(c, nr, nc, fx, fy):
    i, j = divmod(c, nc)
    return fx + 2 * j + 1, fy + 2 * (nr - 1 - i) + 1


def allowed_1d(u, m, n):
    """u = centre - origin (h units); -> list of allowed band indices (OUT possible)"""
    if u < 0 or u > m * n:
        return [OUT]
    if u == 0:
        return [0, OUT]
    if u == m * n:
        return [n - 1, OUT]
    if u % m == 0:
        return [u // m - 1, u // m]
    return [u // m]


def allowed_cells(X, Y, m, nrc, ncc, ox, oy):
    ax = allowed_1d(X - ox, m, ncc)
    ay = allowed_1d(Y - oy, m, nrc)
    out = set()
    for a in ax:
        for b in ay:
            if a == OUT or b == OUT:
                out.add(OUT)
            else:
                out.add((nrc - 1 - b) * ncc + a)
    return frozenset(out)


def feasible(groups, observed):
    """groups: {frozenset(allowed): count}; observed: {cell: count}.
    Is there an assignment of every centre to one allowed option (OUT = not counted) that yields
    exactly the observed counts?  Two-stage max flow (demands first, then the rest to OUT)."""
    gl = list(groups.items())
    cells = list(observed)
    S, T, O = 0, 1, 2
    ng = len(gl)
    gnode = lambda k: 3 + k
    cnode = {c: 3 + ng + i for i, c in enumerate(cells)}
    nn = 3 + ng + len(cells)
    cap = [dict() for _ in range(nn)]

    def add(a, b, c):
        cap[a][b] = cap[a].get(b, 0) + c
        cap[b].setdefault(a, 0)
    INF = 10 ** 9
    for k, (al, cnt) in enumerate(gl):
        add(S, gnode(k), cnt)
        for c in al:
            if c != OUT and c in cnode:
                add(gnode(k), cnode[c], INF)
    for c in cells:
        add(cnode[c], T, observed[c])

    def maxflow():
        total = 0
        while True:
            # DFS for an augmenting path
            prev = {S: None}
            stack = [S]
            while stack and T not in prev:
                a = stack.pop()
                for b, c in cap[a].items():
                    if c > 0 and b not in prev:
                        prev[b] = a
                        stack.append(b)
            if T not in prev:
                return total
            f = INF
            b = T
            while prev[b] is not None:
                f = min(f, cap[prev[b]][b])
                b = prev[b]
            b = T
            while prev[b] is not None:
                a = prev[b]
                cap[a][b] -= f
                cap[b][a] += f
                b = a
            total += f
    f1 = maxflow()
    if f1 != sum(observed.values()):
        return False
    for k, (al, cnt) in enumerate(gl):
        if OUT in al:
            add(gnode(k), O, INF)
    add(O, T, INF)
    f2 = maxflow()
    return f1 + f2 == sum(groups.values())


def make_catchment(nr, nc, cf, fx, fy, area, filled):
    from hydrodiy.gis.grid import Catchment
    h = cf / 2
    fd = {"name": "fd", "ncols": nc, "nrows": nr, "cellsize": cf, "xllcorner": fx * h, "yllcorner": fy * h,
          "dtype": "int64", "nodata": 0}
    return Catchment.from_dict({"name": "c", "flowdir": fd, "idxcell_outlet": None, "idxinlets": None,
                                "idxcells_area": list(area), "idxcells_area_filled": list(filled)})


def make_coarse(cf, m, nrc, ncc, ox, oy):
    from hydrodiy.gis.grid import Grid
    h = cf / 2
    return Grid("coarse", ncols=ncc, nrows=nrc, cellsize=m * h, xllcorner=ox * h, yllcorner=oy * h)


def check_intersect(ctx, catch, cells, fine, geom, m, nrc, ncc, relx, rely, filled, case):
    """one call of intersect.  cells = the multiset the call must use (area or filled area),
    fine = (nr, nc); geom = (name, cf, (fx, fy), dyadic); rel = coarse origin - fine origin (h units)"""
    nr, nc = fine
    _, cf, (fx, fy), _ = geom
    ox, oy = fx + relx, fy + rely
    h = cf / 2
    groups = {}
    near_lb = False
    grid0 = None
    for c in cells:
        X, Y = centre_h(c, nr, nc, fx, fy)
        al = allowed_cells(X, Y, m, nrc, ncc, ox, oy)
        if OUT in al and len(al) > 1:
            # centre exactly on the grid's outer boundary: the property leaves "inside the grid" open there;
            # the library's own answer (Grid.coord2cell of that centre) is taken as the definition, so that
            # intersect and coord2cell cannot disagree about which boundary points belong to the grid
            try:
                if grid0 is None:
                    grid0 = make_coarse(cf, m, nrc, ncc, ox, oy)
                cc = int(grid0.coord2cell(catch.flowdir.cell2coord(c))[0])
                if cc < 0:
                    al = frozenset([OUT])
                    ctx.count("intersect.boundary_centre_outside_by_coord2cell")
                elif cc in al:
                    al = frozenset([cc])
                    ctx.count("intersect.boundary_centre_inside_by_coord2cell")
            except Exception:
                pass
        groups[al] = groups.get(al, 0) + 1
        u, w = X - ox, Y - oy
        if (u < 0 or w < 0) and -m <= u <= m * ncc and -m <= w <= m * nrc:
            near_lb = True
    nmand = sum(n for al, n in groups.items() if OUT not in al)
    nopt = sum(n for al, n in groups.items() if OUT in al and len(al) > 1)
    ambiguous = any(len(al) > 1 for al in groups)
    nontrivial = nmand > 0 and (len(groups) > 1)
    grid = make_coarse(cf, m, nrc, ncc, ox, oy)
    ctx.count("intersect.%s" % ("no_centre_inside" if nmand + nopt == 0 else
                                ("ambiguous_edge_centres" if ambiguous else "plain")))
    if near_lb:
        ctx.count("intersect.centres_within_one_cell_left_or_below")
    try:
        area_grid, idxcells, weights = catch.intersect(grid, filled=filled)
    except ValueError as e:
        ctx.case(nontrivial, outcome="ValueError")
        if nmand == 0:
            ctx.count("intersect.empty_raises_ValueError")
            return
        ctx.violation("intersect:raised:ValueError", case,
                      "intersect raised %r although %d catchment centres fall strictly inside the grid" % (e, nmand))
        return
    except Exception as e:
        ctx.case(nontrivial, outcome=type(e).__name__)
        ctx.violation("intersect:raised:%s" % type(e).__name__, case, "intersect raised %r" % (e,))
        return
    idxcells = np.asarray(idxcells)
    weights = np.asarray(weights, dtype=np.float64)
    ctx.case(nontrivial, outcome=idxcells.tobytes() + weights.tobytes())
    sfx = ":centres-within-one-cell-left-or-below" if near_lb else ""
    if idxcells.shape != weights.shape or idxcells.ndim != 1:
        ctx.violation("intersect:shape", case, "idxcells %r weights %r" % (idxcells.shape, weights.shape))
        return
    cl = [int(c) for c in idxcells]
    if len(set(cl)) != len(cl):
        ctx.violation("intersect:duplicate-cells" + sfx, case, "grid cells listed more than once: %r" % (cl,), observed=cl)
        return
    if any(c < 0 or c >= nrc * ncc for c in cl):
        ctx.violation("intersect:cell-out-of-range" + sfx, case, "cells %r on a %dx%d grid" % (cl, nrc, ncc), observed=cl)
        return
    ratio2 = Fraction(m * m, 4)        # coarse cell area / fine cell area
    observed = {}
    for c, w in zip(cl, weights):
        cnt = w * float(ratio2)
        k = int(round(cnt)) if np.isfinite(cnt) else -1
        if not np.isfinite(cnt) or abs(cnt - k) > 1e-6 or k < 1:
            ctx.violation("intersect:weight-not-count-times-area-ratio" + sfx, case,
                          "cell %d weight %r is not a positive count times (fine/coarse cell size)^2 = %s" % (
                              c, float(w), 1 / ratio2), observed=[cl, weights.tolist()])
            return
        observed[c] = k
    ok = True
    if not ambiguous:
        expected = {}
        for al, n in groups.items():
            (only,) = tuple(al)
            if only != OUT:
                expected[only] = expected.get(only, 0) + n
        ok = expected == observed
    else:
        expected = None
        ok = feasible(groups, observed)
    if not ok:
        exp_txt = ({c: float(n / ratio2) for c, n in sorted(expected.items())} if expected is not None
                   else "any assignment of edge centres to an adjacent cell")
        ctx.violation("intersect:weights-mismatch" + sfx, case,
                      "fine %dx%d (cellsize %r, origin %r) cells %r x coarse %dx%d (cellsize %r, origin (%r, %r)): "
                      "returned cells %r weights %r; expected %s" % (
                          nr, nc, cf, (fx * h, fy * h), list(cells), nrc, ncc, m * h, ox * h, oy * h,
                          cl, weights.tolist(), exp_txt),
                      observed=[cl, weights.tolist()],
                      expected=None if expected is None else sorted(expected.items()))
        return
    # area conservation (explicit, in floats): sum w * csz^2 = (#centres counted) * cf^2
    ncounted = sum(observed.values())
    lhs = float(np.sum(weights)) * (m * h) ** 2
    rhs = ncounted * cf ** 2
    if not (nmand <= ncounted <= nmand + nopt) or abs(lhs - rhs) > 1e-9 * max(rhs, cf ** 2):
        ctx.violation("intersect:area-not-conserved" + sfx, case,
                      "sum(weights) x coarse cell area = %r, catchment area inside the grid = %r x fine cell area "
                      "(between %d and %d cells)" % (lhs, ncounted, nmand, nmand + nopt))
    if not cl:
        ctx.count("intersect.empty_returns_empty")
        return
    # weight grid
    rows = [c // ncc for c in cl]
    cols = [c % ncc for c in cl]
    r0, r1, c0, c1 = min(rows), max(rows), min(cols), max(cols)
    data = np.asarray(area_grid.data)
    if data.shape != (r1 - r0 + 1, c1 - c0 + 1):
        ctx.violation("intersect:area_grid:shape", case,
                      "weight grid shape %r, cells span rows %d..%d cols %d..%d" % (data.shape, r0, r1, c0, c1))
        return
    expd = np.zeros_like(data, dtype=np.float64)
    for c, w in zip(cl, weights):
        expd[c // ncc - r0, c % ncc - c0] = w
    if not np.array_equal(expd, data):
        ctx.violation("intersect:area_grid:weight-misplaced", case,
                      "weight grid %r, expected %r (cells %r, weights %r, row_start %d, col_start %d)" % (
                          data.tolist(), expd.tolist(), cl, weights.tolist(), r0, c0),
                      observed=data.tolist(), expected=expd.tolist())
    pa = [getattr(area_grid, "parentgrid_" + a, None) for a in ("rows_start", "rows_end", "cols_start", "cols_end")]
    if [None if v is None else int(v) for v in pa] != [r0, r1, c0, c1]:
        ctx.violation("intersect:area_grid:parent-rows-cols", case,
                      "parentgrid rows/cols start/end %r, expected %r" % (pa, [r0, r1, c0, c1]))
    pg = [getattr(area_grid, "parentgrid_" + a, None) for a in ("nrows", "ncols", "cellsize", "xllcorner", "yllcorner")]
    if pg != [grid.nrows, grid.ncols, grid.cellsize, grid.xllcorner, grid.yllcorner]:
        ctx.violation("intersect:area_grid:parent-geometry", case, "parentgrid geometry %r" % (pg,))
    csz = m * h
    ex = (ox + m * c0) * h
    ey = (oy + m * (nrc - 1 - r1)) * h
    if (float(area_grid.cellsize) != csz or abs(float(area_grid.xllcorner) - ex) > 1e-9 * csz
            or abs(float(area_grid.yllcorner) - ey) > 1e-9 * csz):
        ctx.violation("intersect:area_grid:origin", case,
                      "weight grid cellsize %r origin (%r, %r), expected %r (%r, %r)" % (
                          float(area_grid.cellsize), float(area_grid.xllcorner), float(area_grid.yllcorner), csz, ex, ey))


def check_voronoi(ctx, catch, cells, fine, geom, pts, case):
    """pts: list of (px, py) in h units relative to the fine origin"""
    from hydrodiy.gis.grid import voronoi
    nr, nc = fine
    _, cf, (fx, fy), dyadic = geom
    h = cf / 2
    n = len(cells)
    xy = np.array([[(fx + px) * h, (fy + py) * h] for px, py in pts], dtype=np.float64)
    nontrivial = len(pts) >= 2 and n >= 2
    try:
        w = voronoi(catch, xy)
    except Exception as e:
        ctx.case(nontrivial, outcome=type(e).__name__)
        if n == 0:
            ctx.count("voronoi.unjudged.empty_catchment")
            return
        ctx.violation("voronoi:raised:%s" % type(e).__name__, case, "voronoi raised %r" % (e,))
        return
    w = np.asarray(w, dtype=np.float64)
    ctx.case(nontrivial, outcome=w.tobytes())
    if n == 0:
        ctx.count("voronoi.unjudged.empty_catchment")
        return
    if w.shape != (len(pts),):
        ctx.violation("voronoi:shape", case, "weights shape %r for %d points" % (w.shape, len(pts)))
        return
    counts = [0] * len(pts)
    tie = False
    tiesets = []
    for c in cells:
        X, Y = centre_h(c, nr, nc, 0, 0)
        d2 = [(X - px) ** 2 + (Y - py) ** 2 for px, py in pts]
        mn = min(d2)
        j = d2.index(mn)
        if d2.count(mn) > 1:
            tie = True
            tiesets.append([k for k, d in enumerate(d2) if d == mn])
        counts[j] += 1
    if tie:
        ctx.count("voronoi.cases_with_ties")
    if not np.all(np.isfinite(w)) or np.any(w < 0):
        ctx.violation("voronoi:negative-or-nan", case, "weights %r" % (w.tolist(),), observed=w.tolist())
        return
    if abs(float(np.sum(w)) - 1.0) > 1e-9:
        ctx.violation("voronoi:sum-not-1", case, "weights %r sum to %r" % (w.tolist(), float(np.sum(w))), observed=w.tolist())
        return
    exp = [Fraction(k, n) for k in counts]
    good = all(abs(float(w[j]) - float(exp[j])) <= 1e-12 for j in range(len(pts)))
    if good:
        return
    if tie and not dyadic:
        ctx.count("voronoi.unjudged.tie_on_nondyadic_geometry")
        return
    key = "voronoi:weights:tie-not-lowest-index" if tie else "voronoi:weights:not-nearest-fraction"
    ctx.violation(key, case,
                  "fine %dx%d cells %r, points (half-cell units from the grid corner) %r: weights %r, expected %r%s" % (
                      nr, nc, list(cells), [list(p) for p in pts], w.tolist(), [float(e) for e in exp],
                      " (equidistant points resolved to the lowest index)" if tie else ""),
                  observed=w.tolist(), expected=[float(e) for e in exp])


# ---------------------------------------------------------------------------
# cell-set families and flow grids

def family_sets(n):
    """named cell sets on an n x n fine grid"""
    out = []
    idx = lambda r, c: r * n + c
    rects = [(0, 0, n - 1, n - 1), (0, 0, 0, 0), (n - 1, n - 1, n - 1, n - 1), (0, n - 1, 0, n - 1),
             (1, 1, n - 2, n - 2), (0, 0, n - 1, 0), (n - 1, 0, n - 1, n - 1), (1, 2, n // 2, n - 2),
             (n // 2, 0, n - 1, n // 2 - 1), (2, 1, 3, 4)]
    for k, (ra, ca, rb, cb) in enumerate(rects):
        out.append(("rect%d" % k, [idx(r, c) for r in range(ra, rb + 1) for c in range(ca, cb + 1)]))
    ring = [idx(r, c) for r in range(n) for c in range(n) if r in (0, n - 1) or c in (0, n - 1)]
    out.append(("ring-outer", ring))
    out.append(("ring-inner", [idx(r, c) for r in range(1, n - 1) for c in range(1, n - 1)
                               if r in (1, n - 2) or c in (1, n - 2)]))
    out.append(("L", [idx(r, 0) for r in range(n)] + [idx(n - 1, c) for c in range(1, n)]))
    out.append(("diag", [idx(k, k) for k in range(n)]))
    out.append(("antidiag", [idx(k, n - 1 - k) for k in range(n)]))
    out.append(("checker", [idx(r, c) for r in range(n) for c in range(n) if (r + c) % 2 == 0]))
    out.append(("two-rings", sorted(set(ring) | set(idx(r, c) for r in range(2, n - 2) for c in range(2, n - 2)
                                                    if r in (2, n - 3) or c in (2, n - 3)))))
    return out


def flow_grid(n, sink, pit):
    """n x n flow directions converging on sink=(r, c); pit=(r, c) or None gets code 0"""
    from hydrodiy.gis.grid import FLOWDIRCODE
    fd = np.zeros((n, n), dtype=np.int64)
    sg = lambda v: (v > 0) - (v < 0)
    for r in range(n):
        for c in range(n):
            dr, dc = sg(sink[0] - r), sg(sink[1] - c)
            fd[r, c] = FLOWDIRCODE[1 + dr, 1 + dc]        # 0 at the sink itself
    if pit is not None:
        fd[pit[0], pit[1]] = 0
    return fd


def delin_catchment(n, cf, fx, fy, sink, pit, outlet):
    from hydrodiy.gis.grid import Grid, Catchment
    h = cf / 2
    g = Grid("fd", ncols=n, nrows=n, cellsize=cf, xllcorner=fx * h, yllcorner=fy * h, dtype=np.int64)
    g.data = flow_grid(n, sink, pit)
    ca = Catchment("c", g)
    ca.delineate_area(outlet, nval=4 * n * n + 10)
    return ca


def flow_configs(n):
    sinks = [(0, 0), (n - 1, n - 1), (n // 2, n // 2), (0, n // 2), (n - 1, 0)]
    out = []
    for s in sinks:
        pits = [None, (n - 2, n - 2) if s != (n - 1, n - 1) else (1, 1), (n // 2, 1)]
        for p in pits:
            if p == s:
                continue
            out.append((s, p))
    return out


# ---------------------------------------------------------------------------
# coarse-grid configurations

def offsets_small(m):
    return sorted(set([-m - 1, -m, -m + 1, -2, -1, 0, 1, 2, 3]))


def offsets_scan(m, ncoarse, nfine):
    """every integer offset from 'coarse grid entirely left of the first centre' to 'entirely right'"""
    return list(range(-(m * ncoarse) - 1, 2 * nfine + 2))


def ms(tier):
    return [2, 3, 4, 6, 8] if tier == "quick" else [2, 3, 4, 5, 6, 7, 8]


SCAN_SETS3 = [list(range(9)), [4], [0, 8], [0, 1, 2, 5, 8], [1, 3, 5, 7], [2, 4, 6]]
DIMS3 = [(1, 1), (2, 3)]
DIMS_SCAN = [(1, 1), (1, 2), (2, 1), (2, 2), (3, 2), (3, 3)]
DIMS_BIG = [(1, 1), (2, 2), (3, 4), (4, 3)]

V_ALL = list(range(-2, 9))                 # half-cell lattice of a 3x3 grid extended one cell outside
V_CELL = [-1, 1, 3, 5, 7]
V_3 = [-1, 3, 7]
V_FAR = [(-400, 3), (3, 500), (700, 700), (-300, -900), (2001, 4), (3, 3)]    # half-cell units: up to 1000 cells away, one centre


def bound_text(tier, seed):
    big = "6x6" if tier == "quick" else "6x6 and 12x12"
    dq = ("m in {2,3,8} x dims {(2,2),(3,4)} x (full x scan at y offset 0, full y scan at x offset 0, diagonal)"
          if tier == "quick" else
          "6x6: m in %s x dims %s x (full x scan at y offsets {-1,0,2}, full y scan at x offsets {-1,0,2}, diagonal); "
          "12x12: m in {2,3,5,8} x dims {(2,2),(3,4)} x (full scans at offset 0, diagonal)" % (ms(tier), DIMS_BIG))
    return ("all coordinates in half-fine-cell units; geometries %s%s. intersect: [sets3] all 512 subsets of a 3x3 fine grid x m in %s "
            "(cell-size ratio m/2) x coarse dims %s x offsets {-m-1,-m,-m+1,-2,-1,0,1,2,3}^2, filled=False always, filled=True on all "
            "configurations when the filled area differs and on 2 configurations otherwise; [scan] %d cell sets x m x dims %s x EVERY "
            "integer offset pair from no overlap on one side to no overlap on the other x filled in {F,T}; [family] %d shapes "
            "(rectangles, rings, L, diagonals, checkerboard) on %s x m x dims %s x cross-shaped offset scans; [delin] areas delineated "
            "by delineate_area on %s converging flow grids (5 sinks x optional pit), every outlet x filled in {F,T} x %s. "
            "voronoi: all 512 subsets x 40 tuples of 1..6 points; %d sets x (every single point and ordered pair over the 11x11 "
            "half-cell lattice extended one cell outside, all ordered triples over 5x5 positions, 4-tuples over 3x3, 5-tuples over "
            "%s, 6-tuples over %d positions); family shapes x all 1..%d-tuples over 8 positions + 32 structured 5/6-tuples"
            "; size ladder: {full, checkerboard, ring, diagonal band} on fine grids %s x m x {covering, quarter} coarse grids x 6 "
            "offsets x filled (even m / even offsets beyond 20x20); voronoi %s points x patterns %s on {full, checkerboard, ring} of "
            "16x16, 17x17%s; 12 layouts of xypoints on the first case of every voronoi unit and the 7/16/65-point ladder cases"
            % ([g[0] for g in geoms(tier, seed)],
               " (one geometry per unit in rotation)" if tier == "quick" else
               " (scan / family / vor-tuples units: every geometry; other sub-spaces: one geometry per unit in rotation)", ms(tier), DIMS3, len(SCAN_SETS3), DIMS_SCAN,
               len(family_sets(6)), big, DIMS_BIG, big, dq, len(SCAN_SETS3),
               "5 positions" if tier == "quick" else "3x3 positions", 4 if tier == "quick" else 6, 3 if tier == "quick" else 4,
               list(BIG_FINE[tier == "quick"]), LADDER_VOR, VOR_PATTERNS, "" if tier == "quick" else ", 33x33, 64x64"))


def units(tier, seed):
    us = []
    gl = geoms(tier, seed)
    # sets3: geometry rotates with the block so that every geometry sees every set class
    for b in range(32):                      # 32 blocks of 16 sets
        for m in ms(tier):
            us.append({"kind": "sets3", "block": b, "m": m, "geom": (b + m) % len(gl)})
    for si in range(len(SCAN_SETS3)):
        for m in ms(tier):
            for gi in range(len(gl)):
                if tier == "quick" and gi not in (0, (si + m) % len(gl)):
                    continue
                us.append({"kind": "scan", "set": si, "m": m, "geom": gi})
    for n in ([6] if tier == "quick" else [6, 12]):
        nf = len(family_sets(n))
        for fi in range(nf):
            for gi in range(len(gl)):
                if tier == "quick" and gi != fi % len(gl):
                    continue
                us.append({"kind": "family", "n": n, "set": fi, "geom": gi})
        for ci in range(len(flow_configs(n))):
            for row in range(n):
                us.append({"kind": "delin", "n": n, "flow": ci, "row": row, "geom": (ci + row) % len(gl)})
    # voronoi
    for b in range(32):
        us.append({"kind": "vor-sets3", "block": b, "geom": b % len(gl)})
    for si in range(len(SCAN_SETS3)):
        for x0 in V_ALL:
            us.append({"kind": "vor-pairs", "set": si, "x0": x0, "geom": (si + x0) % len(gl)})
        for k in (3, 4, 5, 6):
            for gi in range(len(gl)):
                if tier == "quick" and gi != (si + k) % len(gl):
                    continue
                us.append({"kind": "vor-tuples", "set": si, "k": k, "geom": gi, "tier": tier})
    for n in ([6] if tier == "quick" else [6, 12]):
        for fi in range(len(family_sets(n))):
            us.append({"kind": "vor-family", "n": n, "set": fi, "geom": fi % len(gl), "tier": tier})
    for gi in range(len(gl)):
        for m in ([2, 3] if tier == "quick" else ms(tier)):
            us.append({"kind": "combined", "m": m, "geom": gi})
    # points far away from the catchment (hundreds of cells): "anywhere" in the quantifier
    for si in range(len(SCAN_SETS3)):
        for gi in range(len(gl)):
            us.append({"kind": "vor-far", "set": si, "geom": gi, "tier": tier})
    # size ladder: larger fine grids / many Voronoi points (geometry rotates; ties need a dyadic geometry)
    for n in BIG_FINE[tier == "quick"]:
        for si in range(4):
            for mi, m in enumerate(ms(tier)):
                if not [c for c in big_configs(n, tier) if c[0] == m]:
                    continue
                us.append({"kind": "big-intersect", "n": n, "set": si, "ms": [m], "geom": (si + mi + n) % len(gl)})
    for n in ((16, 17) if tier == "quick" else (16, 17, 33, 64)):
        for si in range(3):
            for gi in range(len(gl)):
                if tier == "quick" and gi not in ((si + n) % len(gl), 3):
                    continue
                us.append({"kind": "big-voronoi", "n": n, "set": si, "geom": gi})
    for u in us:
        u["seed"] = seed
        u["tier"] = tier
    return us


def geom_json(geom):
    return [geom[0], geom[1], list(geom[2]), geom[3]]


def subset3(k):
    return [c for c in range(9) if (k >> c) & 1]


def icase(kind, fine, geom, cells, filledcells, m, dims, relx, rely, filled, extra=None):
    d = {"kind": kind, "fine": list(fine), "geom": geom_json(geom), "cells": list(map(int, cells)),
         "filledcells": list(map(int, filledcells)), "m": m, "dims": list(dims), "relx": relx, "rely": rely,
         "filled": filled}
    if extra:
        d.update(extra)
    return d


SETS3_FILLED_EXTRA = [((2, 3), -1, 0), ((1, 1), 1, 1)]


def sets3_runs(area, m, dims, rx, ry, filled, gi, ngeoms):
    """True when the sets3 sub-space executes exactly this call (so that scan does not repeat it)"""
    k = sum(1 << c for c in area)
    if (k // 16 + m) % ngeoms != gi or tuple(dims) not in DIMS3:
        return False
    if rx not in offsets_small(m) or ry not in offsets_small(m):
        return False
    if not filled:
        return True
    if fill_holes(area, 3, 3) != sorted(area):
        return True
    return (tuple(dims), rx, ry) in SETS3_FILLED_EXTRA


def vor_scan_runs(area, pts, gi, ngeoms, tier):
    """True when vor-pairs / vor-tuples execute exactly this call (so that vor-sets3 does not repeat it)"""
    if list(area) not in SCAN_SETS3:
        return False
    si = SCAN_SETS3.index(list(area))
    k = len(pts)
    if k <= 2:
        if any(c not in V_ALL for p in pts for c in p):
            return False
        return (si + pts[0][0]) % ngeoms == gi
    pos = tuple_positions(k, tier)
    if any(tuple(p) not in pos for p in pts):
        return False
    return tier != "quick" or gi == (si + k) % ngeoms


def run_intersect_configs(ctx, catch, area, filledc, fine, geom, gi, configs, kind, filled_modes, extra=None, first=None):
    """the catchment object is shared by all calls of a unit (so results that depend on the object's
    history show up); every case records the first and the previous intersect call made on that
    object, and replay() repeats them on a fresh object before the judged call"""
    hist = getattr(catch, "_verif_hist", None)
    if hist is None:
        hist = {"first": None, "prev": None}
        try:
            catch._verif_hist = hist
        except Exception:
            pass
    for (m, dims, relx, rely) in configs:
        for filled in filled_modes:
            case = icase(kind, fine, geom, area, filledc, m, dims, relx, rely, filled, extra)
            case["history"] = [h for h in (hist["first"], hist["prev"]) if h is not None]
            if len(case["history"]) == 2 and case["history"][0] == case["history"][1]:
                case["history"] = case["history"][:1]
            if first is not None and not first[0]:
                ctx.case(False, n=0, sample=case)
                first[0] = True
            check_intersect(ctx, catch, filledc if filled else area, fine, geom, m, dims[0], dims[1],
                            relx, rely, filled, case)
            call = {"m": m, "dims": list(dims), "relx": relx, "rely": rely, "filled": filled}
            if hist["first"] is None:
                hist["first"] = call
            hist["prev"] = call


def cross_offsets(m, dims, n, phases=(-1, 0, 2)):
    """cross-shaped scan: x over the full range with y at 3 phases, y over the full range with x at 3 phases,
    and the diagonal"""
    xs = offsets_scan(m, dims[1], n)
    ys = offsets_scan(m, dims[0], n)
    out = set()
    for x in xs:
        for y in phases:
            out.add((x, y))
    for y in ys:
        for x in phases:
            out.add((x, y))
    for x in xs:
        if x in ys:
            out.add((x, x))
    return sorted(out)


_DELIN_CFG = {}


def delin_configs(tier, n):
    """coarse configurations used for every delineated catchment of an n x n flow grid"""
    key = (tier, n)
    if key not in _DELIN_CFG:
        if tier == "quick":
            mlist, dims, phases = [2, 3, 8], [(2, 2), (3, 4)], [0]
        elif n <= 6:
            mlist, dims, phases = ms(tier), DIMS_BIG, [-1, 0, 2]
        else:
            mlist, dims, phases = [2, 3, 5, 8], [(2, 2), (3, 4)], [0]
        _DELIN_CFG[key] = [(m, d, rx, ry) for m in mlist for d in dims for rx, ry in cross_offsets(m, d, n, phases)]
    return _DELIN_CFG[key]


# ---------------------------------------------------------------------------
# size ladder: larger fine grids with structured cell sets, many Voronoi points, layouts of xypoints

def big_sets(n):
    """structured cell sets on an n x n fine grid"""
    idx = lambda r, c: r * n + c
    full = [idx(r, c) for r in range(n) for c in range(n)]
    checker = [idx(r, c) for r in range(n) for c in range(n) if (r + c) % 2 == 0]
    ring = [idx(r, c) for r in range(n) for c in range(n) if min(r, c, n - 1 - r, n - 1 - c) in (1, 2)]
    band = [idx(r, c) for r in range(n) for c in range(n) if abs(r - c) <= 1]
    return [("full", full), ("checker", checker), ("ring", ring), ("diagonal-band", band)]


def big_configs(n, tier):
    """(m, dims, relx, rely): coarse grids that cover the fine grid, half of it, and offsets that put the coarse
    origin on / next to fine cell edges and centres"""
    out = []
    for m in ms(tier):
        if n > 20 and m % 2:
            # the exact feasibility test for centres on interior coarse edges (bipartite flow) is too slow for
            # thousands of cells: the largest grids use even m and even offsets only, where no centre can lie on
            # a coarse edge (centres are odd lattice points) and the expected weights are unique
            continue
        cover = (2 * n + m - 1) // m + 1
        for dims in ((cover, cover), (max(1, cover // 2), cover // 2 + 1)):
            if n > 20:
                offs = [(0, 0), (-2, -2), (2, 4), (-m + 2, 2), (2 * (n // 2), -2 * (n // 2)), (-2 * n - 2, 0)]
            else:
                offs = [(0, 0), (-2, -2), (1, 2), (-m + 1, 3), (n, -n), (-1, -1)]
            for rx, ry in offs:
                out.append((m, dims, rx, ry))
    return out


BIG_FINE = {True: (16, 17, 64, 65), False: (16, 17, 32, 33, 64, 65, 128, 129)}      # [tier == "quick"]
LADDER_VOR = [7, 8, 9, 15, 16, 17, 31, 32, 33, 63, 64, 65]
VOR_PATTERNS = ["lattice", "line", "diagonal-centres", "lattice-duplicates"]


def vor_points(n, npts, pattern):
    """npts structured Voronoi points (half-cell units from the fine grid's corner)"""
    e = 2 * n
    if pattern in ("lattice", "lattice-duplicates"):
        side = 2
        while side * side < npts:
            side += 1
        xs = [-1 + (k * (e + 2)) // (side - 1) for k in range(side)]
        pts = [(x, y) for y in xs for x in xs][:npts]
        if pattern == "lattice-duplicates":
            pts = [pts[i - 1] if i % 3 == 2 else pts[i] for i in range(npts)]      # coincident points: lowest index wins
        return pts
    if pattern == "line":
        # cell corners along the middle row, two half cells apart: every column of cells is equidistant to two points
        return [(2 * k, n if n % 2 == 0 else n - 1) for k in range(npts)]
    if pattern == "diagonal-centres":
        # points on cell centres of the diagonal, wrapping around; later ones run outside the grid
        return [(2 * k + 1, (2 * ((3 * k) % (n + 2)) + 1)) for k in range(npts)]
    raise ValueError(pattern)


def _ro(a):
    a = a.copy()
    a.setflags(write=False)
    return a


def _srows(a):
    big = np.full((2 * a.shape[0] + 1, a.shape[1]), 0.375, dtype=a.dtype)
    big[1::2] = a
    return big[1::2]


def _scols(a):
    big = np.full((a.shape[0], 2 * a.shape[1]), 0.375, dtype=a.dtype)
    big[:, ::2] = a
    return big[:, ::2]


def xy_layouts():
    import pandas as pd
    return [("list", lambda a: a.tolist(), None),
            ("tuple-of-tuples", lambda a: tuple(tuple(r) for r in a.tolist()), None),
            ("readonly", _ro, None),
            ("fortran", np.asfortranarray, None),
            ("strided-rows", _srows, None),
            ("strided-columns", _scols, None),
            ("bigendian", lambda a: a.astype(">f8"), None),
            ("float32", lambda a: a.astype(np.float32), "float32"),
            ("float32-fortran", lambda a: np.asfortranarray(a.astype(np.float32)), "float32"),
            ("int64", lambda a: a.astype(np.int64), "int"),
            ("int32-strided-rows", lambda a: _srows(a.astype(np.int32)), "int"),
            ("dataframe", lambda a: pd.DataFrame(a, columns=["x", "y"]), None)]


def check_voronoi_layouts(ctx, catch, geom, pts, case):
    """the same Voronoi points in other containers / dtypes / strides: same weights as the float64 C-contiguous call"""
    from hydrodiy.gis.grid import voronoi
    _, cf, (fx, fy), _ = geom
    h = cf / 2
    xy = np.array([[(fx + px) * h, (fy + py) * h] for px, py in pts], dtype=np.float64)
    try:
        ref = np.asarray(voronoi(catch, xy), dtype=np.float64).copy()
    except Exception:
        ctx.count("layout.unjudged.voronoi.reference_raised")
        return
    if not np.all(np.isfinite(ref)):
        ctx.count("layout.unjudged.voronoi.empty_catchment")       # 0/0, not judged (see ASSUMPTIONS)
        return
    lays = xy_layouts()
    if len(pts) == 1:
        lays = lays + [("flat-1d", lambda a: a[0].copy(), None), ("flat-list", lambda a: a[0].tolist(), None)]
    for name, conv, needs in lays:
        if needs == "float32" and not (xy.astype(np.float32).astype(np.float64) == xy).all():
            ctx.count("layout.unjudged.voronoi.%s.not_exact" % name)
            continue
        if needs == "int" and not ((np.round(xy) == xy).all() and (np.abs(xy) < 2 ** 31).all()):
            ctx.count("layout.unjudged.voronoi.%s.not_exact" % name)
            continue
        try:
            w = np.asarray(voronoi(catch, conv(xy)), dtype=np.float64)
        except Exception:
            ctx.case(len(pts) >= 2)
            ctx.count("layout.rejected.voronoi.%s" % name)
            continue
        ctx.case(len(pts) >= 2, outcome=w.tobytes())
        if w.shape == ref.shape and np.all(np.abs(w - ref) <= 1e-12):
            ctx.count("layout.agree.voronoi.%s" % name)
        else:
            ctx.violation("voronoi:layout=%s" % name, dict(case, layout=name),
                          "the same %d points given as %s: weights %r, float64 C-contiguous call %r" % (
                              len(pts), name, w.tolist()[:12], ref.tolist()[:12]),
                          observed=w.tolist(), expected=ref.tolist())


def run_big_unit(unit, ctx, geom, gi):
    tier = unit["tier"]
    _, cf, (fx, fy), dyadic = geom
    kind = unit["kind"]
    n = unit["n"]
    if kind == "big-intersect":
        name, area = big_sets(n)[unit["set"]]
        filledc = fill_holes(area, n, n)
        catch = make_catchment(n, n, cf, fx, fy, area, filledc)
        configs = [c for c in big_configs(n, tier) if c[0] in unit["ms"]]
        modes = [False, True] if filledc != sorted(area) else [False]
        ctx.count("big.intersect_catchments")
        run_intersect_configs(ctx, catch, area, filledc, (n, n), geom, gi, configs, "intersect", modes,
                              extra={"bigset": name}, first=[False])
    elif kind == "big-voronoi":
        name, area = big_sets(n)[unit["set"]]
        catch = make_catchment(n, n, cf, fx, fy, area, area)
        first = True
        for pattern in VOR_PATTERNS:
            for npts in LADDER_VOR:
                pts = vor_points(n, npts, pattern)
                case = dict(vcase((n, n), geom, area, pts), bigset=name, pattern=pattern)
                if first:
                    ctx.case(False, n=0, sample=case)
                ctx.count("voronoi.ladder_calls")
                check_voronoi(ctx, catch, area, (n, n), geom, pts, case)
                if first or npts in (7, 16, 65):
                    check_voronoi_layouts(ctx, catch, geom, pts, dict(case, kind="voronoi-layout"))
                first = False


def run_unit(unit, ctx):
    tier, seed = unit["tier"], unit["seed"]
    gl = geoms(tier, seed)
    gi = unit["geom"]
    geom = gl[gi]
    _, cf, (fx, fy), dyadic = geom
    kind = unit["kind"]
    first = [False]
    if kind.startswith("big-"):
        return run_big_unit(unit, ctx, geom, gi)
    if kind == "combined":
        # catchments obtained with + and - from two others (the left operand has been intersected before,
        # so anything it memoised must not leak into the combination)
        m = unit["m"]
        configs = [(m, d, rx, ry) for d in DIMS3 for rx in offsets_small(m) for ry in offsets_small(m)]
        for ai, a in enumerate(SCAN_SETS3):
            for bi, b in enumerate(SCAN_SETS3):
                if ai == bi:
                    continue
                fa, fb = fill_holes(a, 3, 3), fill_holes(b, 3, 3)
                ca = make_catchment(3, 3, cf, fx, fy, a, fa)
                cb = make_catchment(3, 3, cf, fx, fy, b, fb)
                try:
                    ca.intersect(make_coarse(cf, m, 2, 3, fx, fy))
                except Exception:
                    pass
                for opname, comb, cells in (("add", ca + cb, sorted(set(fa) | set(fb))),
                                            ("sub", ca - cb, sorted(set(fa) - set(fb)))):
                    if not cells:
                        continue
                    ctx.count("intersect.combined_catchments")
                    run_intersect_configs(ctx, comb, cells, cells, (3, 3), geom, gi, configs, "intersect-combined",
                                          [False], extra={"op": opname, "a": a, "fa": fa, "b": b, "fb": fb}, first=first)
        return
    if kind == "sets3":
        m = unit["m"]
        for k in range(unit["block"] * 16, unit["block"] * 16 + 16):
            area = subset3(k)
            filledc = fill_holes(area, 3, 3)
            catch = make_catchment(3, 3, cf, fx, fy, area, filledc)
            configs = [(m, d, rx, ry) for d in DIMS3 for rx in offsets_small(m) for ry in offsets_small(m)]
            run_intersect_configs(ctx, catch, area, filledc, (3, 3), geom, gi, configs, "intersect", [False], first=first)
            if filledc != sorted(area):
                ctx.count("sets3.filled_differs")
                run_intersect_configs(ctx, catch, area, filledc, (3, 3), geom, gi, configs, "intersect", [True])
            else:
                run_intersect_configs(ctx, catch, area, filledc, (3, 3), geom, gi,
                                      [(m, d, rx, ry) for d, rx, ry in SETS3_FILLED_EXTRA], "intersect", [True])
    elif kind == "scan":
        m = unit["m"]
        area = SCAN_SETS3[unit["set"]]
        filledc = fill_holes(area, 3, 3)
        catch = make_catchment(3, 3, cf, fx, fy, area, filledc)
        configs = [(m, d, rx, ry) for d in DIMS_SCAN for rx in offsets_scan(m, d[1], 3) for ry in offsets_scan(m, d[0], 3)]
        for filled in (False, True):
            mine = [c for c in configs if not sets3_runs(area, m, c[1], c[2], c[3], filled, gi, len(gl))]
            ctx.count("scan.calls_owned_by_sets3_not_repeated", len(configs) - len(mine))
            run_intersect_configs(ctx, catch, area, filledc, (3, 3), geom, gi, mine, "intersect", [filled], first=first)
    elif kind == "family":
        n = unit["n"]
        name, area = family_sets(n)[unit["set"]]
        filledc = fill_holes(area, n, n)
        catch = make_catchment(n, n, cf, fx, fy, area, filledc)
        configs = [(m, d, rx, ry) for m in ms(tier) for d in DIMS_BIG for rx, ry in cross_offsets(m, d, n)]
        modes = [False, True] if filledc != sorted(area) else [False]
        run_intersect_configs(ctx, catch, area, filledc, (n, n), geom, gi, configs, "intersect", modes, first=first)
    elif kind == "delin":
        n = unit["n"]
        sink, pit = flow_configs(n)[unit["flow"]]
        for outlet in range(unit["row"] * n, unit["row"] * n + n):
            extra = {"n": n, "sink": list(sink), "pit": None if pit is None else list(pit), "outlet": outlet}
            try:
                catch = delin_catchment(n, cf, fx, fy, sink, pit, outlet)
                area = [int(c) for c in catch.idxcells_area]
                filledc = [int(c) for c in catch.idxcells_area_filled]
            except Exception:
                ctx.count("delin.unusable_delineation_raised")
                continue
            if any(c < 0 or c >= n * n for c in area + filledc):
                ctx.count("delin.unusable_cells_out_of_range")
                continue
            ctx.count("delin.catchments")
            if sorted(filledc) != sorted(area):
                ctx.count("delin.filled_differs")
            configs = delin_configs(tier, n)
            run_intersect_configs(ctx, catch, area, filledc, (n, n), geom, gi, configs, "intersect-delin",
                                  [False, True], extra=extra, first=first)
    elif kind.startswith("vor"):
        run_voronoi_unit(unit, ctx, geom, gi)


def vcase(fine, geom, cells, pts):
    return {"kind": "voronoi", "fine": list(fine), "geom": geom_json(geom), "cells": list(map(int, cells)),
            "pts": [list(map(int, p)) for p in pts]}


def tuple_positions(k, tier):
    c = [(x, y) for x in V_3 for y in V_3]
    if k == 3:
        return [(x, y) for x in V_CELL for y in V_CELL]
    if k == 4:
        return c
    if k == 5:
        return c if tier != "quick" else [(3, 3), (-1, -1), (7, 7), (1, 5), (3, 4)]
    return [(3, 3), (-1, 7), (7, -1), (2, 3)] + ([] if tier == "quick" else [(4, 6), (5, 1)])


SETS3_POINTS = None


def sets3_point_tuples():
    """40 point tuples (1..6 points) used against all 512 sets"""
    global SETS3_POINTS
    if SETS3_POINTS is None:
        P = []
        P += [[(3, 3)], [(-2, 8)], [(1, 1)]]
        P += [[(1, 3), (5, 3)], [(5, 3), (1, 3)], [(3, 3), (3, 3)], [(0, 0), (6, 6)], [(6, 6), (0, 0)],
              [(3, -1), (3, 7)], [(2, 3), (4, 3)], [(3, 2), (3, 4)], [(1, 1), (8, 8)], [(-2, -2), (1, 5)],
              [(2, 2), (4, 4)], [(4, 2), (2, 4)], [(3, 1), (3, 2)], [(0, 3), (7, 3)]]
        P += [[(1, 1), (5, 1), (3, 5)], [(3, 5), (5, 1), (1, 1)], [(0, 0), (6, 0), (3, 6)], [(3, 3), (3, 3), (1, 1)],
              [(1, 1), (3, 3), (5, 5)], [(5, 5), (3, 3), (1, 1)], [(2, 0), (2, 6), (8, 3)], [(-1, 3), (7, 3), (3, 3)]]
        P += [[(1, 1), (5, 1), (1, 5), (5, 5)], [(5, 5), (1, 5), (5, 1), (1, 1)], [(0, 0), (6, 0), (0, 6), (6, 6)],
              [(2, 2), (4, 2), (2, 4), (4, 4)], [(3, 3), (3, 3), (3, 3), (3, 3)], [(3, 1), (1, 3), (5, 3), (3, 5)]]
        P += [[(1, 1), (5, 1), (1, 5), (5, 5), (3, 3)], [(3, 3), (1, 1), (5, 1), (1, 5), (5, 5)],
              [(0, 0), (2, 2), (4, 4), (6, 6), (8, 8)], [(2, 3), (4, 3), (3, 2), (3, 4), (3, 3)]]
        P += [[(1, 1), (3, 1), (5, 1), (1, 5), (3, 5), (5, 5)], [(5, 5), (3, 5), (1, 5), (5, 1), (3, 1), (1, 1)],
              [(0, 3), (6, 3), (3, 0), (3, 6), (3, 3), (3, 3)], [(2, 2), (2, 2), (4, 4), (4, 4), (2, 4), (4, 2)],
              [(-2, -2), (8, 8), (-2, 8), (8, -2), (3, 3), (1, 1)]]
        if len(set(tuple(p) for p in P)) != len(P):
            raise RuntimeError("duplicate voronoi point tuples")
        SETS3_POINTS = P
    return SETS3_POINTS


def run_voronoi_unit(unit, ctx, geom, gi):
    _run_voronoi_unit(unit, ctx, geom, gi)
    # first case of the unit again in other layouts of xypoints (differential)
    for smp in ctx.samples[:1]:
        if isinstance(smp, dict) and smp.get("kind") == "voronoi":
            fine = tuple(smp["fine"])
            _, cf, (fx, fy), _ = geom
            catch = make_catchment(fine[0], fine[1], cf, fx, fy, smp["cells"], smp["cells"])
            check_voronoi_layouts(ctx, catch, geom, [tuple(p) for p in smp["pts"]], dict(smp, kind="voronoi-layout"))


def _run_voronoi_unit(unit, ctx, geom, gi):
    kind = unit["kind"]
    tier = unit["tier"]
    _, cf, (fx, fy), dyadic = geom
    first = True
    if kind == "vor-sets3":
        for k in range(unit["block"] * 16, unit["block"] * 16 + 16):
            area = subset3(k)
            catch = make_catchment(3, 3, cf, fx, fy, area, area)
            for pts in sets3_point_tuples():
                if vor_scan_runs(area, pts, gi, len(geoms(tier, unit["seed"])), tier):
                    ctx.count("vor-sets3.calls_owned_by_pairs_or_tuples_not_repeated")
                    continue
                case = vcase((3, 3), geom, area, pts)
                if first:
                    ctx.case(False, n=0, sample=case)
                    first = False
                check_voronoi(ctx, catch, area, (3, 3), geom, pts, case)
    elif kind == "vor-pairs":
        area = SCAN_SETS3[unit["set"]]
        catch = make_catchment(3, 3, cf, fx, fy, area, area)
        x0 = unit["x0"]
        for y0 in V_ALL:
            for x1 in V_ALL:
                for y1 in V_ALL:
                    pts = [(x0, y0), (x1, y1)]
                    case = vcase((3, 3), geom, area, pts)
                    if first:
                        ctx.case(False, n=0, sample=case)
                        first = False
                    check_voronoi(ctx, catch, area, (3, 3), geom, pts, case)
        for y0 in V_ALL:                     # single points
            pts = [(x0, y0)]
            check_voronoi(ctx, catch, area, (3, 3), geom, pts, vcase((3, 3), geom, area, pts))
    elif kind == "vor-tuples":
        area = SCAN_SETS3[unit["set"]]
        catch = make_catchment(3, 3, cf, fx, fy, area, area)
        k = unit["k"]
        pos = tuple_positions(k, tier)
        for pts in itertools.product(pos, repeat=k):
            pts = list(pts)
            case = vcase((3, 3), geom, area, pts)
            if first:
                ctx.case(False, n=0, sample=case)
                first = False
            check_voronoi(ctx, catch, area, (3, 3), geom, pts, case)
    elif kind == "vor-far":
        area = SCAN_SETS3[unit["set"]]
        catch = make_catchment(3, 3, cf, fx, fy, area, area)
        for k in (1, 2, 3):
            for pts in itertools.product(V_FAR, repeat=k):
                pts = list(pts)
                case = vcase((3, 3), geom, area, pts)
                if first:
                    ctx.case(False, n=0, sample=case)
                    first = False
                ctx.count("voronoi.far_points")
                check_voronoi(ctx, catch, area, (3, 3), geom, pts, case)
    elif kind == "vor-family":
        n = unit["n"]
        name, area = family_sets(n)[unit["set"]]
        catch = make_catchment(n, n, cf, fx, fy, area, area)
        e = 2 * n
        pos = [(-1, -1), (e + 1, e + 1), (n, n), (1, 1), (e - 1, 1), (n, 0), (n - 1, n + 1), (3, 2 * n - 3)]
        for k in (1, 2, 3) if tier == "quick" else (1, 2, 3, 4):
            for pts in itertools.product(pos, repeat=k):
                pts = list(pts)
                case = vcase((n, n), geom, area, pts)
                if first:
                    ctx.case(False, n=0, sample=case)
                    first = False
                check_voronoi(ctx, catch, area, (n, n), geom, pts, case)
        # structured 5- and 6-point tuples: every rotation of the position list prefix
        for k in (5, 6):
            for s in range(len(pos)):
                pts = [pos[(s + i) % len(pos)] for i in range(k)]
                check_voronoi(ctx, catch, area, (n, n), geom, pts, vcase((n, n), geom, area, pts))
                pts = pts[::-1]
                check_voronoi(ctx, catch, area, (n, n), geom, pts, vcase((n, n), geom, area, pts))


def replay(case):
    from mc.explore import Result
    import warnings
    warnings.simplefilter("ignore")
    ctx = Result()
    gj = case["geom"]
    geom = (gj[0], gj[1], tuple(gj[2]), gj[3])
    _, cf, (fx, fy), _ = geom
    fine = tuple(case["fine"])
    if case["kind"] == "voronoi":
        catch = make_catchment(fine[0], fine[1], cf, fx, fy, case["cells"], case["cells"])
        check_voronoi(ctx, catch, case["cells"], fine, geom, [tuple(p) for p in case["pts"]], case)
    elif case["kind"] == "voronoi-layout":
        catch = make_catchment(fine[0], fine[1], cf, fx, fy, case["cells"], case["cells"])
        check_voronoi_layouts(ctx, catch, geom, [tuple(p) for p in case["pts"]], {k: v for k, v in case.items() if k != "layout"})
        out = [v for lst in ctx.violations.values() for v in lst]
        return [v for v in out if v["case"].get("layout") == case.get("layout", v["case"].get("layout"))]
    else:
        if case["kind"] == "intersect-combined":
            ca = make_catchment(fine[0], fine[1], cf, fx, fy, case["a"], case["fa"])
            cb = make_catchment(fine[0], fine[1], cf, fx, fy, case["b"], case["fb"])
            try:
                ca.intersect(make_coarse(cf, case["m"], 2, 3, fx, fy))
            except Exception:
                pass
            catch = (ca + cb) if case["op"] == "add" else (ca - cb)
            area = filledc = case["cells"]
        elif case["kind"] == "intersect-delin":
            catch = delin_catchment(case["n"], cf, fx, fy, tuple(case["sink"]),
                                    None if case["pit"] is None else tuple(case["pit"]), case["outlet"])
            area = [int(c) for c in catch.idxcells_area]
            filledc = [int(c) for c in catch.idxcells_area_filled]
        else:
            area, filledc = case["cells"], case["filledcells"]
            catch = make_catchment(fine[0], fine[1], cf, fx, fy, area, filledc)
        # repeat the recorded history (first and previous call on the shared object), unjudged
        for hcall in case.get("history", []):
            try:
                ox, oy = fx + hcall["relx"], fy + hcall["rely"]
                catch.intersect(make_coarse(cf, hcall["m"], hcall["dims"][0], hcall["dims"][1], ox, oy), filled=hcall["filled"])
            except Exception:
                pass
        check_intersect(ctx, catch, filledc if case["filled"] else area, fine, geom, case["m"],
                        case["dims"][0], case["dims"][1], case["relx"], case["rely"], case["filled"], case)
    return [v for lst in ctx.violations.values() for v in lst]
