"""C19 - get_batch / SiteBatch / OptionManager.

get_batch: every 1 <= nbatch <= nelements <= N and every ibatch, on the real
function; the concatenation of the batches must be 0..n-1 in order (= contiguous,
ordered, disjoint, covering) and the sizes may differ by at most one. Rejected
calls (nbatch > nelements, ibatch outside [0, nbatch-1], nelements < 1) must raise.
SiteBatch: for the same (n, nbatch), integer and string site ids in a scrambled
order: the batches partition the ids in order, search(site) is the index of the
batch holding the site (every site, both id kinds, up to a bound; first and last site, one id kind alternating, beyond).
OptionManager: every shape (number of values per option) x value kind x context
x dictionary key naming: every combination once, dict / JSON-text / file round
trips equal in both directions, find(k=v) = the tasks whose option k equals v.
"""
import itertools, json, os, shutil, tempfile

ID = "C19"
# computational entry points whose results are watched by the engine's retained-result oracle (mc/explore.py)
RETAIN = [('hydrodiy.io.hyruns', 'SiteBatch.__getitem__'), ('hydrodiy.io.hyruns', 'OptionManager.to_dict')]
RULE = ("get_batch: every (nelements, nbatch, ibatch) with 1 <= nbatch <= nelements <= N on the real "
        "function, batches concatenated and compared with 0..n-1, sizes max-min <= 1; every rejected "
        "call class (nbatch in {n+1, n+2, 2n+1}, ibatch in {-1, -nbatch, nbatch, nbatch+1}, nelements in "
        "{0,-1}, nbatch 0) must raise. SiteBatch on the same (n, nbatch) with scrambled int and string "
        "ids: batches concatenate to the ids, search(site) = index of the batch listing it. "
        "OptionManager: every shape (m_1..m_k), k options with m_j values, x value kind {ints, "
        "identifier strings, mixed, bare scalars} x context {none, flat, nested} x key naming "
        "{default, renamed-shared, renamed-distinct, manager-only}: tasks compared with an independent "
        "mixed-radix enumeration, from_dict(to_dict()), JSON text and file round trips compared with == "
        "in both directions and field by field, find() for every (option, value), absent values and "
        "option pairs compared with the tasks listed by get_task. One case = one get_batch call / one "
        "(n, nbatch, id kind) SiteBatch / one manager configuration. Non-trivial: nelements not a "
        "multiple of nbatch (a remainder is distributed); managers with >= 2 options of >= 2 values. "
        "Cases are generated once each by nested loops over the coordinates.")
ASSUMPTIONS = [
    "a rejected call is any call that raises an Exception; the exception type is not prescribed by the property",
    "the order of tasks is not prescribed by the statement ('every combination exactly once'): a deviation from itertools.product order is counted (unjudged.task_order), not reported; find() and the round trips are judged against the order the manager itself exposes through get_task",
    "option values are given as lists (or bare int / str / float scalars); tuples, ranges and numpy scalars are outside the quantifier (JSON turns tuples into lists)",
    "mixed value lists have no string-form collisions (1 and '1'), values hold no regular-expression metacharacters (identifier-like); find() matches on the string form by design",
    "dictionary key names are renamed to names distinct from 'name', 'tasks', 'taskid' and from each other except the documented shared default for task/manager options",
    "SiteBatch.search of an id that is not listed and non-unique ids are outside the statement (counted only)",
    "field-by-field comparison after a round trip (options, context, tasks) is taken as part of 'comes back equal'",
]
TECHNIQUE = ("bounded exhaustive enumeration of get_batch / SiteBatch / OptionManager on the real "
             "implementation against an independent integer reference (partition of 0..n-1, mixed-radix product)")

INTS = [1, 11, 0, -1, 111]
STRS = ["a", "ab", "b_1", "A", "abc"]
MIXED = [1, "a", 11, "ab", 0]
OPTNAMES = ["zeta", "alpha", "m1", "beta"]        # deliberately not in sorted order
CONTEXTS = [{}, {"a": 1}, {"cfg": {"x": [1, 2], "y": "s"}, "b": 2.5, "a": "txt"}]
RENAMES = [
    {},
    {"context_name": "ctx", "task_options_name": "opts", "manager_options_name": "opts"},
    {"context_name": "ctx", "task_options_name": "topts", "manager_options_name": "mopts"},
    {"manager_options_name": "grid"},
]
VKINDS = ["ints", "strs", "mixed", "bare"]


def bounds(tier):
    if tier == "quick":
        return dict(N=60, allsites=60, nopt=4, mmax=3)
    return dict(N=300, allsites=80, nopt=4, mmax=5)


def bound_text(tier, seed):
    b = bounds(tier)
    return ("get_batch: all 1 <= nbatch <= nelements <= %d, every ibatch, plus rejected calls; SiteBatch: "
            "every site searched for nelements <= %d, first and last site (one id kind, alternating) beyond; OptionManager: all "
            "shapes of 1..%d options with 1..%d values x 4 value kinds x 3 contexts x 4 key namings"
            % (b["N"], b["allsites"], b["nopt"], b["mmax"]))


def units(tier, seed):
    b = bounds(tier)
    us = []
    for n in range(1, b["N"] + 1):
        parts = 1 if n <= 150 else (2 if n <= 230 else 3)
        for p in range(parts):
            us.append({"kind": "batch", "n": n, "part": p, "parts": parts,
                       "sites": "all" if n <= b["allsites"] else "ends"})
    us.append({"kind": "reject0"})
    mm = b["mmax"]
    us.append({"kind": "opm", "nopt": 1, "prefix": [], "mmax": mm})
    for m0 in range(1, mm + 1):
        us.append({"kind": "opm", "nopt": 2, "prefix": [m0], "mmax": mm})
    for nopt in range(3, b["nopt"] + 1):
        for m0 in range(1, mm + 1):
            for m1 in range(1, mm + 1):
                us.append({"kind": "opm", "nopt": nopt, "prefix": [m0, m1], "mmax": mm})
    return us


# --------------------------------------------------------------------------- get_batch / SiteBatch

def site_ids(n, kind):
    ids = [(i * 37) % 1009 + 5 for i in range(n)]       # distinct for n <= 1009, not sorted
    return ids if kind == "int" else ["s%d" % v for v in ids]


def check_batches(ctx, hyruns, n, nb, sites):
    case = {"kind": "batch", "n": n, "nb": nb, "sites": sites}
    nt = (n % nb != 0)
    batches = []
    for ib in range(nb):
        try:
            # history: the caller may do anything with an earlier result; ask once, scribble on the returned
            # array, ask again - the second answer is the one that is judged
            b0 = hyruns.get_batch(n, nb, ib)
            try:
                b0 += 1000003
                b0[...] = -7
            except Exception:
                pass
            b = hyruns.get_batch(n, nb, ib)
            lst = [int(v) for v in b]
            if any(int(v) != v for v in b):
                raise TypeError("non-integer element index in %r" % (b,))
        except Exception as e:
            ctx.case(nt)
            ctx.violation("get_batch:raised:%s" % type(e).__name__, dict(case, ib=ib),
                          "get_batch(%d, %d, %d) raised %r on a valid call" % (n, nb, ib, e))
            return None
        ctx.case(nt, outcome=(n, nb, ib, len(lst), lst[0] if lst else None))
        batches.append(lst)
    flat = [v for b in batches for v in b]
    sizes = [len(b) for b in batches]
    if nt:
        ctx.count("get_batch.remainder_distributed")
    if flat != list(range(n)):
        missing = sorted(set(range(n)) - set(flat))
        if missing:
            key, what = "get_batch:cover:lost", "elements %s are in no batch" % missing[:10]
        elif len(flat) != len(set(flat)):
            dup = sorted(v for v in set(flat) if flat.count(v) > 1)
            key, what = "get_batch:cover:duplicate", "elements %s are in more than one batch" % dup[:10]
        elif len(flat) != n or sorted(flat) != list(range(n)):
            key, what = "get_batch:cover:foreign", "elements outside 0..%d returned" % (n - 1)
        else:
            key, what = "get_batch:order", "batches are not contiguous and ordered"
        ctx.violation(key, case, "get_batch(%d, %d, .): %s; batch sizes %s" % (n, nb, what, sizes),
                      observed=batches if n <= 40 else sizes, expected="0..%d in order" % (n - 1))
    if max(sizes) - min(sizes) > 1:
        ctx.violation("get_batch:sizes", case,
                      "get_batch(%d, %d, .): batch sizes %s differ by more than one" % (n, nb, sizes),
                      observed=sizes)
    # rejected calls of this (n, nb)
    for ib in sorted(set((-1, -nb, nb, nb + 1))):
        check_reject(ctx, hyruns, n, nb, ib, "ibatch-out-of-range")
    if nb == n:
        for nb2 in (n + 1, n + 2, 2 * n + 1):
            for ib in (0, nb2 - 1, n - 1):
                check_reject(ctx, hyruns, n, nb2, ib, "nbatch>nelements")
    return batches


def check_reject(ctx, hyruns, n, nb, ib, cls):
    case = {"kind": "reject", "n": n, "nb": nb, "ib": ib, "cls": cls}
    try:
        out = hyruns.get_batch(n, nb, ib)
    except Exception as e:
        ctx.case(True, outcome="raise:" + type(e).__name__)
        ctx.count("rejected." + cls)
        return
    ctx.case(True)
    ctx.violation("get_batch:accepted:%s" % cls, case,
                  "get_batch(%d, %d, %d) must be rejected (%s) but returned %r" % (n, nb, ib, cls, list(out)[:10]))


def check_sitebatch(ctx, hyruns, n, nb, sites, idkind):
    case = {"kind": "sitebatch", "n": n, "nb": nb, "sites": sites, "ids": idkind}
    ids = site_ids(n, idkind)
    nt = (n % nb != 0)
    try:
        sb = hyruns.SiteBatch(ids, nb)
        lists = [sb[ib] for ib in range(nb)]
    except Exception as e:
        ctx.case(nt)
        ctx.violation("sitebatch:getitem:raised:%s" % type(e).__name__, case,
                      "SiteBatch(%d %s ids, %d)[ibatch] raised %r" % (n, idkind, nb, e))
        return
    flat = [s for l in lists for s in l]
    if flat != ids:
        ctx.violation("sitebatch:getitem:partition", case,
                      "the batches of SiteBatch(%d %s ids, %d) do not concatenate to the site list "
                      "(sizes %s)" % (n, idkind, nb, [len(l) for l in lists]))
        ctx.case(nt)
        return
    sizes = [len(l) for l in lists]
    if max(sizes) - min(sizes) > 1:
        ctx.violation("sitebatch:getitem:sizes", case, "batch sizes %s differ by more than one" % sizes)
    where = {}
    for ib, l in enumerate(lists):
        for s in l:
            where[s] = ib
    if sites == "all":
        todo = ids
    else:
        todo = sorted(set([ids[0], ids[-1]]), key=ids.index)
    found = []
    for s in todo:
        try:
            j = sb.search(s)
        except Exception as e:
            ctx.violation("sitebatch:search:raised:%s" % type(e).__name__, dict(case, site=s),
                          "search(%r) raised %r" % (s, e))
            break
        found.append(j)
        ctx.count("sitebatch.search")
        if j is None or isinstance(j, bool) or j != where[s]:
            ctx.violation("sitebatch:search:wrong-batch:%s" % idkind, dict(case, site=s),
                          "SiteBatch(%d ids, %d).search(%r) returned %r, the site is listed in batch %d"
                          % (n, nb, s, j, where[s]), observed=repr(j), expected=where[s])
            break
    ctx.case(nt, outcome=(n, nb, idkind, tuple(found[:3])))
    if n == nb:
        absent = -3 if idkind == "int" else "nosuch"
        try:
            r = sb.search(absent)
            ctx.count("unjudged.search_absent_returned_%s" % type(r).__name__)
        except Exception:
            ctx.count("unjudged.search_absent_raised")


def run_batch_unit(unit, ctx):
    from hydrodiy.io import hyruns
    n = unit["n"]
    first = True
    for nb in range(1, n + 1):
        if nb % unit["parts"] != unit["part"]:
            continue
        if first:
            ctx.case(False, n=0, sample={"kind": "batch", "n": n, "nb": nb, "sites": unit["sites"]})
            first = False
        if check_batches(ctx, hyruns, n, nb, unit["sites"]) is None:
            continue
        kinds = ("int", "str")
        if unit["sites"] != "all":          # beyond the all-sites bound: one id kind per (n, nbatch)
            kinds = (kinds[(n + nb) % 2],)
        for idkind in kinds:
            check_sitebatch(ctx, hyruns, n, nb, unit["sites"], idkind)


def run_reject0(unit, ctx):
    from hydrodiy.io import hyruns
    ctx.case(False, n=0, sample={"kind": "reject", "n": 0, "nb": 1, "ib": 0, "cls": "nelements<1"})
    for n in (0, -1):
        for nb in (1, 0, -1, 2):
            for ib in (0, -1, 1):
                check_reject(ctx, hyruns, n, nb, ib, "nelements<1")
    for n in (1, 2, 7):
        for ib in (0, -1, 1):
            check_reject(ctx, hyruns, n, 0, ib, "nbatch=0")


# --------------------------------------------------------------------------- OptionManager

def option_values(shape, vkind):
    """-> list of (name, value as passed, list of values expected) or None when the kind
    adds nothing new for this shape"""
    if vkind == "bare" and 1 not in shape:
        return None
    out = []
    for j, m in enumerate(shape):
        base = {"ints": INTS, "strs": STRS, "mixed": MIXED, "bare": INTS}[vkind]
        vals = [base[(i + j) % len(base)] for i in range(m)]
        passed = list(vals)
        if vkind == "bare" and m == 1:
            v = [7, "solo", 2.5, -4][j]
            vals, passed = [v], v
        out.append((OPTNAMES[j], passed, vals))
    return out


def reference_tasks(opts):
    """independent mixed-radix enumeration, last option varies fastest"""
    names = [o[0] for o in opts]
    radix = [len(o[2]) for o in opts]
    total = 1
    for r in radix:
        total *= r
    tasks = []
    for t in range(total):
        digits, rem = [], t
        for r in reversed(radix):
            digits.append(rem % r)
            rem //= r
        digits.reverse()
        tasks.append({nm: o[2][d] for nm, o, d in zip(names, opts, digits)})
    return tasks


def canon(task, names):
    return tuple((type(task[k]).__name__, task[k]) for k in names)


def same_manager(a_tasks, a_opts, a_ctx, other):
    """field-by-field comparison of a manager with the original content"""
    try:
        if dict(other.options) != a_opts or [type(x) for v in other.options.values() for x in v] != \
                [type(x) for v in a_opts.values() for x in v]:
            return "options %r" % (other.options,)
        if other.context != a_ctx:
            return "context %r" % (other.context,)
        if other.ntasks != len(a_tasks):
            return "ntasks %r" % (other.ntasks,)
        for t in range(other.ntasks):
            tk = other.get_task(t)
            if tk.options != a_tasks[t] or tk.taskid != t or tk.context != a_ctx:
                return "task %d %r" % (t, tk.options)
    except Exception as e:
        return "raised %r" % (e,)
    return None


def _use_manager(opm):
    """every read access of a manager (results dropped): fills whatever the object memoises"""
    for t in range(opm.ntasks):
        opm.get_task(t)
    for f in (opm.to_dict, lambda: str(opm), lambda: list(opm.tasks) if hasattr(opm, "tasks") else None,
              lambda: opm.search(zz_same=100), lambda: opm.find(zz_same=100)):
        try:
            f()
        except Exception:
            pass


def check_opm(ctx, hyruns, case):
    shape, vkind = case["shape"], case["vkind"]
    context = json.loads(json.dumps(CONTEXTS[case["ctx"]]))
    rename = RENAMES[case["rename"]]
    opts = option_values(shape, vkind)
    names = [o[0] for o in opts]
    ref = reference_tasks(opts)
    nt = sum(1 for m in shape if m >= 2) >= 2
    kq = "opm"
    hyruns.reset_dict_keyname()
    try:
        for k, v in rename.items():
            hyruns.set_dict_keyname(k, v)
        # ---- build
        try:
            opm = hyruns.OptionManager("mgr", **context)
            if case["ctx"] == 1:
                # history: under the flat context the manager object held another product (other option
                # names) before; the product that is judged is built on the same object afterwards
                opm.from_cartesian_product(zz_warmup=[1, 2, 3], zz_other=["q", "r"])
                _use_manager(opm)
                # ... and then a product with exactly as many tasks as the judged one (one option, other names):
                # anything derived from the tasks and refreshed only "when something changed" must notice
                opm.from_cartesian_product(zz_same=list(range(100, 100 + len(ref))))
                _use_manager(opm)
                ctx.count("opm.rebuilt_on_used_manager")
            opm.from_cartesian_product(**{o[0]: o[1] for o in opts})
            ntasks = opm.ntasks
            tasks = [opm.get_task(t) for t in range(ntasks)]
            obs = [dict(t.options) for t in tasks]
        except Exception as e:
            ctx.case(nt)
            ctx.violation("opm:build:raised:%s" % type(e).__name__, case,
                          "building the manager for options %r raised %r" % ({o[0]: o[1] for o in opts}, e))
            return
        ctx.case(nt, outcome=repr(obs[:40]) + repr(ntasks))
        ctx.count("opm.kind." + vkind)
        # ---- every combination exactly once
        try:
            oc = [canon(t, names) for t in obs]
            bad = any(list(t.keys()) != names for t in obs)
        except Exception:
            oc, bad = [], True
        rc = [canon(t, names) for t in ref]
        if bad or sorted(map(repr, oc)) != sorted(map(repr, rc)):
            lost = [r for r in rc if r not in oc]
            dup = [o for o in set(oc) if oc.count(o) > 1] if not bad else []
            sub = "lost" if lost else ("duplicate" if dup else "foreign")
            ctx.violation("opm:tasks:%s" % sub, case,
                          "options %r: %d tasks for %d combinations; missing %r, repeated %r" % (
                              {o[0]: o[1] for o in opts}, ntasks, len(ref), lost[:3], dup[:3]),
                          observed=ntasks, expected=len(ref))
            return
        if oc != rc:
            ctx.count("unjudged.task_order")
        else:
            ctx.count("opm.product_order")
        for t, tk in enumerate(tasks):
            if tk.taskid != t or tk.context != context:
                ctx.violation("opm:get_task:fields", case,
                              "get_task(%d) has taskid %r and context %r" % (t, tk.taskid, tk.context))
                break
        exp_opts = {o[0]: o[2] for o in opts}
        if dict(opm.options) != exp_opts:
            ctx.violation("opm:options:%s" % vkind, case,
                          "manager options %r, expected %r" % (opm.options, exp_opts))
        # ---- round trips
        others = {}
        try:
            dd = opm.to_dict()
        except Exception as e:
            ctx.violation("opm:to_dict:raised:%s" % type(e).__name__, case, "to_dict raised %r" % (e,))
            return
        for nm in ("context_name", "manager_options_name"):
            if rename.get(nm, hyruns._DICT_KEYNAMES_DEFAULT[nm]) in dd:
                ctx.count("rename.key_present")
            else:
                ctx.count("unjudged.rename_key_absent")
        routes = ["dict", "json"] + (["file"] if ntasks <= 30 else [])
        for route in routes:
            try:
                if route == "dict":
                    o2 = hyruns.OptionManager.from_dict(dd)
                elif route == "json":
                    o2 = hyruns.OptionManager.from_dict(json.loads(json.dumps(dd)))
                else:
                    tmp = tempfile.mkdtemp(prefix="verif-c19-")
                    try:
                        fn = os.path.join(tmp, "opm.json")
                        opm.save(fn)
                        o2 = hyruns.OptionManager.from_file(fn, wait_secs=0)
                    finally:
                        shutil.rmtree(tmp, ignore_errors=True)
            except Exception as e:
                ctx.violation("opm:roundtrip:%s:raised:%s" % (route, type(e).__name__), case,
                              "%s round trip raised %r" % (route, e))
                continue
            ctx.count("roundtrip." + route)
            others[route] = o2
            try:
                fwd, bwd = (opm == o2), (o2 == opm)
            except Exception as e:
                ctx.violation("opm:roundtrip:%s:eq-raised" % route, case, "== raised %r" % (e,))
                continue
            if fwd is not True:
                ctx.violation("opm:roundtrip:%s:original==copy" % route, case,
                              "original == copy is %r after the %s round trip (context %r, copy context %r)"
                              % (fwd, route, context, getattr(o2, "context", None)))
            if bwd is not True:
                ctx.violation("opm:roundtrip:%s:copy==original" % route, case,
                              "copy == original is %r after the %s round trip" % (bwd, route))
            diff = same_manager(obs, exp_opts, context, o2)
            if diff is not None:
                ctx.violation("opm:roundtrip:%s:content" % route, case,
                              "the %s round trip changed the manager: %s" % (route, diff))
        # == is not vacuous: a manager with one more value must differ (counted, not judged)
        try:
            o4 = hyruns.OptionManager("mgr", **context)
            alt = {o[0]: list(o[2]) for o in opts}
            alt[names[0]] = alt[names[0]] + [999]
            o4.from_cartesian_product(**alt)
            ctx.count("eq.distinguishes" if not (opm == o4) and not (o4 == opm) else "unjudged.eq_blind")
        except Exception:
            ctx.count("unjudged.eq_blind")
        # ---- find
        targets = [("orig", opm, obs)]
        if "json" in others:
            targets.append(("json", others["json"], obs))
        for tag, mgr, tlist in targets:
            for nm, _, vals in opts:
                absent = "zz" if vkind == "strs" else 999
                for v in list(vals) + [absent]:
                    exp = [t for t, tk in enumerate(tlist) if type(tk[nm]) is type(v) and tk[nm] == v]
                    if not check_find(ctx, mgr, {nm: v}, exp, case, tag, "absent" if v == absent else vkind):
                        return
            if ntasks <= 64 and len(opts) >= 2:
                for (n1, _, v1s), (n2, _, v2s) in itertools.combinations(opts, 2):
                    for v1 in v1s:
                        for v2 in v2s:
                            exp = [t for t, tk in enumerate(tlist) if tk[n1] == v1 and tk[n2] == v2]
                            if not check_find(ctx, mgr, {n1: v1, n2: v2}, exp, case, tag, "pair"):
                                return
    finally:
        hyruns.reset_dict_keyname()


def check_find(ctx, mgr, kw, exp, case, tag, cls):
    ctx.count("find.calls")
    try:
        got = mgr.find(**kw)
        got = [int(t) for t in got]
    except Exception as e:
        ctx.violation("opm:find:%s:raised:%s" % (tag, type(e).__name__), dict(case, find=kw),
                      "find(%r) raised %r" % (kw, e))
        return False
    if sorted(got) != exp or len(set(got)) != len(got):
        ctx.violation("opm:find:%s:%s" % (tag, cls), dict(case, find=kw),
                      "find(%r) returned tasks %r, the tasks with that value are %r" % (kw, got[:20], exp[:20]),
                      observed=got[:50], expected=exp[:50])
        return False
    if exp:
        ctx.count("find.nonempty")
    return True


def run_opm_unit(unit, ctx):
    from hydrodiy.io import hyruns
    nopt, prefix, mm = unit["nopt"], unit["prefix"], unit["mmax"]
    first = True
    for tail in itertools.product(range(1, mm + 1), repeat=nopt - len(prefix)):
        shape = list(prefix) + list(tail)
        for vkind in VKINDS:
            if option_values(shape, vkind) is None:
                continue
            for ci in range(len(CONTEXTS)):
                for ri in range(len(RENAMES)):
                    case = {"kind": "opm", "shape": shape, "vkind": vkind, "ctx": ci, "rename": ri}
                    if first:
                        ctx.case(False, n=0, sample=case)
                        first = False
                    check_opm(ctx, hyruns, case)


def run_unit(unit, ctx):
    k = unit["kind"]
    if k == "batch":
        run_batch_unit(unit, ctx)
    elif k == "reject0":
        run_reject0(unit, ctx)
    else:
        run_opm_unit(unit, ctx)


def replay(case):
    from mc.explore import Result
    from hydrodiy.io import hyruns
    ctx = Result()
    k = case["kind"]
    if k == "batch":
        check_batches(ctx, hyruns, case["n"], case["nb"], case["sites"])
    elif k == "reject":
        check_reject(ctx, hyruns, case["n"], case["nb"], case["ib"], case["cls"])
    elif k == "sitebatch":
        check_sitebatch(ctx, hyruns, case["n"], case["nb"], case["sites"], case["ids"])
    else:
        check_opm(ctx, hyruns, {kk: case[kk] for kk in ("kind", "shape", "vkind", "ctx", "rename")})
    return [v for lst in ctx.violations.values() for v in lst]
