"""C10 - rank / PIT diagnostics: ensrank + dscore, pit, CvM / AD / alpha.

Sub-spaces (each crossed fully inside its bound):
  rank    : every n x m forecast matrix over the letter set; c_hydrodiy_stat.ensrank
            against the Weigel-Mason pairwise mid-rank model in Fractions; for every
            observation vector over {0,1,2}: dscore range, perfect / inverse order,
            monotone maps of obs / of all forecasts, member order, member duplication.
  rankdev : m = 5, 8: every matrix with <= 2 entries changed from an overlapping
            ladder base case (ensrank only + a few observation vectors).
  pit     : every (obs, ens) over the letter set x censor x cst x random; for
            random=True numpy.random.uniform is replaced by scripted answers.
  unif    : every ordered sample of size 1..5 over {0.1,0.25,0.5,0.75,0.9}; lattices.
  reject  : samples with one value outside [0,1] / NaN / inf: anderson_darling_test raises.
  alpha   : every small (obs, ens) x scripted jitter x CV / KS / AD.
  ladder  : structured integer-valued designs on a size ladder around powers of two:
            ensrank/dscore with n forecasts 7..257 (thorough ..1025) x m in {1,2,3,5} and m members
            7..1025 (thorough ..4097, 10001) x n = 4, against an integer Weigel-Mason model (cross-checked
            with the Fraction model at small sizes); pit / alpha with ensemble sizes and forecast counts
            on the ladder; CvM / AD with sample sizes on the ladder against mpmath.
  layout  : ladder cases and the first case of units again with float32 / int64 / Fortran / strided /
            read-only / pandas inputs: same result as the float64 C-contiguous call.
"""
import itertools, math
from fractions import Fraction
import numpy as np
from mc.explore import recycle

ID = "C10"
# computational entry points whose results are watched by the engine's retained-result oracle (mc/explore.py)
RETAIN = [('hydrodiy.stat.metrics', 'pit'), ('hydrodiy.stat.metrics', 'anderson_darling_test'), ('hydrodiy.stat.metrics', 'dscore'), ('hydrodiy.stat.metrics', 'cramer_von_mises_test'), ('hydrodiy.stat.metrics', 'alpha')]
RULE = ("rank: every n x m forecast matrix over a small letter set (exact ties or gaps >> 1e-6) run through "
        "c_hydrodiy_stat.ensrank and compared with the Weigel-Mason pairwise mid-rank F and ranks in Fractions, "
        "and for every observation vector over {0,1,2} metrics.dscore checked for range, D=1/0 on perfectly / "
        "inversely ordered distinct cases, invariance under exp/arctan/cubic/affine maps of the observations and "
        "of all forecasts, under sorting the members and under duplicating every member (same Weigel-Mason ranks); "
        "pit: every (obs, ens) over the letter set x censor x cst x random, the jitter of random=True being a "
        "scripted answer of numpy.random.uniform (all-equal in {-e,0,+e} and one deviation per position), range, "
        "strict monotonicity in the exact count of members below, pseudo flag; uniformity: every ordered sample of "
        "size 1..5 over 5 letters and (i+d)/n lattices in 4 orders against 50-digit mpmath CvM and A2, p-values in "
        "[0,1], order independence; rejection of out-of-range/NaN data; alpha p-values for CV/KS/AD. Size ladder (7,8,9,15,"
        "16,17,...,1023,1024,1025 and 100, 500, 501, 1000, 1001; thorough ..4097, 10001): four integer-valued designs "
        "(staircase, interleaved-distinct, 5-letter tie-rich, sparse ties) with n forecasts on the ladder up to 257 "
        "(thorough 1025) x m in {1,2,3,5} and with m members on the whole ladder x 4 forecasts, ensrank against an "
        "integer Weigel-Mason model (2F m^2 and 2 ranks as ints; equal to the Fraction model wherever that is affordable), "
        "dscore relations (range, perfect/inverse staircase, maps, member order, duplication, joint reversal of the "
        "forecasts); pit with m on the ladder (9 observations per ensemble: counts 0, 1, m/2, m-1, m with and without "
        "ties, 3 jitter scripts) and alpha with m and with the number of forecasts on the ladder; CvM / AD on lattice, "
        "tie-rich 5-letter and clustered samples of every ladder size against mpmath; layout variants (float32, int64, "
        "Fortran order, strided, negative stride, read-only, pandas) of the ladder cases must reproduce the float64 "
        "C-contiguous result. A case is one "
        "call (or one call plus its differential partners); non-trivial = a tie is present (rank, pit), more than "
        "one value (uniformity), always for rejection. Cases come from nested enumeration (distinct by construction).")
ASSUMPTIONS = [
    "glibc 2.36 qsort is a stable merge sort; the kernel's handling of ties across two ensembles relies on it (platform fact, DESIGN 1)",
    "letters are exactly tied or >= 2e-5 apart before and after every monotone map, well above the 1e-6 tie tolerance and the 1e-8 sort tolerance",
    "dscore is not judged when all Weigel-Mason forecast ranks are equal (correlation undefined) - counted",
    "dscore ties among observations are ranked by position by the implementation; D = 1 / 0 is only demanded for distinct observations",
    "the ranks behind dscore are observed through a differential: duplicating every member leaves every pairwise F and every Weigel-Mason rank unchanged (verified in Fractions per case), so the score must not change",
    "PIT monotonicity is demanded between cases with the same ensemble size (and, for random=False, the same number of members tied with the observation); the count of members below is evaluated exactly on the jittered values for random=True",
    "cst = 0.7 (outside the stated [0, 0.5]) is executed but not judged",
    "the lower triangle and diagonal of fmat are not written by the kernel and are not judged",
    "uniformity statistics are judged on the open interval; samples containing exactly 0 or 1 are executed and only the p-value range is judged",
    "anderson_darling_test returns (statistic, p-value) in this order (as alpha uses it), not the order its docstring lists",
    "extension modules rebuilt from the working tree C sources; Cython wrapper C not re-translated",
    "size ladder: designs are integer-valued (exact ties or gaps >= 1), so the integer model (pair counts by binary search) is exact; it is compared with the Fraction model of the small space whenever n*n*m*m <= 40000; rank decisions are not judged for a pair whose exact |F - 1/2| lies in (0, 1e-7) (the kernel decides with 1e-8; can only happen for m > 2236)",
    "dscore under joint reversal of the forecast order is demanded for distinct observations only (tied observations are ranked by position); it follows from the score depending on ranks only",
    "ladder uniformity samples: Anderson-Darling statistic tolerance 1e-10 * max(1, n/300) relative to max(1, |A2|): the kernel accumulates n terms of size up to 2n*|log| in float64 and divides by n (observed noise 3e-13 at n = 300, 1.1e-11 at n = 10001, see check_unif_case); Cramer-von Mises 1e-11 unchanged (observed noise 2e-16)",
    "layout variants hold exactly the same values; a layout rejected with a Python exception is accepted and counted; results must equal the float64 C-contiguous call (TOL 1e-12; observed bitwise equal). cramer_von_mises_test documents an ndarray (it reads data.shape): pandas Series and lists are executed, a rejection is accepted",
]
LEVEL_NOTE = ("trusted base: CPython, numpy, fractions, mpmath (50 digits), scipy.stats.percentileofscore / kstest "
              "as called by the implementation; the runner/explorer in mc/. numpy.random.uniform is replaced by the harness.")
TECHNIQUE = ("stateless bounded-exhaustive exploration of the real ensrank kernel, dscore, pit, cramer_von_mises_test, "
             "anderson_darling_test and alpha with exact reference models and differential relations; randomness as an "
             "enumerated environment answer")

NAN = float("nan")
TOL = 1e-12
JIT = 2.0 ** -34            # scripted jitter, inside (-1e-10, 1e-10), dyadic
RANK_EXTRA = [3.0, 0.5, -1.0, 1.0001]
PIT_EXTRA = [0.5, 3.0, -2.0, 1.5]
ULET = [0.1, 0.25, 0.5, 0.75, 0.9]
DELTAS = [0.5, 0.3, 0.7, 0.1]

LADDER_Q = [7, 8, 9, 15, 16, 17, 31, 32, 33, 63, 64, 65, 100, 127, 128, 129, 255, 256, 257, 500, 501, 511, 512, 513,
            1000, 1001, 1023, 1024, 1025]
# dense range: every size (a defect may sit at one particular size, e.g. exactly 73 members)
LADDER_Q = sorted(set(LADDER_Q) | set(range(7, 131)))
LADDER_T = LADDER_Q + [2047, 2048, 2049, 4095, 4096, 4097, 10001]
LADDER_T = sorted(set(LADDER_T) | set(range(7, 301)))
RANK_DESIGNS = ["staircase", "interleaved", "ties5", "sparse"]
RANK_M_SMALL = [1, 2, 3, 5]       # members when the number of forecasts is on the ladder
RANK_N_SMALL = 4                  # forecasts when the number of members is on the ladder
PIT_DESIGNS = ["distinct", "pairs"]
UNIF_DESIGNS = ["ties5", "dyadic", "cluster"]

MAPS = {
    "exp": lambda v: math.exp(v),
    "arctan": lambda v: math.atan(v),
    "cubic": lambda v: v * v * v,
    "affine": lambda v: 3.0 * v - 7.0,
    "affine-small": lambda v: 0.5 * v + 2.0,
    # large magnitudes (beyond 2**53, where x + 1 == x): still finite, exactly tied or far apart
    "exp-steep": lambda v: math.exp(20.0 * v),
    "affine-huge": lambda v: v * 2.0 ** 55 + 2.0 ** 60,
    "affine-neg-huge": lambda v: v * 2.0 ** 55 - 2.0 ** 60,
}


def bound_text(tier, seed):
    rx = RANK_EXTRA[seed % 4]
    px = PIT_EXTRA[seed % 4]
    d = DELTAS[seed % 4]
    if tier == "quick":
        return ("rank: n in 2..4 x m in 1..3, n*m <= 6, all matrices and obs over {0,1,2}; n*m <= 4 over {0,1,2,%g}; "
                "pit: n=1 m<=4, n=2 m<=2 over {-1,0,1,2}, n=1 m<=2 over +{%g}, censor {0,1}, cst {0,.3,.5,.7}, random F/T with "
                "3 + 2n(m+1) jitter scripts; uniformity: all ordered samples of size 1..5 over 5 letters, lattices (i+d)/n "
                "n=1..12 d in {.5,.3,.7,.1} + n in {7,50,300} d=%g in 4 orders; rejection: 155 bases x position x 9 bad "
                "values; alpha: n*(m+1) <= 6 over {0,1,2} x scripts x CV/KS/AD; size ladder (29 sizes 7..1025 around powers of two): "
                "ensrank/dscore 4 designs x [n forecasts in 7..257 x m in {1,2,3,5}; 4 forecasts x m members in 7..1025], pit 2 designs x m in "
                "7..1025 x 9 observations x 2 censor x (2 cst + 3 cst x 3 scripts), alpha (9 x m) and (n x 5) for n, m in 7..1025 x CV/KS/AD x 2 "
                "scripts, CvM/AD lattice d=%g in 4 orders + 3 designs x 2 orders for n in 7..1025; layouts (8-10 per call) on the ladder cases "
                "and the first case of every rank/pit/unif/alpha unit" % (rx, px, d, d))
    return ("rank: n in 2..4 x m in 1..3, n*m <= 9, all matrices and obs over {0,1,2}; n*m <= 6 over {0,1,2,%g}; m in {5,8} "
            "x n in {2,3,4} with <= 2 changed entries; pit: n=1 m<=5, n=2 m<=2, n=3 m=1 (and n=2 m=3 for random=False) over {-1,0,1,2}, n=1 m<=3 over +{%g}; "
            "uniformity: size 1..5 over 5 letters, size 1..6 over {.1,.5,.9} and {1e-9,.5,1-1e-9}, lattices n=1..40 + "
            "{7,50,300}; rejection as quick + size 4; alpha: n*(m+1) <= 8; size ladder (36 sizes 7..4097 around powers of two and 10001): "
            "ensrank/dscore 4 designs x [n forecasts in 7..1025 x m in {1,2,3,5}; 4 forecasts x m members in 7..10001], pit 2 designs x m in "
            "7..10001 x 9 observations, alpha (9 x m) and (n x 5), CvM/AD lattice in 4 orders + 3 designs x 2 orders for n in 7..10001; layouts "
            "as quick" % (rx, px))


def jl(v):
    """JSON-able list of floats (None for NaN)"""
    return [None if (isinstance(x, float) and math.isnan(x)) else x for x in v]


def close(a, b, tol=TOL):
    if math.isnan(a) or math.isnan(b):
        return False
    return abs(a - b) <= tol * max(1.0, abs(b))


# =========================================================== Weigel-Mason model
def wm_model(sim):
    """sim: list of rows of floats. -> (F dict (i1,i2)->Fraction for i1<i2, ranks list of Fractions)"""
    n, m = len(sim), len(sim[0])
    F = {}
    ranks = [Fraction(1)] * n
    for i1 in range(n):
        for i2 in range(i1 + 1, n):
            pooled = list(sim[i1]) + list(sim[i2])
            s = Fraction(0)
            for v in sim[i1]:
                less = sum(1 for w in pooled if w < v)
                eq = sum(1 for w in pooled if w == v)
                s += Fraction(2 * less + eq + 1, 2)          # mid-rank, 1-based
            f = (s - Fraction(m * (m + 1), 2)) / (m * m)
            F[(i1, i2)] = f
            u = Fraction(0) if f < Fraction(1, 2) else (Fraction(1) if f > Fraction(1, 2) else Fraction(1, 2))
            ranks[i1] += u
            ranks[i2] += 1 - u
    return F, ranks


def wm_full(sim):
    """(F, ranks, duplication_keeps_ranks): the last item verifies in Fractions that duplicating every
    member leaves the Weigel-Mason ranks unchanged (it always does)"""
    F, R = wm_model(sim)
    dsim = [[v for v in row for _ in (0, 1)] for row in sim]
    F2, R2 = wm_model(dsim)
    return F, R, (R2 == R and all(F2[k] == F[k] for k in F))


def pair_class(r1, r2):
    if set(r1) & set(r2):
        return "cross-tie"
    if len(set(r1)) < len(r1) or len(set(r2)) < len(r2):
        return "within-tie"
    return "no-tie"


def call_ensrank(sim):
    import c_hydrodiy_stat
    a = np.ascontiguousarray(np.array(sim, dtype=np.float64).reshape(len(sim), -1))
    n = a.shape[0]
    fmat = np.zeros((n, n), dtype=np.float64)
    ranks = np.zeros(n, dtype=np.float64)
    ierr = c_hydrodiy_stat.ensrank(np.float64(1e-6), a, fmat, ranks)
    return ierr, fmat, ranks


def check_rank_case(ctx, sim, model=None):
    """ensrank outputs against the model, and under monotone maps of all forecasts"""
    n, m = len(sim), len(sim[0])
    case = {"kind": "rank", "sim": [list(r) for r in sim]}
    F, R = (model if model is not None else wm_full(sim))[:2]
    has_tie = any(pair_class(sim[i], sim[j]) != "no-tie" for i in range(n) for j in range(i + 1, n))
    try:
        ierr, fmat, ranks = call_ensrank(sim)
    except Exception as e:
        ctx.case(has_tie)
        ctx.violation("ensrank:raised:%s" % type(e).__name__, case, "ensrank raised %r" % (e,))
        return
    ctx.case(has_tie, outcome=fmat.tobytes() + ranks.tobytes())
    if ierr != 0:
        ctx.violation("ensrank:ierr", case, "ensrank returned error code %r" % (ierr,))
        return
    worst = "no-tie"
    for (i1, i2), f in F.items():
        pc = pair_class(sim[i1], sim[i2])
        if pc == "cross-tie" or (pc == "within-tie" and worst == "no-tie"):
            worst = pc
        ctx.count("pair." + pc)
        o = float(fmat[i1, i2])
        if not close(o, float(f)):
            ctx.violation("ensrank:fmat:%s" % pc, case,
                          "F[%d,%d] = %r, Weigel-Mason mid-rank comparison gives %s" % (i1, i2, o, f),
                          observed=fmat.tolist(), expected=float(f))
    exp = [float(r) for r in R]
    if not all(close(float(a), b) for a, b in zip(ranks, exp)):
        ctx.violation("ensrank:ranks:%s" % worst, case,
                      "ranks %r, Weigel-Mason ranks %r" % (ranks.tolist(), exp),
                      observed=ranks.tolist(), expected=exp)
    for name, g in MAPS.items():
        sim2 = [[g(v) for v in row] for row in sim]
        try:
            ierr2, fmat2, ranks2 = call_ensrank(sim2)
        except Exception as e:
            ctx.violation("ensrank:sim-map:%s:raised" % name, case, "raised %r" % (e,))
            continue
        ctx.case(has_tie)
        if ierr2 != 0 or not np.allclose(fmat2, fmat, rtol=0, atol=TOL) or not np.allclose(ranks2, ranks, rtol=0, atol=TOL):
            ctx.violation("ensrank:sim-map:%s" % name, case,
                          "after the strictly increasing map %s of all forecasts: ranks %r (before %r), F %r (before %r)" % (
                              name, ranks2.tolist(), ranks.tolist(), fmat2.tolist(), fmat.tolist()),
                          observed=ranks2.tolist(), expected=ranks.tolist())


def call_dscore(obs, sim):
    from hydrodiy.stat import metrics
    return float(metrics.dscore(recycle("obs", np.array(obs, dtype=np.float64)),
                                recycle("sim", np.array(sim, dtype=np.float64).reshape(len(sim), -1))))


def order_class(obs, sim):
    """'perfect' / 'inverse' / None for distinct observations"""
    n = len(obs)
    if len(set(obs)) < n or n < 2:
        return None
    perfect = inverse = True
    for i in range(n):
        for j in range(n):
            if obs[i] < obs[j]:
                if not max(sim[i]) < min(sim[j]):
                    perfect = False
                if not min(sim[i]) > max(sim[j]):
                    inverse = False
    return "perfect" if perfect else ("inverse" if inverse else None)


def check_dscore_case(ctx, obs, sim, model=None, light=False):
    n, m = len(obs), len(sim[0])
    case = {"kind": "dscore", "obs": list(obs), "sim": [list(r) for r in sim]}
    F, R, dupok = model if model is not None else wm_full(sim)
    has_tie = len(set(v for row in sim for v in row)) < n * m or len(set(obs)) < n
    try:
        D = call_dscore(obs, sim)
    except Exception as e:
        ctx.case(has_tie)
        ctx.violation("dscore:raised:%s" % type(e).__name__, case, "dscore raised %r" % (e,))
        return
    ctx.case(has_tie, outcome=repr(D))
    if len(set(R)) == 1:
        ctx.count("unjudged.all_forecast_ranks_equal")
        return
    if math.isnan(D):
        ctx.violation("dscore:nan", case, "dscore is NaN although the Weigel-Mason ranks %r are not all equal" % ([float(r) for r in R],))
        return
    if not (-TOL <= D <= 1 + TOL):
        ctx.violation("dscore:range", case, "D = %r outside [0, 1]" % D, observed=D)
    oc = order_class(obs, sim)
    if oc == "perfect":
        ctx.count("order.perfect")
        if not close(D, 1.0):
            ctx.violation("dscore:perfect-order-not-1", case, "forecasts order the distinct observations perfectly but D = %r" % D,
                          observed=D, expected=1.0)
    elif oc == "inverse":
        ctx.count("order.inverse")
        if abs(D) > TOL:
            ctx.violation("dscore:inverse-order-not-0", case, "forecasts order the distinct observations inversely but D = %r" % D,
                          observed=D, expected=0.0)
    # member order
    ssim = [sorted(r) for r in sim]
    if ssim != [list(r) for r in sim]:
        ctx.count("relation.member-order")
        D2 = call_dscore(obs, ssim)
        ctx.case(has_tie)
        if not close(D2, D):
            ctx.violation("dscore:member-order", case, "D = %r, but %r with the members of each forecast sorted" % (D, D2),
                          observed=D, expected=D2)
    # duplication of every member: same pairwise F, same Weigel-Mason ranks -> same score
    dsim = [[v for v in row for _ in (0, 1)] for row in sim]
    if dupok:
        D3 = call_dscore(obs, dsim)
        ctx.case(has_tie)
        if not close(D3, D):
            tied = len(set(tuple(r) for r in sim)) < n
            key = "dscore:m=1:ranks-not-weigel-mason" if m == 1 else "dscore:duplicated-members"
            ctx.violation(key, case,
                          "D = %r, but %r when every member is duplicated; both inputs have Weigel-Mason ranks %r%s" % (
                              D, D3, [float(r) for r in R],
                              " (single-member forecasts are ranked by argsort, ties broken by position)" if m == 1 and tied else ""),
                          observed=D, expected=D3)
    else:       # cannot happen (algebraic identity); counted so that it is visible if it does
        ctx.count("harness.duplication_changes_model_ranks")
    if light:
        return
    for name, g in MAPS.items():
        obs2 = [g(v) for v in obs]
        sim2 = [[g(v) for v in row] for row in sim]
        Do = call_dscore(obs2, sim)
        Ds = call_dscore(obs, sim2)
        ctx.case(has_tie, n=2)
        if not close(Do, D):
            ctx.violation("dscore:obs-map:%s" % name, case, "D = %r, but %r after the increasing map %s of the observations" % (D, Do, name),
                          observed=Do, expected=D)
        if not close(Ds, D):
            ctx.violation("dscore:sim-map:%s" % name, case, "D = %r, but %r after the increasing map %s of all forecast values" % (D, Ds, name),
                          observed=Ds, expected=D)


def run_rank(unit, ctx):
    n, m, letters = unit["n"], unit["m"], unit["letters"]
    pre = [letters[i] for i in unit["prefix"]]
    obsl = unit["obsletters"]
    first = True
    laid = False
    for rest in itertools.product(letters, repeat=n * m - len(pre)):
        flat = pre + list(rest)
        sim = [flat[i * m:(i + 1) * m] for i in range(n)]
        model = wm_full(sim)
        if first:
            ctx.case(False, n=0, sample={"kind": "rank", "sim": sim})
            first = False
        check_rank_case(ctx, sim, model)
        for obs in itertools.product(obsl, repeat=n):
            check_dscore_case(ctx, list(obs), sim, model)
            if not laid and len(set(model[1])) > 1 and len(set(obs)) == n:
                # layout variants on the first case of the unit with distinct observations and unequal forecast ranks
                check_dscore_layouts(ctx, {"kind": "dscorelayout", "obs": list(obs), "sim": [list(r) for r in sim]},
                                     np.array(obs, dtype=np.float64), np.array(sim, dtype=np.float64).reshape(n, m))
                laid = True


def rankdev_base(n, m):
    return [[float(i + j) for j in range(m)] for i in range(n)]


def run_rankdev(unit, ctx):
    n, m = unit["n"], unit["m"]
    base = rankdev_base(n, m)
    vals = [float(v) for v in range(-1, n + m + 1)]
    devs = [(i, j, v) for i in range(n) for j in range(m) for v in vals if v != base[i][j]]
    combos = [()] + [(d,) for d in devs] + list(itertools.combinations(devs, 2))
    obss = [[float(i) for i in range(n)], [float(n - i) for i in range(n)], [float((i * 2) % n) for i in range(n)]]
    first = True
    for ci, combo in enumerate(combos):
        if ci % unit["parts"] != unit["part"]:
            continue
        if len(combo) == 2 and combo[0][:2] == combo[1][:2]:
            continue
        sim = [list(r) for r in base]
        for i, j, v in combo:
            sim[i][j] = v
        model = wm_full(sim)
        if first:
            ctx.case(False, n=0, sample={"kind": "rank", "sim": sim})
            first = False
        ctx.count("dev.k=%d" % len(combo))
        check_rank_case(ctx, sim, model)
        if len(combo) <= 1:
            for obs in obss:
                check_dscore_case(ctx, obs, sim, model, light=True)


# =========================================================== PIT
class Script(object):
    """scripted numpy.random.uniform: answers are popped in call order"""

    def __init__(self, answers, orig):
        self.answers = [np.array(a, dtype=np.float64) for a in answers]
        self.orig = orig
        self.calls = 0
        self.broken = False

    def __call__(self, low=0.0, high=1.0, size=None):
        self.calls += 1
        if self.answers:
            a = self.answers.pop(0)
            shape = () if size is None else (tuple(size) if hasattr(size, "__len__") else (int(size),))
            if a.shape == shape and np.all(a >= low) and np.all(a <= high):
                return a.copy()
        self.broken = True
        return self.orig(low, high, size=size)


def call_pit(obs, ens, random, cst, censor, script=None):
    """script: None or (dobs list, dens list of lists) -> (pits, is_sudo, protocol_ok)"""
    from hydrodiy.stat import metrics
    # the same two array objects are refilled for every call of the same shape (see mc.explore.recycle)
    o = recycle("obs", np.array(obs, dtype=np.float64))
    e = recycle("ens", np.array(ens, dtype=np.float64).reshape(len(ens), -1))
    if not random or script is None:
        p, s = metrics.pit(o, e, random=random, cst=cst, censor=censor)
        return p, s, True
    orig = np.random.uniform
    sc = Script([script[0], script[1]], orig)
    np.random.uniform = sc
    try:
        p, s = metrics.pit(o, e, random=True, cst=cst, censor=censor)
    finally:
        np.random.uniform = orig
    return p, s, (not sc.broken and sc.calls == 2)


def scripts_for(n, m):
    z_o, z_e = [0.0] * n, [[0.0] * m for _ in range(n)]
    out = []
    for d in (0.0, JIT, -JIT):
        out.append(([d] * n, [[d] * m for _ in range(n)]))
    for i in range(n):
        for d in (JIT, -JIT):
            o = list(z_o)
            o[i] = d
            out.append((o, [list(r) for r in z_e]))
        for j in range(m):
            for d in (JIT, -JIT):
                e = [list(r) for r in z_e]
                e[i][j] = d
                out.append((list(z_o), e))
    return out


def pit_case(obs, ens, random, cst, censor, script):
    return {"kind": "pit", "obs": list(obs), "ens": [list(r) for r in ens], "random": random, "cst": cst,
            "censor": censor, "script": None if script is None else [list(script[0]), [list(r) for r in script[1]]]}


def check_pit_case(ctx, obs, ens, random, cst, censor, script, groups=None):
    n, m = len(obs), len(ens[0])
    case = pit_case(obs, ens, random, cst, censor, script)
    has_tie = any(obs[i] in ens[i] for i in range(n))
    try:
        p, s, ok = call_pit(obs, ens, random, cst, censor, script)
    except Exception as e:
        ctx.case(has_tie)
        ctx.violation("pit:raised:%s" % type(e).__name__, case, "pit raised %r" % (e,))
        return
    ctx.case(has_tie, outcome=np.asarray(p).tobytes() + np.asarray(s).tobytes())
    p = np.asarray(p, dtype=np.float64)
    s = np.asarray(s)
    if p.shape != (n,) or s.shape != (n,):
        ctx.violation("pit:shape", case, "pits shape %r, flag shape %r, expected (%d,)" % (p.shape, s.shape, n))
        return
    for i in range(n):
        exp = (obs[i] <= censor) and any(v <= censor for v in ens[i])
        if exp:
            ctx.count("pit.sudo_expected")
        if bool(s[i]) != exp:
            ctx.violation("pit:sudo-flag:%s" % ("missed" if exp else "spurious"), case,
                          "forecast %d: obs %r, members %r, censor %r: flag %r, expected %r" % (i, obs[i], ens[i], censor, bool(s[i]), exp),
                          observed=[bool(v) for v in s], expected=exp)
    if cst > 0.5:
        ctx.count("unjudged.cst_above_0.5")
        return
    for i in range(n):
        v = float(p[i])
        if math.isnan(v) or v < 0.0 or v > 1.0:
            ctx.violation("pit:random=%s:range" % random, case, "forecast %d: PIT %r outside [0, 1]" % (i, v), observed=p.tolist())
    if not ok:
        ctx.count("unjudged.jitter_not_drawn_through_numpy_random_uniform")
        return
    if groups is None:
        return
    for i in range(n):
        if random:
            so = Fraction(obs[i]) + Fraction(script[0][i])
            cnt = sum(1 for j in range(m) if Fraction(ens[i][j]) + Fraction(script[1][i][j]) < so)
            gkey = ("T", m, cst)
        else:
            cnt = sum(1 for v in ens[i] if v < obs[i])
            ntie = sum(1 for v in ens[i] if v == obs[i])
            gkey = ("F", m, ntie)
        g = groups.setdefault(gkey, {})
        v = float(p[i])
        cur = g.get(cnt)
        if cur is None:
            g[cnt] = [v, (case, i), v, (case, i)]
        else:
            if v < cur[0]:
                cur[0], cur[1] = v, (case, i)
            if v > cur[2]:
                cur[2], cur[3] = v, (case, i)


def finish_pit_groups(ctx, groups):
    for gkey, g in groups.items():
        cnts = sorted(g)
        for a, b in zip(cnts, cnts[1:]):
            ctx.count("pit.monotone_pairs")
            lo, hi = g[a], g[b]
            # every PIT with count a must be strictly below every PIT with count b
            if not lo[2] < hi[0]:
                case = {"kind": "pitpair", "lo": lo[3][0], "lo_row": lo[3][1], "hi": hi[1][0], "hi_row": hi[1][1],
                        "lo_count": a, "hi_count": b}
                ctx.violation("pit:random=%s:not-strictly-increasing" % (gkey[0] == "T"), case,
                              "PIT %r with %d members below the observation is not below PIT %r with %d members below (m=%d)" % (
                                  lo[2], a, hi[0], b, gkey[1]), observed=[lo[2], hi[0]])
        # same count -> the property speaks of the count only
        for a in cnts:
            if g[a][0] != g[a][2]:
                ctx.count("pit.same_count_different_pit")


def run_pit(unit, ctx):
    n, m, letters, random = unit["n"], unit["m"], unit["letters"], unit["random"]
    groups = {}
    first = True
    scripts = scripts_for(n, m) if random else [None]
    csts = [0.0, 0.3, 0.5, 0.7] if random else [0.3, 0.0]
    pre = [letters[i] for i in unit.get("prefix", [])]
    for rest in itertools.product(letters, repeat=n * m - len(pre)):
        flat = pre + list(rest)
        ens = [list(flat[i * m:(i + 1) * m]) for i in range(n)]
        for obs in itertools.product(letters, repeat=n):
            obs = list(obs)
            for censor in (0.0, 1.0):
                for cst in csts:
                    for sc in scripts:
                        if first:
                            ctx.case(False, n=0, sample=pit_case(obs, ens, random, cst, censor, sc))
                            first = False
                            check_pit_layouts(ctx, obs, ens, random, cst, censor, sc)
                        check_pit_case(ctx, obs, ens, random, cst, censor, sc, groups)
    finish_pit_groups(ctx, groups)


# =========================================================== uniformity statistics
_REF = {}


def stat_refs(srt):
    """50-digit CvM W2 and Anderson-Darling A2 of the sorted tuple srt (floats in (0,1))"""
    r = _REF.get(srt)
    if r is not None:
        return r
    import mpmath
    mp = mpmath.mp
    old = mp.dps
    mp.dps = 50
    try:
        n = len(srt)
        x = [mpmath.mpf(v) for v in srt]
        w = mpmath.mpf(1) / (12 * n)
        for i in range(1, n + 1):
            w += (x[i - 1] - mpmath.mpf(2 * i - 1) / (2 * n)) ** 2
        if min(srt) > 0.0 and max(srt) < 1.0:
            a = mpmath.mpf(0)
            for i in range(1, n + 1):
                a += (2 * i - 1) * (mpmath.log(x[i - 1]) + mpmath.log(1 - x[n - i]))
            a = -n - a / n
            a = float(a)
        else:
            a = None
        r = (float(w), a)
    finally:
        mp.dps = old
    if len(_REF) > 100000:
        _REF.clear()
    _REF[srt] = r
    return r


_SORTED_IMPL = {}


def check_unif_case(ctx, data):
    from hydrodiy.stat import metrics
    case = {"kind": "unif", "data": list(data)}
    n = len(data)
    srt = tuple(sorted(data))
    nt = len(set(data)) > 1
    inopen = srt[0] > 0.0 and srt[-1] < 1.0
    wref, aref = stat_refs(srt)
    arr = recycle("unif", np.array(data, dtype=np.float64))
    keep = arr.copy()
    # ---- Cramer-von Mises
    try:
        cv, cvp = metrics.cramer_von_mises_test(arr)
        cv, cvp = float(cv), float(cvp)
    except Exception as e:
        ctx.case(nt)
        ctx.violation("cvm:raised:%s" % type(e).__name__, case, "cramer_von_mises_test raised %r" % (e,))
        cv = None
    if cv is not None:
        ctx.case(nt, outcome=repr((cv, cvp)))
        # (observed noise at most 2e-16 up to n = 10001: pairwise numpy sum of squares)
        if inopen and not close(cv, wref, 1e-11):
            ctx.violation("cvm:statistic", case, "CvM statistic %r, textbook 1/(12n) + sum (x_(i) - (2i-1)/(2n))^2 = %r" % (cv, wref),
                          observed=cv, expected=wref)
        if math.isnan(cvp) or cvp < 0.0 or cvp > 1.0:
            ctx.violation("cvm:pvalue:%s" % ("nan" if math.isnan(cvp) else ("below-0" if cvp < 0 else "above-1")), case,
                          "CvM p-value %r outside [0, 1] (statistic %r)" % (cvp, cv), observed=cvp)
    # ---- Anderson-Darling
    try:
        ad, adp = metrics.anderson_darling_test(arr)
        ad, adp = float(ad), float(adp)
    except Exception as e:
        ctx.case(nt)
        if inopen:
            ctx.violation("ad:raised:%s" % type(e).__name__, case, "anderson_darling_test raised %r on data in (0, 1)" % (e,))
        else:
            ctx.count("unjudged.ad_raised_closed_endpoint")
        ad = None
    if ad is not None:
        ctx.case(nt, outcome=repr((ad, adp)))
        if inopen:
            # the kernel accumulates n terms (2i+1) log t of size up to 2n |log t| one after the other and forms -n + z/n:
            # the noise grows about linearly with n (observed on lattice, 5-letter, dyadic and clustered samples:
            # 3e-13 at n = 300, 1.1e-12 at 1025, 6.5e-12 at 4097, 1.1e-11 at 10001); 1e-10 up to n = 300 as
            # before, then 1e-10 * n/300 (>= 300 x the observed noise at every ladder size)
            if not close(ad, aref, 1e-10 * max(1.0, n / 300.0)):
                ctx.violation("ad:statistic", case,
                              "A2 statistic %r, textbook -n - (1/n) sum (2i-1)[ln x_(i) + ln(1 - x_(n+1-i))] = %r" % (ad, aref),
                              observed=ad, expected=aref)
        else:
            ctx.count("unjudged.ad_statistic_closed_endpoint")
        if math.isnan(adp) or adp < 0.0 or adp > 1.0:
            ctx.violation("ad:pvalue:%s" % ("nan" if math.isnan(adp) else ("below-0" if adp < 0 else "above-1")), case,
                          "Anderson-Darling p-value %r outside [0, 1] (statistic %r, n = %d)" % (adp, ad, n), observed=adp)
    if not np.array_equal(arr, keep):
        ctx.count("note.input_array_modified")
    # ---- order independence: against the implementation's own result on the sorted sample
    if list(srt) != list(data) and cv is not None and ad is not None:
        ref = _SORTED_IMPL.get(srt)
        if ref is None:
            try:
                sa = np.array(srt, dtype=np.float64)
                c2 = metrics.cramer_von_mises_test(sa)
                a2 = metrics.anderson_darling_test(sa)
                ref = (float(c2[0]), float(c2[1]), float(a2[0]), float(a2[1]))
            except Exception:
                ref = ()
            if len(_SORTED_IMPL) > 100000:
                _SORTED_IMPL.clear()
            _SORTED_IMPL[srt] = ref
        if ref:
            ctx.count("relation.order")
            for name, a, b in (("cvm:order-dependent:statistic", cv, ref[0]), ("cvm:order-dependent:pvalue", cvp, ref[1]),
                               ("ad:order-dependent:statistic", ad, ref[2]), ("ad:order-dependent:pvalue", adp, ref[3])):
                if not (close(a, b, 1e-11) or (a == b) or (math.isnan(a) and math.isnan(b))):
                    ctx.violation(name, case, "%r for this order, %r for the sorted sample" % (a, b), observed=a, expected=b)


def lattice_orders(vals, seed):
    n = len(vals)
    out = [list(vals), list(vals)[::-1]]
    if n > 2:
        k = (seed * 7 + 3) % n or 1
        out.append(list(vals[k:]) + list(vals[:k]))
        out.append(list(vals[0::2]) + list(vals[1::2])[::-1])
    return out


def run_unif(unit, ctx):
    letters = unit["letters"]
    k = unit["k"]
    pre = [letters[i] for i in unit["prefix"]]
    first = True
    for rest in itertools.product(letters, repeat=k - len(pre)):
        data = pre + list(rest)
        if first:
            ctx.case(False, n=0, sample={"kind": "unif", "data": data})
            first = False
            check_unif_layouts(ctx, data)
        check_unif_case(ctx, data)


def wm_model_distinct(sim):
    """Weigel-Mason F and ranks for ensembles whose pooled values are all distinct (integer arithmetic via
    numpy ranks; used for large ensembles where the quadratic Fraction model is too slow)"""
    n, m = len(sim), len(sim[0])
    F = {}
    ranks = [Fraction(1)] * n
    for i1 in range(n):
        for i2 in range(i1 + 1, n):
            pooled = np.concatenate([np.asarray(sim[i1]), np.asarray(sim[i2])])
            if len(np.unique(pooled)) != 2 * m:
                raise RuntimeError("harness: pooled values not distinct")
            order = np.argsort(pooled, kind="stable")
            rk = np.empty(2 * m, dtype=np.int64)
            rk[order] = np.arange(1, 2 * m + 1)
            s = int(rk[:m].sum())
            f = Fraction(2 * s - m * (m + 1), 2 * m * m)
            F[(i1, i2)] = f
            u = Fraction(0) if f < Fraction(1, 2) else (Fraction(1) if f > Fraction(1, 2) else Fraction(1, 2))
            ranks[i1] += u
            ranks[i2] += 1 - u
    return F, ranks


def bigm_ensembles(m, swap):
    """two interleaved ensembles with Weigel-Mason F exactly 1/2 (m even), made different by one adjacent
    swap at position `swap` (so |F - 1/2| = 1/m^2), and a third, clearly larger one"""
    h = m // 2
    a = [2 * i if i < h else 2 * i + 1 for i in range(m)]
    b = [2 * i + 1 if i < h else 2 * i for i in range(m)]
    if swap is not None:
        a[swap], b[swap] = b[swap], a[swap]
    c = [10 * m + 3 * i for i in range(m)]
    return [[float(v) for v in a], [float(v) for v in b], [float(v) for v in c]]


def check_bigm(ctx, m, swap):
    sim = bigm_ensembles(m, swap)
    case = {"kind": "bigm", "m": m, "swap": swap}
    F, R = wm_model_distinct(sim)
    try:
        ierr, fmat, ranks = call_ensrank(sim)
    except Exception as e:
        ctx.case(True)
        ctx.violation("ensrank:large-m:raised", case, "ensrank raised %r for %d members" % (e, m))
        return
    ctx.case(True, outcome=(tuple(ranks.tolist()), float(fmat[0, 1])))
    ctx.count("ensrank.large_ensembles")
    exp = [float(r) for r in R]
    if ierr != 0 or not all(close(float(a_), b_) for a_, b_ in zip(ranks, exp)):
        ctx.violation("ensrank:large-m:ranks", case,
                      "m=%d members, F(0,1) = 1/2 %s 1/m^2 exactly: ranks %r, Weigel-Mason ranks %r (ierr %r, F returned %r)" % (
                          m, "+-" if swap is not None else "+ 0 *", ranks.tolist(), exp, ierr, float(fmat[0, 1])),
                      observed=ranks.tolist(), expected=exp)
    for (i1, i2), f in F.items():
        if not close(float(fmat[i1, i2]), float(f), 1e-9):
            ctx.violation("ensrank:large-m:fmat", case, "F[%d,%d] = %r, model %r" % (i1, i2, float(fmat[i1, i2]), float(f)))
    # discrimination score of observations ordered like the Weigel-Mason ranks
    try:
        obs = [float(r) for r in R]
        D = call_dscore(obs, sim)
        if len(set(R)) == len(R) and not close(D, 1.0):
            ctx.violation("dscore:large-m:perfect-not-1", case, "observations ordered exactly like the forecasts (m=%d): D = %r, expected 1" % (m, D))
    except Exception as e:
        ctx.violation("dscore:large-m:raised", case, "dscore raised %r" % (e,))


NEAR = [3e-9, 1e-12, 2.0 ** -52]     # distinct values closer than any sorting/tie tolerance a kernel might use


def run_lattice(unit, ctx):
    seed = unit["seed"]
    first = True
    if unit.get("bigm"):
        for m in unit["bigm"]:
            for swap in (None, 0, m // 2 - 1, m // 2, m - 1):
                check_bigm(ctx, m, swap)
        return
    if unit.get("near"):
        # samples holding two distinct, nearly equal values, in every order (n <= 4)
        for base in ([0.4], [0.25, 0.6], [0.1, 0.5, 0.9]):
            for eps in NEAR:
                for pos in range(len(base)):
                    vals = list(base) + [base[pos] + eps]
                    for data in itertools.permutations(vals):
                        ctx.count("lattice.near_equal_samples")
                        check_unif_case(ctx, list(data))
        return
    for n in unit["ns"]:
        for d in unit["deltas"]:
            vals = [(i + d) / n for i in range(n)]
            for data in lattice_orders(vals, seed):
                if first:
                    ctx.case(False, n=0, sample={"kind": "unif", "data": data})
                    first = False
                ctx.count("lattice.samples")
                check_unif_case(ctx, data)


BAD = [("below0", -0.1), ("below0", -1e-300), ("below0", -5.0), ("above1", 1.1), ("above1", 1.0 + 2.0 ** -52),
       ("above1", 2.0), ("nan", NAN), ("+inf", float("inf")), ("-inf", float("-inf"))]


def check_reject_case(ctx, data, cls):
    from hydrodiy.stat import metrics
    case = {"kind": "reject", "data": jl([("inf" if v == float("inf") else "-inf" if v == float("-inf") else v) for v in data]),
            "cls": cls}
    try:
        r = metrics.anderson_darling_test(np.array(data, dtype=np.float64))
    except Exception as e:
        ctx.case(True, outcome="raise:" + type(e).__name__)
        ctx.count("reject.raised." + type(e).__name__)
        return
    ctx.case(True, outcome=repr(r))
    ctx.violation("ad:accepts:%s" % cls, case,
                  "anderson_darling_test accepted data %r (a value is %s) and returned %r" % (case["data"], cls, tuple(float(v) for v in r)),
                  observed=[float(v) for v in r])


def run_reject(unit, ctx):
    first = True
    for k in unit["sizes"]:
        for base in itertools.product(ULET, repeat=k):
            for pos in range(k):
                for cls, bad in BAD:
                    data = list(base)
                    data[pos] = bad
                    if first:
                        ctx.case(False, n=0, sample={"kind": "reject", "data": jl(data), "cls": cls})
                        first = False
                    check_reject_case(ctx, data, cls)
    # two bad values of different classes, one good value between them
    for (c1, b1), (c2, b2) in itertools.permutations(BAD, 2):
        check_reject_case(ctx, [b1, 0.5, b2], c1 + "+" + c2)


# =========================================================== alpha
def check_alpha_case(ctx, obs, ens, typ, script):
    from hydrodiy.stat import metrics
    n, m = len(obs), len(ens[0])
    case = {"kind": "alpha", "obs": list(obs), "ens": [list(r) for r in ens], "type": typ,
            "script": [list(script[0]), [list(r) for r in script[1]]]}
    has_tie = any(obs[i] in ens[i] for i in range(n))
    orig = np.random.uniform
    sc = Script([script[0], script[1]], orig)
    np.random.uniform = sc
    try:
        st, pv, sudo = metrics.alpha(recycle("obs", np.array(obs, dtype=np.float64)), recycle("ens", np.array(ens, dtype=np.float64).reshape(n, -1)), type=typ)
    except Exception as e:
        np.random.uniform = orig
        ctx.case(has_tie)
        ctx.violation("alpha:%s:raised:%s" % (typ, type(e).__name__), case, "alpha raised %r" % (e,))
        return
    finally:
        np.random.uniform = orig
    st, pv = float(st), float(pv)
    ctx.case(has_tie, outcome=repr((st, pv)))
    if math.isnan(pv) or pv < 0.0 or pv > 1.0:
        ctx.violation("alpha:%s:pvalue:%s" % (typ, "nan" if math.isnan(pv) else ("below-0" if pv < 0 else "above-1")), case,
                      "alpha(type=%s) p-value %r outside [0, 1] (statistic %r)" % (typ, pv, st), observed=pv)
    sudo = np.asarray(sudo)
    exp = [(obs[i] <= 0.0) and any(v <= 0.0 for v in ens[i]) for i in range(n)]
    if sudo.shape != (n,) or [bool(v) for v in sudo] != exp:
        ctx.violation("alpha:sudo-flag", case, "pseudo-PIT flags %r, expected %r (censor 0)" % (sudo.tolist(), exp),
                      observed=sudo.tolist(), expected=exp)


def run_alpha(unit, ctx):
    n, m, letters = unit["n"], unit["m"], unit["letters"]
    scripts = scripts_for(n, m)
    first = True
    for flat in itertools.product(letters, repeat=n * m):
        ens = [list(flat[i * m:(i + 1) * m]) for i in range(n)]
        for obs in itertools.product(letters, repeat=n):
            for si, sc in enumerate(scripts):
                for typ in unit["types"]:
                    if typ == "KS" and si >= 3 and unit.get("ks_equal_only"):
                        continue
                    if first:
                        ctx.case(False, n=0, sample={"kind": "alpha", "obs": list(obs), "ens": ens, "type": typ,
                                                      "script": [list(sc[0]), [list(r) for r in sc[1]]]})
                        first = False
                        check_alpha_layouts(ctx, list(obs), ens, sc)
                    check_alpha_case(ctx, list(obs), ens, typ, sc)



# =========================================================== size ladder: ensrank / dscore
def wm_model_int(a):
    """integer Weigel-Mason model for an (n, m) float array whose values are exactly tied or clearly apart:
    twoS[i, j] = 2 #{(v, w) in e_i x e_j : w < v} + #{w == v}  (so F(i, j) = twoS / (2 m^2), F(j, i) = 1 - F(i, j))
    tworank[i] = 2 + sum_{j != i} (0 | 1 | 2 for F(i, j) < | = | > 1/2)   (twice the Weigel-Mason rank)"""
    a = np.asarray(a, dtype=np.float64)
    n, m = a.shape
    srt = np.sort(a, axis=1)
    twoS = np.zeros((n, n), dtype=np.int64)
    for j in range(n):
        left = np.searchsorted(srt[j], a, side="left")
        right = np.searchsorted(srt[j], a, side="right")
        twoS[:, j] = (left + right).sum(axis=1)
    if not np.array_equal(twoS + twoS.T, np.full((n, n), 2 * m * m, dtype=np.int64)):
        raise RuntimeError("harness: integer Weigel-Mason model inconsistent")
    u2 = np.sign(twoS - m * m) + 1          # 0 / 1 / 2
    np.fill_diagonal(u2, 0)
    tworank = 2 + u2.sum(axis=1)
    return twoS, tworank


def coprime_step(n, start=37):
    q = start
    while math.gcd(q, n) != 1:
        q += 1
    return q


def rank_design(design, n, m):
    """(n, m) float64 matrix of integer values"""
    i = np.arange(n, dtype=np.int64)[:, None]
    j = np.arange(m, dtype=np.int64)[None, :]
    if design == "staircase":          # forecast i entirely below forecast i+1, forecasts stored in a scrambled order
        v = ((i * coprime_step(n)) % n) * (m + 1) + (j * coprime_step(m, 3)) % m
    elif design == "interleaved":      # all n*m values distinct, every pair of ensembles interleaved: |F - 1/2| = 1/(2m)
        v = j * n + (i * coprime_step(n, 5)) % n
    elif design == "ties5":            # five letters: heavy ties within and across ensembles
        v = (3 * i * i + 7 * j + i * j + (i >> 3)) % 5
    elif design == "sparse":           # pseudo-random values in a range of 2nm: some ties
        v = (131 * i + 17 * j * j + (i * j) % 11 + 29 * ((i + j) % 7)) % (2 * n * m + 1)
    else:
        raise ValueError(design)
    return np.ascontiguousarray(v, dtype=np.float64)


def np_maps(vmax):
    """strictly increasing maps that keep integer values below vmax exactly tied or >= 2e-5 apart"""
    out = [("affine", lambda x: 3.0 * x - 7.0), ("affine-small", lambda x: 0.5 * x + 2.0),
           ("affine-huge", lambda x: x * 2.0 ** 55 + 2.0 ** 60), ("affine-neg-huge", lambda x: x * 2.0 ** 55 - 2.0 ** 60)]
    if vmax < 2.0 ** 17:
        out.append(("cubic", lambda x: x * x * x))
    if vmax <= 4.0:
        out += [("exp", np.exp), ("arctan", np.arctan), ("exp-steep", lambda x: np.exp(20.0 * x))]
    return out


def dscore_np(obs, sim):
    from hydrodiy.stat import metrics
    return float(metrics.dscore(obs, sim))


def rank_layouts(obs, sim):
    """[(name, obs object, sim object)] holding the same (integer) values"""
    import pandas as pd
    n, m = sim.shape
    out = []
    if np.array_equal(sim.astype(np.float32).astype(np.float64), sim) and np.array_equal(obs.astype(np.float32).astype(np.float64), obs):
        out.append(("float32", obs.astype(np.float32), sim.astype(np.float32)))
    if np.all(sim == np.round(sim)) and np.all(obs == np.round(obs)) and max(np.abs(sim).max(), np.abs(obs).max()) < 2.0 ** 31:
        out.append(("int64", obs.astype(np.int64), sim.astype(np.int64)))
        out.append(("int32", obs.astype(np.int32), sim.astype(np.int32)))
    out.append(("fortran", obs.copy(), np.asfortranarray(sim.copy())))
    big = np.full((n, 2 * m + 1), -5.0)
    big[:, 1::2] = sim
    bo = np.full(2 * n + 1, -5.0)
    bo[1::2] = obs
    out.append(("strided", bo[1::2], big[:, 1::2]))
    bigr = np.full((2 * n + 1, m), -5.0)
    bigr[1::2, :] = sim
    out.append(("strided-rows", obs.copy(), bigr[1::2, :]))
    rs = sim[::-1, ::-1].copy()
    ro_ = obs[::-1].copy()
    out.append(("negative-stride", ro_[::-1], rs[::-1, ::-1]))
    o2, s2 = obs.copy(), sim.copy()
    o2.flags.writeable = False
    s2.flags.writeable = False
    out.append(("read-only", o2, s2))
    out.append(("pandas", pd.Series(obs.copy()), pd.DataFrame(sim.copy())))
    out.append(("obs-column-nx1", obs.reshape(-1, 1).copy(), sim.copy()))
    return out


def check_dscore_layouts(ctx, case, obs, sim):
    try:
        base = dscore_np(obs.copy(), sim.copy())
    except Exception:
        ctx.count("layout.base_raised")
        return
    if math.isnan(base):
        ctx.count("layout.base_nan")
        return
    for name, o, s_ in rank_layouts(obs, sim):
        try:
            D = dscore_np(o, s_)
        except Exception:
            ctx.case(True, outcome="raise:" + name)
            ctx.count("layout.rejected.dscore:%s" % name)
            continue
        ctx.case(True, outcome=repr(D))
        ctx.count("layout.judged.dscore:%s" % name)
        if not close(D, base):
            ctx.violation("dscore:layout=%s" % name, dict(case, layout=name),
                          "dscore with the inputs given as %s (n=%d, m=%d) = %r, the float64 C-contiguous call gives %r" % (
                              name, sim.shape[0], sim.shape[1], D, base), observed=D, expected=base)


def check_rank_ladder(ctx, design, n, m):
    case = {"kind": "rankladder", "design": design, "n": n, "m": m}
    sim = rank_design(design, n, m)
    twoS, tworank = wm_model_int(sim)
    if n * n * m * m <= 40000:
        # the integer model against the definitional Fraction model of the small space
        F, R = wm_model([list(map(float, r)) for r in sim])
        if any(Fraction(int(twoS[i1, i2]), 2 * m * m) != f for (i1, i2), f in F.items()) or \
                [Fraction(int(t), 2) for t in tworank] != R:
            raise RuntimeError("harness: integer and Fraction Weigel-Mason models disagree for %r" % (case,))
        ctx.count("ladder.model_crosschecked_with_fractions")
    vals = np.unique(sim)
    has_tie = vals.size < n * m
    try:
        ierr, fmat, ranks = call_ensrank(sim)
    except Exception as e:
        ctx.case(has_tie)
        ctx.violation("ensrank:ladder:raised:%s" % type(e).__name__, case, "ensrank raised %r" % (e,))
        return
    ctx.case(has_tie, outcome=hash(fmat.tobytes() + ranks.tobytes()))
    ctx.count("ladder.rank_cases")
    ctx.count("ladder.rank.n=%d" % n if n != RANK_N_SMALL else "ladder.rank.m=%d" % m)
    if ierr != 0:
        ctx.violation("ensrank:ladder:ierr", case, "ensrank returned error code %r" % (ierr,))
        return
    iu = np.triu_indices(n, 1)
    fexp = twoS[iu].astype(np.float64) / (2.0 * m * m)
    bad = np.nonzero(~(np.abs(fmat[iu] - fexp) <= TOL))[0]
    if bad.size:
        k = int(bad[0])
        i1, i2 = int(iu[0][k]), int(iu[1][k])
        ctx.violation("ensrank:ladder:fmat:%s" % design, case,
                      "n=%d forecasts, m=%d members (%s): F[%d,%d] = %r, Weigel-Mason mid-rank comparison gives %d/%d (%d of %d pairs differ)" % (
                          n, m, design, i1, i2, float(fmat[i1, i2]), int(twoS[i1, i2]), 2 * m * m, bad.size, fexp.size),
                      observed=float(fmat[i1, i2]), expected=float(fexp[k]))
    near = np.abs(twoS[iu] - m * m)
    if np.any((near > 0) & (near < 2e-7 * m * m)):
        ctx.count("unjudged.ladder.F_within_1e-7_of_half")
    else:
        rexp = tworank.astype(np.float64) / 2.0
        badr = np.nonzero(~(np.abs(ranks - rexp) <= TOL))[0]
        if badr.size:
            k = int(badr[0])
            ctx.violation("ensrank:ladder:ranks:%s" % design, case,
                          "n=%d forecasts, m=%d members (%s): rank[%d] = %r, Weigel-Mason rank %r (%d of %d ranks differ)" % (
                              n, m, design, k, float(ranks[k]), float(rexp[k]), badr.size, n),
                          observed=[float(v) for v in ranks[:40]], expected=[float(v) for v in rexp[:40]])
    vmax = float(np.max(np.abs(sim)))
    maps = np_maps(vmax)
    for name, g in maps:
        try:
            ierr2, fmat2, ranks2 = call_ensrank(g(sim))
        except Exception as e:
            ctx.violation("ensrank:ladder:sim-map:%s:raised" % name, case, "raised %r" % (e,))
            continue
        ctx.case(has_tie)
        if ierr2 != 0 or not np.allclose(fmat2, fmat, rtol=0, atol=TOL) or not np.allclose(ranks2, ranks, rtol=0, atol=TOL):
            ctx.violation("ensrank:ladder:sim-map:%s" % name, case,
                          "n=%d, m=%d (%s): ranks / F change under the strictly increasing map %s of all forecasts (%d ranks, %d F values differ)" % (
                              n, m, design, name, int((np.abs(ranks2 - ranks) > TOL).sum()), int((np.abs(fmat2 - fmat) > TOL).sum())))
    # ---- dscore relations
    q = coprime_step(n, 41)
    obs_sets = [("distinct", ((np.arange(n) * q) % n).astype(np.float64)),
                ("tied", (((np.arange(n) * q) % n) // 3).astype(np.float64))]
    if design == "staircase":
        true_order = ((np.arange(n) * coprime_step(n)) % n).astype(np.float64)
        obs_sets += [("perfect", true_order), ("inverse", -true_order)]
    allsame = np.unique(tworank).size == 1
    for oname, obs in obs_sets:
        c = dict(case, obs=oname)
        try:
            D = dscore_np(obs.copy(), sim.copy())
        except Exception as e:
            ctx.case(has_tie)
            ctx.violation("dscore:ladder:raised:%s" % type(e).__name__, c, "dscore raised %r" % (e,))
            continue
        ctx.case(has_tie, outcome=repr(D))
        ctx.count("ladder.dscore_cases")
        if allsame:
            ctx.count("unjudged.all_forecast_ranks_equal")
            continue
        if math.isnan(D) or not (-TOL <= D <= 1 + TOL):
            ctx.violation("dscore:ladder:range", c, "n=%d, m=%d (%s, %s observations): D = %r outside [0, 1]" % (n, m, design, oname, D), observed=D)
            continue
        if oname == "perfect" and not close(D, 1.0):
            ctx.violation("dscore:ladder:perfect-order-not-1", c, "n=%d, m=%d: forecasts order the distinct observations perfectly but D = %r" % (n, m, D),
                          observed=D, expected=1.0)
        if oname == "inverse" and abs(D) > TOL:
            ctx.violation("dscore:ladder:inverse-order-not-0", c, "n=%d, m=%d: forecasts order the distinct observations inversely but D = %r" % (n, m, D),
                          observed=D, expected=0.0)
        rel = [("member-order", obs, sim[:, ::-1].copy()), ("duplicated-members", obs, np.repeat(sim, 2, axis=1))]
        if oname != "tied":
            rel.append(("forecast-order", obs[::-1].copy(), sim[::-1, :].copy()))
        if oname in ("distinct", "tied"):
            for name, g in maps:
                rel.append(("sim-map:" + name, obs, g(sim)))
            for name, g in np_maps(float(n)):
                rel.append(("obs-map:" + name, g(obs), sim))
        for rname, o2, s2 in rel:
            try:
                D2 = dscore_np(np.ascontiguousarray(o2), np.ascontiguousarray(s2))
            except Exception as e:
                ctx.violation("dscore:ladder:%s:raised" % rname, c, "raised %r" % (e,))
                continue
            ctx.case(has_tie)
            if not close(D2, D):
                ctx.violation("dscore:ladder:%s" % rname, c,
                              "n=%d, m=%d (%s, %s observations): D = %r, but %r after %s" % (n, m, design, oname, D, D2, rname),
                              observed=D2, expected=D)
        if oname in ("distinct", "tied"):
            check_dscore_layouts(ctx, c, obs, sim)


def run_rankladder(unit, ctx):
    first = True
    for n, m in unit["shapes"]:
        for design in RANK_DESIGNS:
            if first:
                ctx.case(False, n=0, sample={"kind": "rankladder", "design": design, "n": n, "m": m})
                first = False
            check_rank_ladder(ctx, design, n, m)


# =========================================================== size ladder: pit / alpha
def pit_design(design, m):
    """one ensemble of m integer-valued members and 9 observations around it"""
    if design == "distinct":
        row = [float((j * coprime_step(m, 3)) % m) for j in range(m)]          # 0..m-1, scrambled
    else:
        row = [float(((j * coprime_step(m, 3)) % m) // 2) for j in range(m)]   # pairs of tied members
    top = max(row)
    mid = float(int(top) // 2)
    obs = [-0.5, 0.5, mid + 0.5, top - 0.5, top + 0.5, 0.0, mid, top, -3.0]
    return obs, [list(row) for _ in obs]


def pit_ladder_scripts(n, m):
    z = ([0.0] * n, [[0.0] * m for _ in range(n)])
    up = ([JIT] * n, [[JIT] * m for _ in range(n)])
    mixed = ([-JIT if i % 2 else JIT for i in range(n)], [[(JIT if (i + j) % 3 == 0 else (-JIT if (i + j) % 3 == 1 else 0.0)) for j in range(m)] for i in range(n)])
    return [z, up, mixed]


def pit_layouts(obs, ens):
    import pandas as pd
    o = np.array(obs, dtype=np.float64)
    e = np.array(ens, dtype=np.float64)
    n, m = e.shape
    out = []
    if np.array_equal(o.astype(np.float32).astype(np.float64), o) and np.array_equal(e.astype(np.float32).astype(np.float64), e):
        out.append(("float32", o.astype(np.float32), e.astype(np.float32)))
    if np.all(o == np.round(o)) and np.all(e == np.round(e)):
        out.append(("int64", o.astype(np.int64), e.astype(np.int64)))
    out.append(("fortran", o.copy(), np.asfortranarray(e.copy())))
    big = np.full((n, 2 * m + 1), -5.0)
    big[:, 1::2] = e
    bo = np.full(2 * n + 1, -5.0)
    bo[1::2] = o
    out.append(("strided", bo[1::2], big[:, 1::2]))
    o2, e2 = o.copy(), e.copy()
    o2.flags.writeable = False
    e2.flags.writeable = False
    out.append(("read-only", o2, e2))
    out.append(("pandas", pd.Series(o.copy()), pd.DataFrame(e.copy())))
    out.append(("obs-column-nx1", o.reshape(-1, 1).copy(), e.copy()))
    out.append(("lists", [float(v) for v in o], [[float(v) for v in r] for r in e]))
    return out


def check_pit_layouts(ctx, obs, ens, random, cst, censor, script):
    from hydrodiy.stat import metrics
    case = dict(pit_case(obs, ens, random, cst, censor, script), kind="pitlayout")

    def call(o, e):
        if not random:
            return metrics.pit(o, e, random=False, cst=cst, censor=censor)
        orig = np.random.uniform
        np.random.uniform = Script([script[0], script[1]], orig)
        try:
            return metrics.pit(o, e, random=True, cst=cst, censor=censor)
        finally:
            np.random.uniform = orig
    try:
        bp, bs = call(np.array(obs, dtype=np.float64), np.array(ens, dtype=np.float64))
        bp, bs = np.asarray(bp, dtype=np.float64), np.asarray(bs)
    except Exception:
        ctx.count("layout.base_raised")
        return
    for name, o, e in pit_layouts(obs, ens):
        try:
            p_, s_ = call(o, e)
            p_, s_ = np.asarray(p_, dtype=np.float64), np.asarray(s_)
        except Exception:
            ctx.case(True, outcome="raise:" + name)
            ctx.count("layout.rejected.pit:%s" % name)
            continue
        ctx.case(True, outcome=p_.tobytes())
        ctx.count("layout.judged.pit:%s" % name)
        if p_.shape != bp.shape or not np.allclose(p_, bp, rtol=0, atol=TOL) or not np.array_equal(s_.astype(bool), bs.astype(bool)):
            ctx.violation("pit:random=%s:layout=%s" % (random, name), dict(case, layout=name),
                          "pit with the inputs given as %s (m=%d): PIT %r flags %r, the float64 C-contiguous call gives %r %r" % (
                              name, len(ens[0]), p_.tolist()[:12], s_.tolist()[:12], bp.tolist()[:12], bs.tolist()[:12]),
                          observed=p_.tolist()[:50], expected=bp.tolist()[:50])


def check_pit_ladder(ctx, design, m):
    obs, ens = pit_design(design, m)
    n = len(obs)
    groups = {}
    ctx.count("ladder.pit.m=%d" % m)
    for censor in (0.0, float(m // 4)):
        for random in (False, True):
            for cst in ((0.3, 0.0) if not random else (0.3, 0.0, 0.5)):
                for sc in (pit_ladder_scripts(n, m) if random else [None]):
                    ctx.count("ladder.pit_cases")
                    check_pit_case(ctx, obs, ens, random, cst, censor, sc, groups)
    finish_pit_groups(ctx, groups)
    check_pit_layouts(ctx, obs, ens, False, 0.3, 0.0, None)
    check_pit_layouts(ctx, obs, ens, True, 0.3, float(m // 4), pit_ladder_scripts(n, m)[2])


def alpha_design(n, m):
    obs = [float((i * 5) % 11) for i in range(n)]
    ens = [[float((i * 3 + j * 7 + (i * j) % 5) % 11) for j in range(m)] for i in range(n)]
    return obs, ens


def check_alpha_ladder(ctx, n, m):
    obs, ens = alpha_design(n, m)
    z = ([0.0] * n, [[0.0] * m for _ in range(n)])
    mixed = pit_ladder_scripts(n, m)[2]
    ctx.count("ladder.alpha_shapes")
    for typ in ("CV", "KS", "AD"):
        for sc in (z, mixed):
            ctx.count("ladder.alpha_cases")
            check_alpha_case(ctx, obs, ens, typ, sc)
    check_alpha_layouts(ctx, obs, ens, mixed)


def check_alpha_layouts(ctx, obs, ens, script):
    from hydrodiy.stat import metrics
    case = {"kind": "alphalayout", "obs": list(obs), "ens": [list(r) for r in ens], "script": [list(script[0]), [list(r) for r in script[1]]]}

    def call(o, e, typ):
        orig = np.random.uniform
        np.random.uniform = Script([script[0], script[1]], orig)
        try:
            st, pv, sudo = metrics.alpha(o, e, type=typ)
        finally:
            np.random.uniform = orig
        return float(st), float(pv), np.asarray(sudo).astype(bool)
    for typ in ("CV", "AD", "KS"):
        try:
            b = call(np.array(obs, dtype=np.float64), np.array(ens, dtype=np.float64), typ)
        except Exception:
            ctx.count("layout.base_raised")
            continue
        for name, o, e in pit_layouts(obs, ens):
            try:
                r = call(o, e, typ)
            except Exception:
                ctx.case(True, outcome="raise:" + name)
                ctx.count("layout.rejected.alpha:%s" % name)
                continue
            ctx.case(True, outcome=repr(r[:2]))
            ctx.count("layout.judged.alpha:%s" % name)
            same = all((close(x, y, 1e-11) or x == y or (math.isnan(x) and math.isnan(y))) for x, y in zip(r[:2], b[:2])) and \
                r[2].shape == b[2].shape and np.array_equal(r[2], b[2])
            if not same:
                ctx.violation("alpha:%s:layout=%s" % (typ, name), dict(case, type=typ, layout=name),
                              "alpha(type=%s) with the inputs given as %s (n=%d, m=%d): (statistic, p-value) %r, the float64 C-contiguous call gives %r" % (
                                  typ, name, len(obs), len(ens[0]), r[:2], b[:2]), observed=list(r[:2]), expected=list(b[:2]))


def run_pitladder(unit, ctx):
    first = True
    for m in unit["ms"]:
        for design in PIT_DESIGNS:
            if first:
                ctx.case(False, n=0, sample={"kind": "pitladder", "design": design, "m": m})
                first = False
            check_pit_ladder(ctx, design, m)
        check_alpha_ladder(ctx, 9, m)       # ensemble size on the ladder
        check_alpha_ladder(ctx, m, 5)       # number of forecasts (= size of the PIT sample tested) on the ladder


# =========================================================== size ladder: uniformity statistics
def unif_design(design, n):
    if design == "ties5":              # five letters, heavy ties
        return [ULET[(3 * i + i // 7) % 5] for i in range(n)]
    if design == "dyadic":             # (k + 1/2)/64 lattice with ties: exactly representable in float32
        return [(((5 * i + i // 9) % 64) + 0.5) / 64.0 for i in range(n)]
    if design == "cluster":            # n distinct values inside (3/8, 5/8), scrambled order
        q = coprime_step(n, 7)
        return [0.375 + (((i * q) % n) + 0.5) / (4.0 * n) for i in range(n)]
    raise ValueError(design)


def unif_layouts(data):
    import pandas as pd
    a = np.array(data, dtype=np.float64)
    n = len(a)
    out = []
    if np.array_equal(a.astype(np.float32).astype(np.float64), a):
        out.append(("float32", a.astype(np.float32)))
    big = np.full(2 * n + 1, 0.5)
    big[1::2] = a
    out.append(("strided", big[1::2]))
    rev = a[::-1].copy()
    out.append(("negative-stride", rev[::-1]))
    ro = a.copy()
    ro.flags.writeable = False
    out.append(("read-only", ro))
    m2 = np.full((n, 2), 0.25)
    m2[:, 1] = a
    out.append(("column-of-2d", m2[:, 1]))
    out.append(("pandas-series", pd.Series(a.copy())))
    out.append(("list", [float(v) for v in a]))
    return out


def check_unif_layouts(ctx, data):
    from hydrodiy.stat import metrics
    case = {"kind": "uniflayout", "data": list(data)}
    n = len(data)
    for fname, fn in (("cvm", metrics.cramer_von_mises_test), ("ad", metrics.anderson_darling_test)):
        try:
            b = fn(np.array(data, dtype=np.float64))
            b = (float(b[0]), float(b[1]))
        except Exception:
            ctx.count("layout.base_raised")
            continue
        for name, arr in unif_layouts(data):
            keep = np.array(arr, dtype=np.float64).copy() if not isinstance(arr, list) else None
            try:
                r = fn(arr)
                r = (float(r[0]), float(r[1]))
            except Exception:
                ctx.case(True, outcome="raise:" + name)
                ctx.count("layout.rejected.%s:%s" % (fname, name))
                continue
            ctx.case(True, outcome=repr(r))
            ctx.count("layout.judged.%s:%s" % (fname, name))
            if not all((close(x, y, 1e-11) or x == y or (math.isnan(x) and math.isnan(y))) for x, y in zip(r, b)):
                ctx.violation("%s:layout=%s" % (fname, name), dict(case, layout=name),
                              "%s test of the sample given as %s (n=%d): (statistic, p-value) %r, the float64 C-contiguous call gives %r" % (
                                  fname, name, n, r, b), observed=list(r), expected=list(b))
            if keep is not None and not np.array_equal(np.array(arr, dtype=np.float64), keep):
                ctx.count("note.input_array_modified")


def run_unifladder(unit, ctx):
    first = True
    seed = unit["seed"]
    d = DELTAS[seed % 4]
    for n in unit["ns"]:
        ctx.count("ladder.unif.n=%d" % n)
        vals = [(i + d) / n for i in range(n)]
        samples = lattice_orders(vals, seed)
        for design in UNIF_DESIGNS:
            data = unif_design(design, n)
            samples += [data, sorted(data, reverse=True)]
        for data in samples:
            if first:
                ctx.case(False, n=0, sample={"kind": "unifladder", "n": n, "data[:8]": data[:8]})
                first = False
            ctx.count("ladder.unif_samples")
            check_unif_case(ctx, data)
        check_unif_layouts(ctx, samples[2] if len(samples) > 2 else samples[0])
        check_unif_layouts(ctx, unif_design("dyadic", n))

# =========================================================== units / dispatch
def rank_units(n, m, letters, target, tag):
    L = len(letters)
    nobs = 3 ** n
    p = 0
    while nobs * L ** (n * m - p) > target and p < n * m:
        p += 1
    return [{"kind": "rank", "n": n, "m": m, "letters": letters, "obsletters": [0.0, 1.0, 2.0],
             "prefix": list(pre), "tag": tag} for pre in itertools.product(range(L), repeat=p)]


def units(tier, seed):
    quick = tier == "quick"
    us = []
    # ---- rank / dscore
    rx = RANK_EXTRA[seed % 4]
    nm_max, nmx_max = (6, 4) if quick else (9, 6)
    target = 700 if quick else 6000
    for n in (2, 3, 4):
        for m in (1, 2, 3):
            if n * m <= nm_max:
                us += rank_units(n, m, [0.0, 1.0, 2.0], target, "base")
            if n * m <= nmx_max:
                us += rank_units(n, m, [0.0, 1.0, 2.0, rx], target, "seed-letter")
    if not quick:
        for m in (5, 8):
            for n in (2, 3, 4):
                parts = 2 if n * m < 16 else (4 if n * m < 30 else 8)
                for part in range(parts):
                    us.append({"kind": "rankdev", "n": n, "m": m, "part": part, "parts": parts})
    # ---- pit
    px = PIT_EXTRA[seed % 4]
    L4 = [-1.0, 0.0, 1.0, 2.0]
    shapes = [(1, 1), (1, 2), (1, 3), (1, 4), (2, 1), (2, 2)]
    xshapes = [(1, 1), (1, 2)]
    if not quick:
        shapes += [(1, 5), (3, 1)]
        xshapes += [(1, 3), (2, 1)]
        for a in range(4):
            for b in range(4):
                us.append({"kind": "pit", "n": 2, "m": 3, "letters": L4, "random": False, "prefix": [a, b]})
    for random in (False, True):
        for n, m in shapes:
            us.append({"kind": "pit", "n": n, "m": m, "letters": L4, "random": random, "prefix": []})
        for n, m in xshapes:
            us.append({"kind": "pit", "n": n, "m": m, "letters": L4 + [px], "random": random, "prefix": []})
    # ---- uniformity
    for k in (1, 2, 3, 4):
        us.append({"kind": "unif", "k": k, "letters": ULET, "prefix": []})
    for a in range(5):
        us.append({"kind": "unif", "k": 5, "letters": ULET, "prefix": [a]})
    if not quick:
        for letters in ([0.1, 0.5, 0.9], [1e-9, 0.5, 1.0 - 1e-9], [0.0, 0.5, 1.0]):
            for k in range(1, 7):
                us.append({"kind": "unif", "k": k, "letters": letters, "prefix": []})
    nmax = 12 if quick else 40
    for lo in range(1, nmax + 1, 6):
        us.append({"kind": "lattice", "ns": list(range(lo, min(lo + 6, nmax + 1))), "deltas": DELTAS, "seed": seed})
    d = DELTAS[seed % 4]
    for n in (7, 50, 300):
        us.append({"kind": "lattice", "ns": [n], "deltas": [d, 0.5], "seed": seed})
    us.append({"kind": "lattice", "near": True, "ns": [], "deltas": [], "seed": seed})
    # size class: ensembles of a thousand members and more (|F - 1/2| = 1/m^2 is still far above the 1e-8 decision tolerance)
    us.append({"kind": "lattice", "bigm": [2, 10, 200, 1200] if quick else [2, 10, 200, 1200, 3000], "ns": [], "deltas": [], "seed": seed})
    us.append({"kind": "reject", "sizes": [1, 2, 3] if quick else [1, 2, 3, 4]})
    # ---- alpha
    L3 = [0.0, 1.0, 2.0]
    kmax = 6 if quick else 8
    for n in (1, 2, 3, 4):
        for m in (1, 2, 3, 4, 5):
            if n * (m + 1) <= kmax:
                for typ in ("CV", "KS", "AD"):
                    us.append({"kind": "alpha", "n": n, "m": m, "letters": L3, "types": [typ],
                               "ks_equal_only": n * (m + 1) > 6})
    # ---- size ladder around powers of two (thresholds of blocked / fast paths, int overflow of n*n or 2*m)
    lad = LADDER_Q if quick else LADDER_T
    nmax = 257 if quick else 1025

    def chunks(items, cost, limit):
        out, cur, acc = [], [], 0.0
        for it in items:
            cur.append(it)
            acc += cost(it)
            if acc >= limit:
                out.append(cur)
                cur, acc = [], 0.0
        if cur:
            out.append(cur)
        return out
    shapes = [(n, m) for n in lad if n <= nmax for m in RANK_M_SMALL]
    for ch in chunks(shapes, lambda nm: nm[0] * nm[0] * (1 + nm[1]) + 20000, 4.0e5 if quick else 4.0e6):
        us.append({"kind": "rankladder", "shapes": [list(x) for x in ch]})
    for ch in chunks([(RANK_N_SMALL, m) for m in lad], lambda nm: nm[1] + 100, 2500):
        us.append({"kind": "rankladder", "shapes": [list(x) for x in ch]})
    for ch in chunks(lad, lambda m: m + 100, 1500):
        us.append({"kind": "pitladder", "ms": ch})
    for ch in chunks(lad, lambda n: n + 50, 1500):
        us.append({"kind": "unifladder", "ns": ch, "seed": seed})
    return us


def run_unit(unit, ctx):
    k = unit["kind"]
    {"rank": run_rank, "rankdev": run_rankdev, "pit": run_pit, "unif": run_unif, "lattice": run_lattice,
     "reject": run_reject, "alpha": run_alpha, "rankladder": run_rankladder, "pitladder": run_pitladder,
     "unifladder": run_unifladder}[k](unit, ctx)


def _unj(v):
    return NAN if v is None else (float("inf") if v == "inf" else (float("-inf") if v == "-inf" else float(v)))


def replay(case):
    from mc.explore import Result
    ctx = Result()
    _SORTED_IMPL.clear()
    k = case["kind"]
    if k == "rank":
        check_rank_case(ctx, [[float(v) for v in r] for r in case["sim"]])
    elif k == "dscore":
        check_dscore_case(ctx, [float(v) for v in case["obs"]], [[float(v) for v in r] for r in case["sim"]])
    elif k == "pit":
        sc = case["script"]
        check_pit_case(ctx, case["obs"], case["ens"], case["random"], case["cst"], case["censor"],
                       None if sc is None else (sc[0], sc[1]), None)
    elif k == "pitpair":
        groups = {}
        for c in (case["lo"], case["hi"]):
            sc = c["script"]
            check_pit_case(ctx, c["obs"], c["ens"], c["random"], c["cst"], c["censor"],
                           None if sc is None else (sc[0], sc[1]), groups)
        finish_pit_groups(ctx, groups)
    elif k == "unif":
        check_unif_case(ctx, [float(v) for v in case["data"]])
    elif k == "bigm":
        check_bigm(ctx, case["m"], case["swap"])
    elif k == "reject":
        check_reject_case(ctx, [_unj(v) for v in case["data"]], case["cls"])
    elif k == "alpha":
        sc = case["script"]
        check_alpha_case(ctx, case["obs"], case["ens"], case["type"], (sc[0], sc[1]))
    elif k == "rankladder":
        check_rank_ladder(ctx, case["design"], case["n"], case["m"])
    elif k == "dscorelayout":
        sim = np.array(case["sim"], dtype=np.float64)
        check_dscore_layouts(ctx, {"kind": "dscorelayout", "obs": case["obs"], "sim": case["sim"]},
                             np.array(case["obs"], dtype=np.float64), sim.reshape(len(case["sim"]), -1))
    elif k == "pitlayout":
        sc = case["script"]
        check_pit_layouts(ctx, case["obs"], case["ens"], case["random"], case["cst"], case["censor"],
                          None if sc is None else (sc[0], sc[1]))
    elif k == "alphalayout":
        sc = case["script"]
        check_alpha_layouts(ctx, case["obs"], case["ens"], (sc[0], sc[1]))
    elif k == "uniflayout":
        check_unif_layouts(ctx, [float(v) for v in case["data"]])
    return [v for lst in ctx.violations.values() for v in lst]
