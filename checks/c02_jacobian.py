"""C02 - jacobian = d forward / dx > 0, forward increasing.

Same configuration space and scope rule as C01 (checks/_transforms.py).
O1: 5-point central difference of the implementation's forward with exactly
    representable power-of-two steps, two step sizes, stencil inside one smooth
    branch of the domain; |jacobian - fd| <= 1e-4 |fd|.  Softmax: determinant of
    the d x d matrix of numerical partial derivatives.
O2: jacobian finite and > 0 at every in-scope lattice point.
O3: forward non-decreasing on the sorted in-scope lattice (hence on all ordered
    pairs), strictly increasing wherever the reference says the two images
    differ by more than rounding.
"""
import math
import numpy as np
from checks import _transforms as H

ID = "C02"
# computational entry points whose results are watched by the engine's retained-result oracle (mc/explore.py)
RETAIN = [('hydrodiy.stat.transform', 'Transform.forward'), ('hydrodiy.stat.transform', 'Transform.jacobian')]
RULE = ("same configurations as C01 (class x constructor options x parameter/constant lattice with all "
        "bounds, defaults, branch values; <= 3 deviations quick, full product thorough) x the same x-lattice. "
        "At every in-scope point (documented domain, stated conditioning region, textbook float64 reference "
        "round-trips to 1e-8) the real jacobian must be finite and > 0; on consecutive in-scope points of the "
        "sorted lattice the real forward must not decrease and must increase where the reference images "
        "differ by > 1e-9 relative; at every in-scope point where the stencil x +- h, x +- 2h "
        "(h = 2^-k * 2^floor(log2 L), L the local length scale, k in {7, 10}) is exactly representable, stays "
        "inside the domain and one smooth branch, and the reference's own two finite differences agree with the textbook derivative to 1e-6 and "
        "the rounding noise bound of the quotient is below 1e-6, the jacobian must equal the 5-point central difference of the real forward to 1e-4 (points "
        "where the implementation's two step sizes disagree by > 1e-6 are counted, not judged). Softmax: all "
        "rows of dimension 1-3 (4) over a 5-value alphabet, d x d numerical partials, determinant. "
        "Non-trivial = judged by at least one oracle; cases are distinct lattice points of distinct configurations. "
        "OBJECT HISTORIES: per class, every pair of configurations (X = defaults with <= 1 deviation, Y = X with one "
        "parameter or constant moved to another lattice value) x f1, f2 in {forward, jacobian} x route of the change {attribute, "
        "item, params/constants item, values vector} (+ f1 made on another object of the class): f1 at X, change by name, "
        "f2 at Y on the same array object must equal, bit for bit, f2 of a fresh object built at Y.")
ASSUMPTIONS = [
    "scope is decided by the reference model (domain, stated conditioning region, reference round trip <= 1e-8) and by exact tests on x and the parameters (stencil inside one branch); the implementation's output only enters through the stated 'two step sizes agree to 1e-6' trust test of the finite difference",
    "5-point stencil truncation error <= (2^-7)^4 ~ 4e-9 relative for the smooth branches at the chosen local length scale; tolerance 1e-4 as quoted in the property",
    "monotonicity slack 1e-12 relative (>= 100x rounding noise of one elementary function call)",
    "jacobian outside the domain is executed and counted (NaN or not) but not judged: the statement is about the domain",
]
LEVEL_NOTE = "trusted base: numpy elementary functions in the reference model; numpy.linalg.det for d <= 4"
TECHNIQUE = "bounded exhaustive enumeration of configurations x lattice points on the real implementation; differential oracle (finite differences of the real forward) with an independent reference deciding the scope"

KS = (7, 10)
FD_AGREE = 1e-6
FD_TOL = 1e-4
PER_UNIT = {"quick": 6, "thorough": 12}


def bound_text(tier, seed):
    if tier == "quick":
        return ("all 13 classes; configurations with <= 3 coordinates off the default call; 53-point general "
                "x-lattice + edge/branch points; steps 2^-7 and 2^-10 of the local scale; Softmax dimension 1-3; "
                "jacobian through 4 parameter routes; seed %d rotates one mantissa, one lam, one Softmax value" % seed)
    return ("all 13 classes; full product of options x extended parameter lattices; 365-point general x-lattice "
            "+ edge/branch points; steps 2^-7 and 2^-10; Softmax dimension 1-4; 4 parameter routes; seed %d" % seed)


def units(tier, seed):
    us = H.make_units(tier, seed, PER_UNIT.get(tier, 12))
    # histories of one object: used at X, one parameter / constant changed by name, used again (see _transforms.py)
    us += [{"kind": "history", "cls": cls, "tier": tier, "seed": seed} for cls in H.CLASSES
           if cls not in ("Identity", "Softmax")]
    return us


def call(f, *args):
    try:
        return np.asarray(f(*args), dtype=np.float64), None
    except Exception as e:      # noqa
        return None, e


def lscale(cls, p, x):
    """local length scale of forward around x (independent of the implementation)"""
    ax = np.abs(x)
    if cls == "Identity":
        return np.maximum(ax, 1.0)
    if cls == "Logit":
        up = p["lower"] + math.exp(p["logdelta"])
        return np.minimum(x - p["lower"], up - x)
    if cls in ("Log", "BoxCox2", "BoxCox1lam", "BoxCox1nu", "Reciprocal"):
        return x + p["nu"]
    if cls == "BoxCox2sym":
        return np.where(ax > 0, np.minimum(ax + p["nu"], ax), p["nu"])
    if cls == "YeoJohnson":
        w = p["nu"] + p["scale"] * x
        return (np.abs(w) + 1.0) / p["scale"]
    if cls == "Sinh":
        u = (x - p["nu"]) * p["scale"]
        return np.sqrt(1.0 + u * u) / p["scale"]
    if cls == "LogSinh":
        a, b = math.exp(p["loga"]), math.exp(p["logb"])
        w = a + b * x / p["xmax"]
        return np.minimum(w, 1.0) * p["xmax"] / b
    if cls == "Manly":
        L = np.maximum(ax, p["xmax"])
        if p["lam"] != 0:
            L = np.minimum(L, p["xmax"] / abs(p["lam"]))
        return L
    raise ValueError(cls)


def one_branch(cls, p, lo, hi):
    """exact-ish test on x and the parameters: [lo, hi] inside the domain and one smooth branch"""
    ok = H.domain(cls, p, lo) & H.domain(cls, p, hi)
    if cls == "BoxCox2sym":
        ok &= (lo > 0) | (hi < 0)
    if cls == "YeoJohnson":
        wl = p["nu"] + p["scale"] * lo
        wh = p["nu"] + p["scale"] * hi
        # the implementation switches formula at w = 1e-10: both ends clearly on one side
        ok &= ((wl > 2e-10) & (wh > 2e-10)) | ((wl < 5e-11) & (wh < 5e-11))
    return ok


def stencil(x, L, k):
    """-> (h, pts[4], exact) with pts = x-2h, x-h, x+h, x+2h"""
    with np.errstate(all="ignore"):
        e = np.floor(np.log2(L))
        h = np.exp2(e - k)
        pts = [x - 2 * h, x - h, x + h, x + 2 * h]
        exact = np.isfinite(h) & (h > 0)
        for q, m in zip(pts, (-2, -1, 1, 2)):
            exact &= ((q - x) == m * h)
    return h, pts, exact


def fd5(f, pts, h):
    vals = []
    for q in pts:
        v, e = f(q)
        if e is not None:
            return None, e
        vals.append(v)
    with np.errstate(all="ignore"):
        return (vals[0] - 8 * vals[1] + 8 * vals[2] - vals[3]) / (12 * h), None


def first_bad(ctx, key, case, bad, xs, labels, msgf):
    if not bad.any():
        return
    seen = set()
    for i in np.nonzero(bad)[0]:
        lab = None if labels is None else str(labels[i])
        if lab in seen:
            continue
        seen.add(lab)
        k = key if lab is None else "%s:%s" % (key, lab)
        ctx.violation(k, dict(case, key=k, point=H.fl(xs[i])), msgf(i) + " (%d points fail)" % int(bad.sum()))


def xlabels(cls, p, x):
    if cls == "YeoJohnson":
        w = p["nu"] + p["scale"] * x
        return np.where(w >= 0, "w>=0", "w<0")
    if cls == "BoxCox2sym":
        return np.where(x > 0, "x>0", np.where(x < 0, "x<0", "x=0"))
    return None


def check_config(ctx, T, cfg, tier, seed):
    cls = cfg["cls"]
    p = H.P(cfg)
    br = H.pbranch(cfg)
    case = {"cfg": H.jcfg(cfg), "tier": tier, "seed": seed}
    objs = {}
    for r in H.ROUTES:
        try:
            objs[r] = H.make(T, cfg, r)
        except Exception as e:
            k = "%s:route=%s:raised:%s" % (br, r, type(e).__name__)
            ctx.violation(k, dict(case, key=k), "setting parameters through route %s raised %r" % (r, e))
    try:
        reuse = H.used_object(T, cfg)
        H.set_values(reuse, cfg, "attr")
        objs["reused-jacobian-first"] = reuse
    except Exception as e:
        k = "%s:route=reused:raised:%s" % (br, type(e).__name__)
        ctx.violation(k, dict(case, key=k), "re-setting parameters on a used object raised %r" % (e,))
    if not objs:
        return
    r0 = "kw" if "kw" in objs else sorted(objs)[0]
    t0 = objs[r0]

    if cls == "Manly" and abs(p["lam"]) >= 1e-3:
        # the flat tail of forward (y -> -1/lam): a finite difference cannot resolve the derivative there, but it is
        # far from underflow (exp(-600) ~ 1e-261): the jacobian must still be positive and equal to the textbook
        # derivative exp(lam x / xmax) / xmax
        tt = np.array([-20.0, -26.0, -28.0, -30.0, -33.0, -37.0, -40.0, -100.0, -600.0])
        xt = tt * p["xmax"] / p["lam"]
        j, e = call(t0.jacobian, xt.copy())
        ctx.case(True, n=len(xt), outcome=None if j is None else j.tobytes())
        ctx.count("manly.tail_points", len(xt))
        if e is not None or j is None or j.size != len(xt):
            k = br + ":jacobian:tail:raised"
            ctx.violation(k, dict(case, key=k), "jacobian raised / returned a wrong size on the flat tail: %r" % (e,))
        else:
            j = j.reshape(len(xt))
            ref = H.ref_jacobian(cls, p, xt)
            with np.errstate(all="ignore"):
                bad = ~(np.isfinite(j) & (j > 0) & (np.abs(j - ref) <= FD_TOL * ref))
            first_bad(ctx, br + ":jacobian:flat-tail", case, bad, xt, None,
                      lambda i: "jacobian(%r) = %r where lam*x/xmax = %g: the derivative of forward is exp(lam x/xmax)/xmax = %r > 0" % (
                          float(xt[i]), float(j[i]), float(tt[i]), float(ref[i])))
    xs = H.x_candidates(cfg, tier, seed)
    dom, sc, yref = H.scope_x(cls, p, xs)
    xin, yrin = xs[sc], yref[sc]
    xod = xs[~dom]
    ctx.count("x.in_scope", int(sc.sum()))
    ctx.count("x.in_domain_outside_conditioning", int((dom & ~sc).sum()))
    ctx.count("x.outside_domain", int((~dom).sum()))
    ctx.count("branch." + (br.split(":", 1)[1] if ":" in br else "-"))

    # outside the domain: counted only
    if len(xod):
        j, e = call(t0.jacobian, xod.copy())
        ctx.case(False, n=len(xod))
        if e is not None:
            ctx.count("unjudged.outside_domain.jacobian_raised.%s" % type(e).__name__)
        else:
            ctx.count("unjudged.outside_domain.jacobian_nan", int(np.isnan(j).sum()))
            ctx.count("unjudged.outside_domain.jacobian_not_nan", int((~np.isnan(j)).sum()))
    xoc = xs[dom & ~sc]
    if len(xoc):
        j, e = call(t0.jacobian, xoc.copy())
        ctx.case(False, n=len(xoc))
        if e is not None:
            ctx.count("unjudged.outside_conditioning.jacobian_raised.%s" % type(e).__name__)
        else:
            with np.errstate(all="ignore"):
                ctx.count("unjudged.outside_conditioning.jacobian_positive", int((j > 0).sum()))
                ctx.count("unjudged.outside_conditioning.jacobian_not_positive", int((~(j > 0)).sum()))
    if not len(xin):
        return
    labs = xlabels(cls, p, xin)
    with np.errstate(all="ignore"):
        rj = H.ref_jacobian(cls, p, xin)
        repres = np.isfinite(rj) & (rj > 1e-300) & (rj < 1e300)
    ctx.count("x.in_scope_derivative_not_representable", int((~repres).sum()))

    # ---- O2: jacobian finite and positive
    jac, e = call(t0.jacobian, xin.copy())
    ctx.case(True, outcome=None if jac is None else jac.tobytes(), n=len(xin))
    if e is not None:
        k = "%s:jacobian:raised:%s" % (br, type(e).__name__)
        ctx.violation(k, dict(case, key=k), "jacobian(x) raised %r on in-scope points" % (e,))
        jac = None
    elif jac.shape != xin.shape:
        k = br + ":jacobian:shape"
        ctx.violation(k, dict(case, key=k), "jacobian shape %r != %r" % (jac.shape, xin.shape))
        jac = None
    else:
        with np.errstate(all="ignore"):
            bad = repres & ~(np.isfinite(jac) & (jac > 0))
        first_bad(ctx, br + ":jacobian:not-positive", case, bad, xin, labs,
                  lambda i: "jacobian(%r) = %r is not a positive finite number" % (float(xin[i]), float(jac[i])))
        for r, t in objs.items():
            if r == r0:
                continue
            j2, e = call(t.jacobian, xin.copy())
            ctx.case(True, n=len(xin))
            if e is not None or j2.tobytes() != jac.tobytes():
                k = "%s:route=%s:jacobian-differs" % (cls, r)
                ctx.violation(k, dict(case, key=k), "jacobian through route %s differs from route %s (%s)" % (
                    r, r0, repr(e) if e is not None else "values"))

    # ---- layouts: the same points as 2-D C / Fortran / transposed / strided arrays must give the same
    # jacobian and forward values element by element (the transforms are documented as element-wise)
    if jac is not None and len(xin) >= 4 and cls != "Softmax":
        k2 = (len(xin) // 2) * 2
        xe = xin[:k2]
        big = np.full(2 * k2 + 1, xe[0])
        big[1::2] = xe
        variants = [("2d-C", xe.reshape(-1, 2).copy(), lambda a: a.reshape(-1)),
                    ("2d-fortran", np.asfortranarray(xe.reshape(-1, 2)), lambda a: np.ascontiguousarray(a).reshape(-1)),
                    ("2d-transposed-view", xe.reshape(2, -1).copy().T, lambda a: np.ascontiguousarray(a.T).reshape(-1)),
                    ("1d-strided", big[1::2], lambda a: np.ascontiguousarray(a).reshape(-1))]
        reff, ef = call(t0.forward, xe.copy())
        for lname, arr, back in variants:
            if lname == "2d-transposed-view":
                expect_idx = np.arange(k2).reshape(2, -1)          # arr[i, j] = xe.reshape(2,-1)[j, i]
                order = expect_idx.T.reshape(-1)                   # element order of arr.T ravel == original
            for fname, f, ref in (("jacobian", t0.jacobian, jac[:k2]), ("forward", t0.forward, reff)):
                if ref is None:
                    continue
                # hand over the layout itself (a plain .copy() would silently turn it into a C-contiguous array)
                if lname == "2d-fortran":
                    a_in = np.array(arr, order="F", copy=True)
                elif lname == "2d-transposed-view":
                    a_in = xe.reshape(2, -1).copy().T
                elif lname == "1d-strided":
                    b2 = big.copy()
                    a_in = b2[1::2]
                else:
                    a_in = arr.copy()
                out, e = call(f, a_in)
                ctx.case(True, n=k2)
                if e is not None:
                    ctx.count("layout.rejected.%s.%s" % (lname, type(e).__name__))
                    continue
                try:
                    if out.shape != arr.shape:
                        raise ValueError("shape %r != %r" % (out.shape, arr.shape))
                    flat = back(out)
                except Exception as ex:
                    k = "%s:%s:layout=%s:shape" % (cls, fname, lname)
                    ctx.violation(k, dict(case, key=k), "%s of a %s array: %r" % (fname, lname, ex))
                    continue
                ctx.count("layout.accepted.%s" % lname)
                if not np.array_equal(flat, ref, equal_nan=True):
                    i = int(np.nonzero(~((flat == ref) | (np.isnan(flat) & np.isnan(ref))))[0][0])
                    k = "%s:%s:layout=%s" % (cls, fname, lname)
                    ctx.violation(k, dict(case, key=k, point=H.fl(xe[i])),
                                  "%s(x) of the same points given as a %s array differs: at x=%r %r vs %r for the 1-d C-contiguous array" % (
                                      fname, lname, float(xe[i]), float(flat[i]), float(ref[i])))

    # ---- O3: monotonic forward on the sorted lattice
    y, e = call(t0.forward, xin.copy())
    ctx.case(True, outcome=None if y is None else y.tobytes(), n=max(len(xin) - 1, 0))
    if e is not None:
        k = "%s:forward:raised:%s" % (br, type(e).__name__)
        ctx.violation(k, dict(case, key=k), "forward(x) raised %r on in-scope points" % (e,))
    if e is None and y is not None:
        # the forward that is judged for monotonicity below must be the same function on every object:
        # other parameter routes and an object that was used before its parameters were set by name
        for r, t in objs.items():
            if r == r0:
                continue
            y2, e2 = call(t.forward, xin.copy())
            ctx.case(True, n=len(xin))
            if e2 is not None or y2.tobytes() != y.tobytes():
                k = "%s:route=%s:forward-differs" % (cls, r)
                ctx.violation(k, dict(case, key=k), "forward through route %s differs from route %s (%s): monotonicity/derivative are "
                              "judged on a function that depends on the object's history" % (r, r0, repr(e2) if e2 is not None else "values"))
    if e is not None:
        pass
    elif y.shape == xin.shape and np.isnan(y).any():
        first_bad(ctx, br + ":forward:nan", case, np.isnan(y), xin, labs,
                  lambda i: "forward(%r) = nan at an in-scope point" % float(xin[i]))
    elif y.shape == xin.shape and len(xin) > 1:
        yflo = H.yfloor(cls, p)
        with np.errstate(all="ignore"):
            dy = np.diff(y)
            mag = np.maximum(np.maximum(np.abs(y[1:]), np.abs(y[:-1])), yflo)
            # (z**lam - 1)/lam cancels for tiny |lam| (|2-lam| on YeoJohnson's negative branch): the computed
            # forward carries an absolute rounding noise of about eps/|lam| that no implementation of the
            # textbook formula avoids ("equality only within rounding")
            noise = 0.0
            lams = []
            if "lam" in p:
                lams.append(abs(p["lam"]))
                if cls == "YeoJohnson":
                    lams.append(abs(2.0 - p["lam"]))
            lams = [l for l in lams if 0 < l < 1e-3]
            if lams:
                noise = 16 * 2.220446049250313e-16 / min(lams)
                ctx.count("monotonic.noise_floor_from_tiny_exponent")
            dec = ~(dy >= -(1e-12 * mag + noise))
            dref = np.diff(yrin)
            mref = np.maximum(np.maximum(np.abs(yrin[1:]), np.abs(yrin[:-1])), yflo)
            strict = dref > 1e-9 * mref
            flat = strict & ~(dy > 0)
        ctx.count("monotonic.pairs", len(dy))
        ctx.count("monotonic.pairs_strict", int(strict.sum()))
        first_bad(ctx, br + ":forward:decreasing", case, dec, xin[:-1], None if labs is None else labs[:-1],
                  lambda i: "forward(%r) = %r > forward(%r) = %r" % (
                      float(xin[i]), float(y[i]), float(xin[i + 1]), float(y[i + 1])))
        first_bad(ctx, br + ":forward:not-strictly-increasing", case, flat & ~dec, xin[:-1],
                  None if labs is None else labs[:-1],
                  lambda i: "forward(%r) = %r is not < forward(%r) = %r although the images differ (reference %r < %r)" % (
                      float(xin[i]), float(y[i]), float(xin[i + 1]), float(y[i + 1]), float(yrin[i]), float(yrin[i + 1])))

    # ---- O1: finite differences
    if jac is None:
        return
    with np.errstate(all="ignore"):
        L = lscale(cls, p, xin)
        ok = np.isfinite(L) & (L > 0)
        L = np.where(ok, L, 1.0)
    sten = []
    for k in KS:
        h, pts, exact = stencil(xin, L, k)
        sten.append((h, pts))
        ok &= exact
        if k == KS[0]:
            inb = one_branch(cls, p, pts[0], pts[3])
            ctx.count("fd.stencil_leaves_branch_or_domain", int((ok & ~inb).sum()))
            ok &= inb
    ctx.count("fd.inexact_step", int((~ok).sum()))
    # the reference's own two finite differences must agree (stencil trustworthy for this function)
    reff = lambda q: (H.ref_forward(cls, p, q), None)
    ra, _ = fd5(reff, sten[0][1], sten[0][0])
    rb, _ = fd5(reff, sten[1][1], sten[1][0])
    with np.errstate(all="ignore"):
        rok = repres & np.isfinite(ra) & np.isfinite(rb) & (np.abs(ra - rj) <= FD_AGREE * rj) \
            & (np.abs(rb - rj) <= FD_AGREE * rj)
        # rounding noise of the difference quotient must stay 100x below the tolerance
        fmag, xmag = H.noise_mags(cls, p, xin)
        noise = 2 * 2.3e-16 * (fmag + rj * xmag) / sten[1][0]
        quiet = noise <= 0.01 * FD_TOL * rj
    ctx.count("fd.reference_fd_not_trustworthy", int((ok & ~rok).sum()))
    ctx.count("fd.rounding_noise_too_large", int((ok & rok & ~quiet).sum()))
    ok &= rok & quiet
    if not ok.any():
        return
    implf = lambda q: call(t0.forward, q.copy())
    fa, e = fd5(implf, sten[0][1], sten[0][0])
    if e is None:
        fb, e = fd5(implf, sten[1][1], sten[1][0])
    ctx.case(True, n=int(ok.sum()))
    if e is not None:
        k = "%s:forward(stencil):raised:%s" % (br, type(e).__name__)
        ctx.violation(k, dict(case, key=k), "forward on in-domain stencil points raised %r" % (e,))
        return
    with np.errstate(all="ignore"):
        agree = np.abs(fa - fb) <= FD_AGREE * np.abs(fb)
        agree &= np.isfinite(fa) & np.isfinite(fb)
        judged = ok & agree
        bad = judged & ~(np.abs(jac - fb) <= FD_TOL * np.abs(fb))
    ctx.count("fd.judged", int(judged.sum()))
    ctx.count("unjudged.fd_impl_steps_disagree", int((ok & ~agree).sum()))
    first_bad(ctx, br + ":jacobian!=dforward/dx", case, bad, xin, labs,
              lambda i: "jacobian(%r) = %r but the 5-point central difference of forward is %r (h=%r) / %r (h=%r)" % (
                  float(xin[i]), float(jac[i]), float(fb[i]), float(sten[1][0][i]), float(fa[i]), float(sten[0][0][i])))


# ---------------------------------------------------------------------------

def softmax_partials(f, rows, k):
    """numerical d x d matrices of partial derivatives for all rows at once"""
    n, d = rows.shape
    s = np.sum(rows, axis=1)
    M = np.zeros((n, d, d))
    exact = np.ones(n, dtype=bool)
    for j in range(d):
        L = np.minimum(rows[:, j], 1.0 - s)
        h = np.exp2(np.floor(np.log2(L)) - k)
        vals = []
        for m in (-2, -1, 1, 2):
            q = rows.copy()
            q[:, j] = rows[:, j] + m * h
            exact &= (q[:, j] - rows[:, j]) == m * h
            v, e = f(q)
            if e is not None:
                return None, None, e
            vals.append(np.asarray(v, dtype=np.float64).reshape(n, d))
        M[:, :, j] = (vals[0] - 8 * vals[1] + 8 * vals[2] - vals[3]) / (12 * h[:, None])
    return M, exact, None


def check_softmax(ctx, T, d, tier, seed):
    case = {"softmax_d": d, "tier": tier, "seed": seed}
    br = "Softmax:d=%d" % d
    rows = H.softmax_rows(d, seed)
    ctx.count("x.in_scope", len(rows))
    ctx.count("branch.softmax.d=%d" % d)
    for route in ("kw", "class"):
        t = T.get_transform("Softmax") if route == "kw" else T.Softmax()
        jac, e = call(t.jacobian, rows.copy())
        ctx.case(True, outcome=None if jac is None else jac.tobytes(), n=len(rows))
        if e is not None:
            k = "%s:jacobian:raised:%s" % (br, type(e).__name__)
            ctx.violation(k, dict(case, key=k), "jacobian(X) raised %r" % (e,))
            continue
        if jac.size != len(rows):
            k = br + ":jacobian:shape"
            ctx.violation(k, dict(case, key=k), "jacobian returned %d values for %d rows" % (jac.size, len(rows)))
            continue
        jac = jac.reshape(len(rows))
        bad = ~(np.isfinite(jac) & (jac > 0))
        first_bad(ctx, br + ":jacobian:not-positive", case, bad, np.arange(len(rows)), None,
                  lambda i: "jacobian(%r) = %r is not positive" % (rows[i].tolist(), float(jac[i])))
        # single rows
        one = np.full(len(rows), np.nan)
        for i, r in enumerate(rows):
            j1, e = call(t.jacobian, r.copy().reshape(1, d))
            if e is None and j1.size == 1:
                one[i] = j1.reshape(1)[0]
        ctx.case(True, n=len(rows))
        if one.tobytes() != jac.tobytes():
            k = br + ":jacobian:row-vs-matrix"
            ctx.violation(k, dict(case, key=k), "jacobian of single (1,d) rows differs from the jacobian of the (N,d) array")
        if route != "kw":
            continue
        f = lambda q: call(t.forward, q)
        dets = []
        ok = np.ones(len(rows), dtype=bool)
        err = None
        for k_ in KS:
            M, exact, e = softmax_partials(f, rows, k_)
            if e is not None:
                err = e
                break
            ok &= exact
            dets.append(np.linalg.det(M) if d > 1 else M[:, 0, 0])
            # reference: same stencil on the reference forward
            Mr, _, _ = softmax_partials(lambda q: (H.softmax_ref_forward(q), None), rows, k_)
            dets.append(np.linalg.det(Mr) if d > 1 else Mr[:, 0, 0])
        ctx.case(True, n=len(rows))
        if err is not None:
            k = "%s:forward(stencil):raised:%s" % (br, type(err).__name__)
            ctx.violation(k, dict(case, key=k), "forward on in-domain stencil rows raised %r" % (err,))
            continue
        fa, ra, fb, rb = dets
        with np.errstate(all="ignore"):
            ok &= np.abs(ra - rb) <= FD_AGREE * np.abs(rb)
            agree = np.abs(fa - fb) <= FD_AGREE * np.abs(fb)
            judged = ok & agree
            bad = judged & ~(np.abs(jac - fb) <= FD_TOL * np.abs(fb))
        ctx.count("fd.judged", int(judged.sum()))
        ctx.count("unjudged.fd_impl_steps_disagree", int((ok & ~agree).sum()))
        ctx.count("fd.inexact_step", int((~ok).sum()))
        first_bad(ctx, br + ":jacobian!=det(dforward/dx)", case, bad, np.arange(len(rows)), None,
                  lambda i: "jacobian(%r) = %r but the determinant of the numerical partial derivatives of forward is %r" % (
                      rows[i].tolist(), float(jac[i]), float(fb[i])))


def run_unit(unit, ctx):
    from hydrodiy.stat import transform as T
    tier, seed, cls = unit["tier"], unit["seed"], unit["cls"]
    if cls == "Softmax":
        ctx.case(False, n=0, sample={"softmax_d": unit["d"], "tier": tier, "seed": seed})
        check_softmax(ctx, T, unit["d"], tier, seed)
        return
    if unit.get("kind") == "history":
        ctx.case(False, n=0, sample={"history-unit": cls, "tier": tier, "seed": seed})
        H.run_history(ctx, T, cls, tier, seed, ['forward', 'jacobian'])
        return
    first = True
    for cfg in H.unit_configs(unit):
        if first:
            ctx.case(False, n=0, sample={"cfg": H.jcfg(cfg), "tier": tier, "seed": seed})
            first = False
        check_config(ctx, T, cfg, tier, seed)


def replay(case):
    from mc.explore import Result
    from hydrodiy.stat import transform as T
    ctx = Result()
    if "history" in case:
        return H.replay_history(T, case)
    if "softmax_d" in case:
        check_softmax(ctx, T, case["softmax_d"], case["tier"], case["seed"])
    else:
        check_config(ctx, T, case["cfg"], case["tier"], case["seed"])
    out = [v for lst in ctx.violations.values() for v in lst]
    if case.get("key"):
        same = [v for v in out if v["key"] == case["key"]]
        if same:
            return same
    return out
