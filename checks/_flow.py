"""Reference model of a flow-direction grid (independent of hydrodiy) and the
finite grid spaces shared by C06 and C11.

ESRI D8 codes, rows numbered from the top, cells numbered row by row from the
top-left corner:   32 64 128
                   16  .   1
                    8  4   2
"""
import itertools, math

ESRI = {1: (0, 1), 2: (1, 1), 4: (1, 0), 8: (1, -1), 16: (0, -1),
        32: (-1, -1), 64: (-1, 0), 128: (-1, 1)}       # code -> (drow, dcol)
DIRS = [1, 2, 4, 8, 16, 32, 64, 128]
INVALID_CODES = [3, 5, 255, -1, 9999]
# invalid codes beyond 32 bits whose low 32 bits are a valid ESRI code (a kernel that narrows the code aliases them)
INVALID_BIG = [2 ** 32 + 4, 2 ** 33 + 1, 2 ** 40 + 8, -2 ** 32 + 64, 2 ** 32 + 2]
SQRT2 = math.sqrt(2.0)


def invalid_code(seed):
    return INVALID_CODES[seed % len(INVALID_CODES)]


def invalid_big(seed):
    return INVALID_BIG[seed % len(INVALID_BIG)]


def alphabet(seed):
    return [0] + DIRS + [invalid_code(seed), invalid_big(seed)]


class FlowModel(object):
    """down[c] : >=0 downstream cell, -2 sink, -1 off-grid exit, -3 invalid code"""

    def __init__(self, nrows, ncols, codes):
        self.nrows, self.ncols = nrows, ncols
        self.ntot = nrows * ncols
        self.codes = list(codes)
        down = []
        for c, code in enumerate(self.codes):
            r, k = divmod(c, ncols)
            if code == 0:
                down.append(-2)
            elif code in ESRI:
                dr, dc = ESRI[code]
                rr, kk = r + dr, k + dc
                if 0 <= rr < nrows and 0 <= kk < ncols:
                    down.append(rr * ncols + kk)
                else:
                    down.append(-1)
            else:
                down.append(-3)
        self.down = down
        self._chains = {}
        self.up = [[] for _ in range(self.ntot)]
        for c, d in enumerate(down):
            if d >= 0:
                self.up[d].append(c)

    def chain(self, c, limit=None):
        """cells visited going downstream from c (c included) until leaving the
        grid, a sink, or a revisit (cycle) ; returns (cells, cyclic)"""
        if limit is None:
            r = self._chains.get(c)
            if r is None:
                r = self._chains[c] = self._chain(c, None)
            return r
        return self._chain(c, limit)

    def _chain(self, c, limit):
        seen, out = set(), []
        while c >= 0 and c not in seen:
            if limit is not None and len(out) >= limit:
                return out, False
            seen.add(c)
            out.append(c)
            c = self.down[c]
        return out, c >= 0

    def on_cycle(self, c):
        """True if the downstream chain of c comes back to c"""
        d = self.down[c]
        n = 0
        while d >= 0 and n <= self.ntot:
            if d == c:
                return True
            d = self.down[d]
            n += 1
        return False

    def has_cycle(self):
        for c in range(self.ntot):
            if self.chain(c)[1]:
                return True
        return False

    def area(self, outlet, inlets=()):
        """outlet + every cell whose chain reaches the outlet without passing
        through an inlet (inlet cells themselves excluded); empty if nothing
        drains to the outlet."""
        inl = set(inlets)
        res = []
        for c in range(self.ntot):
            if c == outlet:
                continue
            cells, _ = self.chain(c)
            if outlet in cells:
                before = cells[:cells.index(outlet)]
                if not (set(before) & inl):
                    res.append(c)
        if not res:
            return []
        return sorted(res + [outlet])

    def step_len(self, a, b):
        ra, ka = divmod(a, self.ncols)
        rb, kb = divmod(b, self.ncols)
        return 1.0 if (ra == rb or ka == kb) else SQRT2

    def path_to(self, c, outlet):
        """(#orthogonal steps, #diagonal steps) from c down to outlet; None if not reached"""
        no = nd = 0
        seen = set()
        while c != outlet:
            if c < 0 or c in seen:
                return None
            seen.add(c)
            d = self.down[c]
            if d < 0:
                return None
            ra, ka = divmod(c, self.ncols)
            rb, kb = divmod(d, self.ncols)
            if ra == rb or ka == kb:
                no += 1
            else:
                nd += 1
            c = d
        return no, nd

    def upstream_closure(self, c):
        """all cells whose chain passes through c (c excluded); assumes acyclic upstream"""
        out, stack, seen = [], list(self.up[c]), set()
        while stack:
            u = stack.pop()
            if u in seen:
                continue
            seen.add(u)
            out.append(u)
            stack.extend(self.up[u])
        return out


def in_grid_dirs(nrows, ncols, c):
    r, k = divmod(c, ncols)
    out = []
    for code in DIRS:
        dr, dc = ESRI[code]
        if 0 <= r + dr < nrows and 0 <= k + dc < ncols:
            out.append(code)
    return out


def offgrid_dir(nrows, ncols, c):
    r, k = divmod(c, ncols)
    for code in DIRS:
        dr, dc = ESRI[code]
        if not (0 <= r + dr < nrows and 0 <= k + dc < ncols):
            return code
    return None


def cell_alphabets(nrows, ncols, mode, seed):
    """per-cell code alphabets.  mode: 'full' (10 codes everywhere),
    'reduced' (in-grid directions, sink, one off-grid code, one invalid code),
    'ingrid' (in-grid directions, sink)"""
    out = []
    for c in range(nrows * ncols):
        if mode == "full":
            out.append(alphabet(seed))
        else:
            a = [0] + in_grid_dirs(nrows, ncols, c)
            if mode == "reduced":
                og = offgrid_dir(nrows, ncols, c)
                if og is not None:
                    a.append(og)
                a.append(invalid_code(seed))
                a.append(invalid_big(seed))
            out.append(a)
    return out


def grids_of_unit(unit):
    """enumerate every code vector of the unit: the first `len(prefix)` cells are
    fixed, the others range over their alphabets."""
    nrows, ncols = unit["shape"]
    alph = cell_alphabets(nrows, ncols, unit["mode"], unit["seed"])
    prefix = unit["prefix"]
    rest = alph[len(prefix):]
    for tail in itertools.product(*rest):
        yield list(prefix) + list(tail)


def shape_units(shapes_modes, seed, target=2000):
    """split each (shape, mode) space into units by fixing leading cells so
    that a unit holds at most ~target grids"""
    units = []
    for (nrows, ncols), mode in shapes_modes:
        alph = cell_alphabets(nrows, ncols, mode, seed)
        sizes = [len(a) for a in alph]
        total = 1
        for s in sizes:
            total *= s
        npre = 0
        rem = total
        while rem > target and npre < len(sizes):
            rem //= sizes[npre]
            npre += 1
        for prefix in itertools.product(*alph[:npre]):
            units.append({"kind": "grids", "shape": [nrows, ncols], "mode": mode,
                          "prefix": list(prefix), "seed": seed})
    return units


# larger shapes: <= 2 deviations from base fields
def base_fields(nrows, ncols):
    ntot = nrows * ncols
    east = [1] * ntot
    # converge: every cell flows towards the bottom-right corner, which is a sink
    conv = []
    for c in range(ntot):
        r, k = divmod(c, ncols)
        if r == nrows - 1 and k == ncols - 1:
            conv.append(0)
        elif r == nrows - 1:
            conv.append(1)
        elif k == ncols - 1:
            conv.append(4)
        else:
            conv.append(2)
    # snake: row 0 east, down at the end, row 1 west, ... ends in a sink
    snake = []
    for c in range(ntot):
        r, k = divmod(c, ncols)
        if r % 2 == 0:
            snake.append(1 if k < ncols - 1 else 4)
        else:
            snake.append(16 if k > 0 else 4)
    last = (nrows - 1) * ncols + ((ncols - 1) if (nrows - 1) % 2 == 0 else 0)
    snake[last] = 0
    # pit: every cell flows towards the central cell (a sink that receives from all its neighbours)
    pr, pk = nrows // 2, ncols // 2
    pit = []
    for c in range(ntot):
        r, k = divmod(c, ncols)
        dr = (pr > r) - (pr < r)
        dk = (pk > k) - (pk < k)
        if dr == 0 and dk == 0:
            pit.append(0)
        else:
            pit.append([code for code, d in ESRI.items() if d == (dr, dk)][0])
    return {"east": east, "converge": conv, "snake": snake, "pit": pit}


def deviation_grids(nrows, ncols, basename, maxdev, seed):
    base = base_fields(nrows, ncols)[basename]
    ntot = nrows * ncols
    alph = alphabet(seed)
    yield list(base)
    devs = [(c, code) for c in range(ntot) for code in alph if code != base[c]]
    if maxdev >= 1:
        for c, code in devs:
            g = list(base)
            g[c] = code
            yield g
    if maxdev >= 2:
        for (c1, k1), (c2, k2) in itertools.combinations(devs, 2):
            if c1 == c2:
                continue
            g = list(base)
            g[c1] = k1
            g[c2] = k2
            yield g
