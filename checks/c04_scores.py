"""C04 - bias / nse / kge / corr, confusion_matrix, binary scores.

Spaces (every listed product is crossed completely):
  det    : transform x all (obs, sim) pairs of length n over a 5- (or 4-) letter dyadic
           alphabet shifted into the transform's domain x {bias standard/normalised/log,
           nse, kge} (x excludenull in {False, True} on the short lengths); plus, per obs,
           the simulation that equals the transformed mean; plus (Identity) common affine
           maps (nse) and common positive scalings (bias, kge).
  corr   : transform x obs x ensemble (n x p, p = 1..3) x Pearson/Spearman x mean/median.
  null   : transform x all (obs, sim) pairs over {finite letters, NaN, +inf, -inf, letters
           outside the transform's domain} that keep >= minok complete positions,
           excludenull=True.
  cm     : all pairs of category series (see bound_text) x ncat in {None, kmin, kmin+1}.
  bin    : all 2x2 tables over 1..6 (1..9) plus tables over a small set of large counts.
  ladder : series lengths 7, 8, 9, ..., 1023, 1024, 1025 (thorough: .. 4097, 10001) x {Identity, Log} x
           structured tie-rich (obs, sim) pairs -> every det score, mean-sim, invariances, corr (p = 1, 3),
           excludenull with NaN/inf/out-of-domain values; category series of the same lengths over
           2, 3, 6 and 7..200 categories.
  layout : the ladder cases and the first case of every unit again with the same values held as
           float32 / int64 / strided / negative-stride / read-only / [n,1] column / pandas objects /
           Fortran order: the result of the float64 C-contiguous call is required.
Oracle: textbook formulas in Fractions / 50-digit mpmath applied to trans.forward(obs),
trans.forward(sim) of the same transform object.
"""
import itertools, math
from fractions import Fraction
import numpy as np
from mc.explore import recycle

ID = "C04"
# computational entry points whose results are watched by the engine's retained-result oracle (mc/explore.py)
RETAIN = [('hydrodiy.stat.metrics', 'corr'), ('hydrodiy.stat.metrics', 'confusion_matrix'), ('hydrodiy.stat.metrics', 'binary'), ('hydrodiy.stat.metrics', 'nse'), ('hydrodiy.stat.metrics', 'bias'), ('hydrodiy.stat.metrics', 'kge')]
RULE = ("nested enumeration, each case generated once: (det) transform x every (obs, sim) pair of "
        "length n over a dyadic alphabet shifted into the transform's domain, every bias type, nse, kge, "
        "excludenull False/True; the transformed-mean simulation of every obs; Identity: 3 common affine "
        "maps (nse) and 2 common positive scalings (bias, kge) of every pair; (corr) transform x obs x "
        "n-by-p ensemble x Pearson/Spearman x mean/median; (null) transform x every pair over finite letters "
        "+ NaN/+inf/-inf/out-of-domain letters keeping >= minok complete positions, excludenull=True; "
        "(cm) every pair of category series x ncat None/kmin/kmin+1; (bin) every 2x2 table of positive "
        "counts over the stated sets; (ladder) Identity and Log x every series length of the ladder 7,8,9,15,16,17,...,1023,"
        "1024,1025 (+100, 500, 501, 1000, 1001; thorough ..4097, 10001) x structured pairs over the same dyadic alphabet "
        "(aperiodic-marked pattern, perfect simulation, integer-valued pair): every det score with both excludenull, "
        "mean simulation, affine/scale invariances, corr with p = 1 and p = 3 members (4 variants), excludenull with "
        "NaN/+-inf/out-of-domain values scattered in both series (quick tier: the perfect / integer pairs, mean simulation, "
        "invariances, p = 3 and the corr and many-category layouts only at the lengths 2^k+1, 100, 501, 1001; the general "
        "pair, p = 1 and the null case at every length); category series of every ladder length over 2, 3, 6 "
        "categories and over 7, 33 (n >= 31), 100 (n >= 100), 200 (n >= 500) categories x 2 patterns x ncat None/kmin/kmin+1; (layout) every ladder "
        "case and the first case of every det/corr/cm/bin unit called again with the same values as float32, int64 "
        "(when exactly representable), strided, negative-stride, read-only, [n,1] column, pandas Series/DataFrame, "
        "Fortran-ordered ensemble, narrow integer / bool category arrays: must reproduce the float64 C-contiguous "
        "call. One case = one call of the real metrics function, compared with the "
        "textbook formula evaluated in Fractions/mpmath on trans.forward(obs), trans.forward(sim) taken from "
        "the same transform object. Non-trivial = the call is judged (observations non-degenerate and the "
        "textbook value defined). Distinct by construction (distinct argument tuples).")
ASSUMPTIONS = [
    "trans.forward is trusted (C01/C02 own it): the oracle is the textbook score of trans.forward(obs), trans.forward(sim) read from the same transform object",
    "degenerate observations (|mean| or sd <= 1e-6 of max|value|, or <= 1e-6 absolute, in raw or transformed space) are executed but never judged; any behaviour incl. NaN is accepted; for NSE under a common affine map (change of unit 1e-7, 2^-30, 1e7) only the relative criterion applies",
    "textbook value undefined -> not judged: normalised bias with mean(sim)+mean(obs) ~ 0, log bias with a non-positive mean, KGE/correlation with constant simulation (or constant ranks)",
    "excludenull: a position is complete when raw and transformed obs and sim are finite, incomplete when a transformed value is NaN/+-inf; raw +-inf mapped to a finite value by the transform (Reciprocal) is ambiguous and not judged; fewer than 2 complete positions is outside the quantifier (length >= 2) and not executed",
    "excludenull=False with NaN/inf present is not judged (the statement only defines the excludenull=True result)",
    "affine/scaling invariance is checked for the Identity transform (a common affine map of the raw series is a common affine map of the scored series only there), maps exact in binary; scaling by 2^-40 (absolute 1e-10 guards fire) is executed and counted, never judged",
    "confusion_matrix: ncat inferred is judged only when the union of categories is contiguous from 0 and has >= 2 members; explicit ncat is >= every category + 1",
    "binary: only the nine scores named in the property are judged (not EDS, not scores_rand); float tolerance 1e-9 relative (observed noise < 1e-14)",
    "ensemble NaN members, 2-D obs, the censored correlation type and default trans argument are outside the property text and not enumerated",
    "extension modules rebuilt from the working tree; metrics.bias/nse/kge/corr/confusion_matrix/binary are pure Python",
    "size ladder: same Fraction/mpmath oracle on the Fractions of the transformed float64 values; tolerance unchanged (1e-9 relative; numpy pairwise sums keep the rounding noise below 1e-13 at n = 10001)",
    "confusion_matrix beyond the quantifier's 6 categories (7, 33, 100, 200; lengths at which most categories occur, the implementation inserts absent categories one at a time): the statement's counting rule is applied unchanged; keys carry ':ncat>6'",
    "ladder, corr of 3-member ensembles under Log: Spearman of the member mean is not judged (float means of the same members in another order differ by an ulp and are not tied, the Fraction means are); Pearson/mean, Pearson/median and Spearman/median are",
    "layout variants hold exactly the same values; a layout rejected with a Python exception is accepted and counted (e.g. Log of float32/int64 arrays: the safe cast back to the input dtype raises); results must equal the float64 C-contiguous call within 1e-9 relative, except float32 series, whose scores numpy evaluates in float32 (trans.forward returns the input dtype): tolerance 1e-4 there (observed float32 noise < 1e-6)",
    "the [n,1] column layout is documented by bias/nse/kge/corr ('[n] or [n,1] array') and is judged; obs and sim are given in the same layout, plus sim alone as float32/int64",
]
TECHNIQUE = "bounded exhaustive enumeration of inputs on the real functions vs exact (Fraction/mpmath) textbook formulas"

TOL = 1e-9
A5 = [-2.0, -0.5, 0.0, 1.0, 3.0]
SUB4 = [0, 1, 3, 4]
SUB3 = [1, 3, 4]
SUB2 = [0, 3]
NAN = float("nan")
INF = float("inf")

# fixed transform list: name, get_transform kwargs, shift of the alphabet into the domain,
# letters outside the domain (finite raw value -> NaN or -inf after transformation)
TRANS = [
    {"name": "Identity", "kw": {}, "shift": 0.0, "od": []},
    {"name": "Log", "kw": {"nu": 1.0}, "shift": 2.0, "od": [-1.0, -3.0]},
    {"name": "BoxCox2", "kw": {"nu": 0.5, "lam": 0.0}, "shift": 2.0, "od": [-0.5, -3.0]},
    {"name": "BoxCox2", "kw": {"nu": 1.0, "lam": 0.5}, "shift": 2.0, "od": [-3.0]},
    {"name": "Reciprocal", "kw": {"nu": 1.0}, "shift": 2.0, "od": [-1.0, -3.0]},
    {"name": "Sinh", "kw": {"nu": 0.5, "scale": 2.0}, "shift": 0.0, "od": []},
]
# seed-rotated extra representative (one joins the fixed list)
EXTRA = [
    {"name": "Log", "kw": {"nu": 0.25, "base": 10}, "shift": 2.0, "od": [-0.25, -3.0]},
    {"name": "BoxCox2", "kw": {"nu": 2.0, "lam": 0.25}, "shift": 2.0, "od": [-3.0]},
    {"name": "Reciprocal", "kw": {"nu": 3.0}, "shift": 2.0, "od": [-3.0, -5.0]},
    {"name": "Sinh", "kw": {"nu": -1.0, "scale": 0.5}, "shift": 0.0, "od": []},
    {"name": "BoxCox2", "kw": {"nu": 1.0, "lam": 1.0}, "shift": 2.0, "od": []},
    {"name": "BoxCox2", "kw": {"nu": 1.0, "lam": -0.5, "minilam": -1.0}, "shift": 2.0, "od": [-3.0]},
]

LADDER_Q = [7, 8, 9, 15, 16, 17, 31, 32, 33, 63, 64, 65, 100, 127, 128, 129, 255, 256, 257, 500, 501, 511, 512, 513,
            1000, 1001, 1023, 1024, 1025]
# dense range: every size (a defect may sit at one particular size, e.g. exactly 73 members)
LADDER_Q = sorted(set(LADDER_Q) | set(range(7, 131)))
LADDER_T = LADDER_Q + [2047, 2048, 2049, 4095, 4096, 4097, 10001]
LADDER_T = sorted(set(LADDER_T) | set(range(7, 301)))
LADDER_RICH = {9, 17, 33, 65, 100, 129, 257, 501, 513, 1001, 1025}    # quick tier: lengths carrying the full set of ladder cases
LADDER_TRANS = [0, 1]                   # Identity, Log (indices of TRANS)
LADDER_K = [2, 3, 6, 7, 33, 100, 200]   # category counts (the quantifier stops at 6; see ASSUMPTIONS)
LADDER_K_MIN_N = {33: 31, 100: 100, 200: 500}   # confusion_matrix inserts absent categories one by one (seconds for 200 absent ones)
TOL32 = 1e-4                            # float32 series: numpy evaluates the score in float32 (observed noise < 1e-6)

AFFINE = [(2.0, 0.0), (-0.5, 1.5), (1.0, -3.0), (1.0, 262144.0), (1.0, -262144.0),
          # small and large units (flows in m3/s vs ML/d vs mm/s): NSE has no absolute scale
          (1e-7, 0.0), (2.0 ** -30, 0.0), (1e7, 0.0)]   # the last two: |mean|/sd ~ 2e5, still non-degenerate (1e-6 relative)
SCALES = [3.0, 0.25]
TINY = 2.0 ** -40


def translist(seed):
    return TRANS + [EXTRA[seed % len(EXTRA)]]


def bound_text(tier, seed):
    ex = EXTRA[seed % len(EXTRA)]
    if tier == "quick":
        return ("det: 7 transforms (6 fixed + seed-rotated %s%s), n=2 all pairs over 5 letters (both excludenull), "
                "n=3 all pairs over 5 letters (Identity) / 4 letters (others); corr: p=1 n=2 (5 letters, all transforms), "
                "n=3 5 letters Identity / 3 letters others; p=2 n=2 (Identity, Log), p=3 n=2 two-letter members; "
                "null: n=3 >=2 complete, 6 letters Identity (with Spearman), 2 finite + NaN,+inf + out-of-domain letters others; "
                "cm: {0,1} length<=4, {0,1,2} length<=3, 4..6 categories <=1 deviation; bin: all tables 1..6 (1296) + 256 tables over "
                "{1,3,1000,60000+7*seed}; ladder: Identity, Log x 29 lengths 7..1025 around powers of two x (general pair: all det scores, "
                "corr p=1, excludenull with 6 null values; at the 11 lengths 2^k+1, 100, 501, 1001 also the perfect and integer pairs, mean-sim, "
                "invariances, corr p=3, corr layouts); cm: 29 lengths x category counts 2,3,6,7 and 33 (n>=31), 100 (n>=100), 200 (n>=500) x 2 "
                "patterns x 3 ncat; layouts: up to 10 per 1-D series, 7 per ensemble, 11 per category series, 6 per table, on every "
                "ladder case and the first case of every unit" % (ex["name"], ex["kw"]))
    return ("det: 7 transforms (6 fixed + seed-rotated %s%s), n=2,3 all pairs over 5 letters (both excludenull), n=4 all pairs over "
            "5 letters (Identity) / 4 letters (others); corr: p=1 n=2,3 5 letters all transforms, n=4 4 letters Identity; p=2 n=2 all "
            "transforms, n=3 3 letters Identity; p=3 n=2 3-letter members Identity; null: n=3 >=2 complete 3 finite + NaN,+inf,-inf + "
            "out-of-domain letters all transforms (with Spearman), n=4 >=3 complete 6 letters Identity; cm: {0,1} length<=6, {0,1,2} "
            "length<=4, 4..6 categories <=2 deviations; bin: all tables 1..9 (6561) + 1296 tables over {1,2,7,1000,60000+7*seed,10^7}; "
            "ladder: Identity, Log x 36 lengths 7..4097 around powers of two and 10001 x (3 det pairs, mean-sim, invariances, corr p=1,3, "
            "excludenull with 6 null values); cm: 36 lengths x category counts 2,3,6,7 and 33 (n>=31), 100 (n>=100), 200 (n>=500) x 2 patterns x 3 ncat; layouts: up "
            "to 10 per 1-D series, 7 per ensemble, 11 per category series, 6 per table, on every ladder case and the first case of every unit"
            % (ex["name"], ex["kw"]))


# ---------------------------------------------------------------------------
# helpers

def enc(v):
    if v is None:
        return None
    v = float(v)
    if math.isnan(v):
        return None
    if math.isinf(v):
        return "inf" if v > 0 else "-inf"
    return v


def dec(v):
    if v is None:
        return NAN
    if v == "inf":
        return INF
    if v == "-inf":
        return -INF
    return float(v)


def encl(vals):
    return [enc(v) for v in vals]


_MP = None


def mp():
    global _MP
    if _MP is None:
        import mpmath
        mpmath.mp.dps = 50
        _MP = mpmath
    return _MP


def mpf(fr):
    m = mp()
    if isinstance(fr, Fraction):
        return m.mpf(fr.numerator) / m.mpf(fr.denominator)
    return m.mpf(fr)


def build_trans(spec):
    from hydrodiy.stat import transform
    return transform.get_transform(spec["name"], **dict(spec["kw"]))


def tlabel(spec):
    return spec["name"]


def fclose(o, e):
    o = float(o)
    if math.isnan(o) or math.isinf(o):
        return False
    e = float(e)
    return abs(o - e) <= TOL * max(1.0, abs(e))


def sstats(fr):
    n = len(fr)
    m = sum(fr) / n
    ss = sum((v - m) ** 2 for v in fr)
    scale = max(abs(v) for v in fr)
    return n, m, ss, scale


REL = Fraction(1, 10 ** 6)


def degenerate(st, rel_only=False):
    """rel_only: the relative criterion of the property alone (used for NSE under a change of unit: NSE has no
    absolute scale and the implementation no absolute guard)"""
    n, m, ss, scale = st
    if scale == 0:
        return True
    if abs(m) <= REL * scale or (abs(m) <= REL and not rel_only):
        return True
    var = ss / n
    if var <= REL * REL * scale * scale or (var <= REL * REL and not rel_only):
        return True
    return False


def const_like(st):
    """series whose sd is 0 / negligible relative to its magnitude"""
    n, m, ss, scale = st
    if scale == 0:
        return True
    return ss / n <= REL * REL * scale * scale


def avg_ranks(fr):
    order = sorted(range(len(fr)), key=lambda i: fr[i])
    ranks = [None] * len(fr)
    i = 0
    while i < len(order):
        j = i
        while j + 1 < len(order) and fr[order[j + 1]] == fr[order[i]]:
            j += 1
        r = Fraction(i + j + 2, 2)          # average of 1-based ranks i+1..j+1
        for k in range(i, j + 1):
            ranks[order[k]] = r
        i = j + 1
    return ranks


def pearson(a, b):
    """exact-input Pearson correlation, None when undefined"""
    n = len(a)
    ma, mb = sum(a) / n, sum(b) / n
    saa = sum((v - ma) ** 2 for v in a)
    sbb = sum((v - mb) ** 2 for v in b)
    if saa == 0 or sbb == 0:
        return None
    sab = sum((x - ma) * (y - mb) for x, y in zip(a, b))
    return mpf(sab) / mp().sqrt(mpf(saa) * mpf(sbb))


def expected_scores(to, ts):
    """textbook values on exact transformed series (obs non-degenerate). None = undefined."""
    m = mp()
    n = len(to)
    mo, ms = sum(to) / n, sum(ts) / n
    sso = sum((v - mo) ** 2 for v in to)
    sss = sum((v - ms) ** 2 for v in ts)
    sse = sum((s - o) ** 2 for o, s in zip(to, ts))
    exp = {}
    exp["bias:standard"] = (ms - mo) / mo
    den = ms + mo
    exp["bias:normalised"] = (ms - mo) / den if abs(den) > REL * max(abs(ms), abs(mo)) else None
    exp["bias:log"] = (m.log(mpf(ms)) - m.log(mpf(mo))) if (ms > REL and mo > REL) else None
    exp["nse"] = 1 - sse / sso
    sts = (n, ms, sss, max(abs(v) for v in ts))
    if const_like(sts):
        exp["kge"] = None
        exp["pearson"] = None
    else:
        cov = sum((o - mo) * (s - ms) for o, s in zip(to, ts))
        r = mpf(cov) / m.sqrt(mpf(sso) * mpf(sss))
        alpha = m.sqrt(mpf(sss) / mpf(sso))
        beta = mpf(ms / mo)
        exp["kge"] = 1 - m.sqrt((1 - beta) ** 2 + (1 - alpha) ** 2 + (1 - r) ** 2)
        exp["pearson"] = r
    return exp


class Info(object):
    __slots__ = ("vals", "x", "t", "ok", "tf", "st", "straw")


def info_of(T, vals):
    o = Info()
    o.vals = list(vals)
    o.x = np.array(vals, dtype=np.float64)
    o.t = np.asarray(T.forward(o.x.copy()), dtype=np.float64)
    o.ok = bool(np.all(np.isfinite(o.t))) and o.t.shape == o.x.shape
    o.tf = [Fraction(float(v)) for v in o.t] if o.ok else None
    o.st = sstats(o.tf) if o.ok else None
    o.straw = sstats([Fraction(float(v)) for v in vals])
    return o


def judge(ctx, key, case, val, exp, what):
    """val observed float, exp exact expected. returns True when it held"""
    if fclose(val, exp):
        return True
    k = key + (":nan" if math.isnan(val) else "")
    ctx.violation(k, case, "%s = %r, textbook value %.15g" % (what, val, float(exp)),
                  observed=enc(val), expected=float(exp))
    return False


def det_calls(M):
    return [("bias:standard", M.bias, {"type": "standard"}),
            ("bias:normalised", M.bias, {"type": "normalised"}),
            ("bias:log", M.bias, {"type": "log"}),
            ("nse", M.nse, {}),
            ("kge", M.kge, {})]


# ---------------------------------------------------------------------------
# det: bias / nse / kge on complete series

def check_det(ctx, M, spec, T, io, is_, ex_too, only=None, tag="formula", exp_override=None, casex=None):
    """one (obs, sim) pair: every deterministic score. `only` restricts the scores,
    `exp_override` supplies the expected values (invariance checks), `tag` names the relation."""
    tn = tlabel(spec)
    case = {"kind": "det", "trans": spec, "obs": encl(io.vals), "sim": encl(is_.vals), "ex": bool(ex_too)}
    if casex:
        case.update(casex)
    if not (io.ok and is_.ok):
        ctx.count("unjudged.forward_nonfinite")
        ctx.case(False)
        return
    rel_only = (tag == "affine-invariance")
    deg = degenerate(io.st, rel_only) or degenerate(io.straw, rel_only)
    exp = None
    if not deg:
        exp = exp_override if exp_override is not None else expected_scores(io.tf, is_.tf)
    perfect = (io.vals == is_.vals) and tag == "formula"
    for score, fn, kw in det_calls(M):
        if only is not None and score not in only:
            continue
        base = None
        for ex in ((False, True) if ex_too else (False,)):
            try:
                v = float(fn(recycle("o", io.x), recycle("s", is_.x), T, excludenull=ex, **kw))
            except Exception as e:
                if deg:
                    ctx.case(False, outcome="raise")
                    ctx.count("unjudged.degenerate_obs.raised")
                else:
                    ctx.case(True, outcome="raise")
                    ctx.violation("%s:raised:%s:%s" % (score, type(e).__name__, tn), dict(case, score=score),
                                  "%s(excludenull=%s) raised %r on complete non-degenerate series" % (score, ex, e))
                continue
            if deg:
                ctx.case(False, outcome=v if not math.isnan(v) else "nan")
                ctx.count("unjudged.degenerate_obs")
                continue
            e_ = exp[score]
            if e_ is None:
                ctx.case(False, outcome=v if not math.isnan(v) else "nan")
                ctx.count("unjudged.undefined.%s" % score)
                continue
            ctx.case(True, outcome=v if not math.isnan(v) else "nan")
            c = dict(case, score=score, excludenull=ex)
            if ex and base is not None and not (v == base or (math.isnan(v) and math.isnan(base))):
                ctx.violation("%s:excludenull-on-complete-differs:%s" % (score, tn), c,
                              "%s with excludenull=True on complete data = %r, = %r with excludenull=False" % (score, v, base))
            if not ex:
                base = v
            judge(ctx, "%s:%s:%s" % (score, tag, tn), c, v, e_,
                  "%s(obs=%s, sim=%s, %s%s, excludenull=%s)" % (score, io.vals, is_.vals, tn, spec["kw"], ex))
            if perfect:
                ctx.count("consequence.perfect_sim")
                target = 1.0 if score in ("nse", "kge") else 0.0
                if not (abs(v - target) <= TOL):
                    ctx.violation("%s:perfect-sim:%s" % (score, tn), c,
                                  "perfect simulation: %s = %r, expected %g" % (score, v, target), observed=enc(v), expected=target)
            if score in ("nse", "kge") and tag == "formula":
                ctx.count("consequence.le1")
                if v > 1.0 + TOL:
                    ctx.violation("%s:gt1:%s" % (score, tn), c, "%s = %r exceeds 1" % (score, v), observed=v)


def textbook_backward(spec, m):
    """independent inverse of the transform at transformed value m (mpmath) -> float"""
    mm = mp()
    name, kw = spec["name"], spec["kw"]
    m = mpf(m)
    if name == "Identity":
        x = m
    elif name == "Log":
        bf = mm.log(kw["base"]) if "base" in kw else mm.mpf(1)
        x = mm.exp(bf * m) - mm.mpf(kw["nu"])
    elif name == "BoxCox2":
        lam = mm.mpf(kw["lam"])
        if lam == 0:
            x = mm.exp(m) - mm.mpf(kw["nu"])
        else:
            x = (lam * m + 1) ** (1 / lam) - mm.mpf(kw["nu"])
    elif name == "Reciprocal":
        x = -1 / m - mm.mpf(kw["nu"])
    elif name == "Sinh":
        x = mm.sinh(m) / mm.mpf(kw["scale"]) + mm.mpf(kw["nu"])
    else:
        raise ValueError(name)
    return float(x)


def check_meansim(ctx, M, spec, T, io):
    """sim = the value whose transform is mean(trans.forward(obs)): NSE 0"""
    tn = tlabel(spec)
    if not io.ok or degenerate(io.st) or degenerate(io.straw):
        ctx.count("unjudged.meansim.degenerate_obs")
        return
    xs = textbook_backward(spec, io.st[1])
    sim = [xs] * len(io.vals)
    is_ = info_of(T, sim)
    check_det(ctx, M, spec, T, io, is_, False, only=("nse",), tag="mean-sim-formula", casex={"kind": "meansim"})
    case = {"kind": "meansim", "trans": spec, "obs": encl(io.vals), "sim": encl(sim)}
    try:
        v = float(M.nse(recycle("o", io.x), recycle("s", is_.x), T))
    except Exception as e:
        ctx.case(True, outcome="raise")
        ctx.violation("nse:mean-sim:raised:%s" % tn, case, "raised %r" % (e,))
        return
    ctx.case(True, outcome=v if not math.isnan(v) else "nan")
    ctx.count("consequence.mean_sim")
    if not (abs(v) <= 1e-6):
        ctx.violation("nse:mean-sim:%s" % tn, case,
                      "simulating the (transformed) observed mean %r: NSE = %r, expected 0" % (xs, v), observed=enc(v), expected=0.0)


def check_invariance(ctx, M, spec, T, io, is_):
    """Identity: NSE under common affine maps, bias/KGE under common positive scalings.
    Expected = exact textbook value of the ORIGINAL pair."""
    if not (io.ok and is_.ok) or degenerate(io.st) or degenerate(io.straw):
        ctx.count("unjudged.invariance.degenerate_obs")
        return
    exp = expected_scores(io.tf, is_.tf)
    for a, b in AFFINE:
        o2 = [a * v + b for v in io.vals]
        s2 = [a * v + b for v in is_.vals]
        check_det(ctx, M, spec, T, info_of(T, o2), info_of(T, s2), False, only=("nse",),
                  tag="affine-invariance", exp_override=exp, casex={"kind": "inv", "map": [a, b], "obs0": encl(io.vals), "sim0": encl(is_.vals)})
    # series far from zero compared with their spread (levels above a datum, Kelvin-like offsets): |mean|/sd ~ 2e5,
    # still non-degenerate (1e-6 relative); bias and KGE against the exact value of the shifted pair itself
    for b in (262144.0, -262144.0):
        o2 = [v + b for v in io.vals]
        s2 = [v + b for v in is_.vals]
        check_det(ctx, M, spec, T, info_of(T, o2), info_of(T, s2), False, only=("bias:standard", "bias:normalised", "kge"),
                  tag="formula-large-offset", casex={"kind": "inv", "map": [1.0, b], "obs0": encl(io.vals), "sim0": encl(is_.vals)})
    for c in SCALES:
        o2 = [c * v for v in io.vals]
        s2 = [c * v for v in is_.vals]
        check_det(ctx, M, spec, T, info_of(T, o2), info_of(T, s2), False,
                  only=("bias:standard", "bias:normalised", "bias:log", "kge"),
                  tag="scale-invariance", exp_override=exp, casex={"kind": "inv", "map": [c, 0.0], "obs0": encl(io.vals), "sim0": encl(is_.vals)})
    # tiny scaling: absolute 1e-10 guards of the implementation fire; executed, counted, not judged
    o2 = np.array([TINY * v for v in io.vals])
    s2 = np.array([TINY * v for v in is_.vals])
    try:
        v = float(M.bias(o2, s2, T))
        ctx.count("unjudged.tiny_scale.bias_nan" if math.isnan(v) else "unjudged.tiny_scale.bias_value")
    except Exception:
        ctx.count("unjudged.tiny_scale.bias_raised")
    ctx.case(False)


# ---------------------------------------------------------------------------
# corr

CORR_VARIANTS = [("Pearson", "mean"), ("Pearson", "median"), ("Spearman", "mean"), ("Spearman", "median")]


def row_stat(rows, stat):
    out = []
    for r in rows:
        if stat == "mean":
            out.append(sum(r) / len(r))
        else:
            s = sorted(r)
            k = len(s)
            out.append(s[k // 2] if k % 2 else (s[k // 2 - 1] + s[k // 2]) / 2)
    return out


def expected_corr(to, tstat, ctype):
    if ctype == "Pearson":
        n = len(tstat)
        ms = sum(tstat) / n
        st = (n, ms, sum((v - ms) ** 2 for v in tstat), max(abs(v) for v in tstat))
        if const_like(st):
            return None
        return pearson(to, tstat)
    return pearson(avg_ranks(to), avg_ranks(tstat))


def check_corr(ctx, M, spec, T, io, ens, variants=CORR_VARIANTS, excludenull=False):
    """ens: list of n rows of p members (complete, in the domain)"""
    tn = tlabel(spec)
    p = len(ens[0])
    case = {"kind": "corr", "trans": spec, "obs": encl(io.vals), "ens": [encl(r) for r in ens]}
    e2 = np.array([[NAN if v is None else v for v in r] for r in ens], dtype=np.float64)
    te = np.asarray(T.forward(e2.copy()), dtype=np.float64)
    hasnan = bool(np.isnan(te).any())
    # missing members - NaN given by the caller, or a member outside the domain of the transform (forward gives
    # NaN) - are skipped by the ensemble statistic; every row must keep at least one valid member and every
    # other member must transform to a finite value (no infinities)
    if not io.ok or te.shape != e2.shape or np.isinf(te).any() \
            or not np.all(np.isfinite(te).sum(axis=1) >= 1):
        ctx.count("unjudged.forward_nonfinite")
        ctx.case(False)
        return
    if hasnan:
        ctx.count("corr.ensembles_with_missing_members")
    deg = degenerate(io.st) or degenerate(io.straw)
    rows = [[Fraction(float(v)) for v in r if math.isfinite(v)] for r in te]
    arg = e2[:, 0].copy() if p == 1 else e2
    perfect = (not hasnan) and all(len(set(r)) == 1 and r[0] == o for r, o in zip(ens, io.vals))
    for ctype, stat in variants:
        score = "corr:%s:%s" % (ctype, stat) + (":missing-members" if hasnan else "")
        try:
            v = float(M.corr(recycle("o", io.x), recycle("s", arg), T, excludenull=excludenull, stat=stat, type=ctype))
        except Exception as e:
            if deg:
                ctx.case(False, outcome="raise")
                ctx.count("unjudged.degenerate_obs.raised")
            else:
                ctx.case(True, outcome="raise")
                ctx.violation("%s:raised:%s:%s" % (score, type(e).__name__, tn), dict(case, score=score), "raised %r" % (e,))
            continue
        oc = v if not math.isnan(v) else "nan"
        if deg:
            ctx.case(False, outcome=oc)
            ctx.count("unjudged.degenerate_obs")
            continue
        rs_ = row_stat(rows, stat)
        if ctype == "Spearman":
            # ranks of the ensemble statistic: two rows whose exact statistics are equal (or closer than
            # float rounding) but whose member sequences differ may be ranked either way by a float
            # evaluation (summation order) - such cases are not judged
            fragile = False
            # float sums of small dyadic values are exact, whatever the order: no fragility then
            exact_sums = all(v.denominator <= 2 ** 20 and abs(v) < 2 ** 20 for r_ in rows for v in r_)
            if not exact_sums:
                # pairs are examined in sorted order (n log n; the ladder has thousands of rows): equal statistics with
                # different member sequences (only the mean of >= 3 members depends on the order of evaluation; the
                # median and a two-term sum do not), or neighbours closer than 1e-12 relative
                order_matters = stat == "mean" and max(len(r_) for r_ in rows) >= 3
                idx_ = sorted(range(len(rs_)), key=lambda k_: rs_[k_])
                for a_, b_ in zip(idx_, idx_[1:]):
                    d_ = rs_[b_] - rs_[a_]
                    if d_ == 0:
                        if order_matters and rows[a_] != rows[b_]:
                            fragile = True
                            break
                    elif d_ <= Fraction(1, 10 ** 12) * max(1, abs(rs_[a_]), abs(rs_[b_])):
                        fragile = True
                        break
            if fragile:
                ctx.case(False, outcome=oc)
                ctx.count("unjudged.spearman_tie_decided_by_rounding")
                continue
        e_ = expected_corr(io.tf, rs_, ctype)
        if e_ is None:
            ctx.case(False, outcome=oc)
            ctx.count("unjudged.undefined.corr")
            continue
        ctx.case(True, outcome=oc)
        c = dict(case, score=score)
        judge(ctx, "%s:formula:p=%d:%s" % (score, p, tn), c, v, e_,
              "corr(obs=%s, ens=%s, %s%s, stat=%s, type=%s)" % (io.vals, ens, tn, spec["kw"], stat, ctype))
        if perfect:
            ctx.count("consequence.perfect_sim")
            if not abs(v - 1.0) <= TOL:
                ctx.violation("%s:perfect-sim:%s" % (score, tn), c, "perfect simulation: correlation %r, expected 1" % v,
                              observed=enc(v), expected=1.0)


# ---------------------------------------------------------------------------
# excludenull with NaN / inf / out-of-domain values

def check_null(ctx, M, spec, T, obs, sim, spearman):
    tn = tlabel(spec)
    n = len(obs)
    xo = np.array(obs, dtype=np.float64)
    xs = np.array(sim, dtype=np.float64)
    to = np.asarray(T.forward(xo.copy()), dtype=np.float64)
    ts = np.asarray(T.forward(xs.copy()), dtype=np.float64)
    case = {"kind": "null", "trans": spec, "obs": encl(obs), "sim": encl(sim), "spearman": bool(spearman)}
    complete, kinds, ambiguous = [], set(), False
    for i in range(n):
        rawfin = math.isfinite(obs[i]) and math.isfinite(sim[i])
        tfin = math.isfinite(to[i]) and math.isfinite(ts[i])
        if tfin and rawfin:
            complete.append(i)
        elif tfin:
            ambiguous = True
        else:
            for v in (to[i], ts[i]):
                if math.isnan(v):
                    kinds.add("nan")
                elif math.isinf(v):
                    kinds.add("inf")
    if ambiguous:
        ctx.count("unjudged.null.raw_inf_mapped_finite")
        ctx.case(False)
        return
    if len(complete) < 2:
        ctx.count("unjudged.null.lt2_complete")
        ctx.case(False)
        return
    fo = [Fraction(float(to[i])) for i in complete]
    fs = [Fraction(float(ts[i])) for i in complete]
    ro = [Fraction(float(obs[i])) for i in complete]
    deg = degenerate(sstats(fo)) or degenerate(sstats(ro))
    nullclass = "+".join(sorted(kinds)) if kinds else "none"
    exp = None
    if not deg:
        exp = expected_scores(fo, fs)
        exp["corr:Pearson"] = exp["pearson"]
        exp["corr:Spearman"] = pearson(avg_ranks(fo), avg_ranks(fs))
    calls = [("bias:standard", lambda: M.bias(recycle("o", xo), recycle("s", xs), T, excludenull=True, type="standard")),
             ("nse", lambda: M.nse(recycle("o", xo), recycle("s", xs), T, excludenull=True)),
             ("kge", lambda: M.kge(recycle("o", xo), recycle("s", xs), T, excludenull=True)),
             ("corr:Pearson", lambda: M.corr(recycle("o", xo), recycle("s", xs), T, excludenull=True, stat="mean", type="Pearson"))]
    if spearman:
        calls.append(("corr:Spearman", lambda: M.corr(recycle("o", xo), recycle("s", xs), T, excludenull=True, stat="mean", type="Spearman")))
    for score, f in calls:
        try:
            v = float(f())
        except Exception as e:
            if deg:
                ctx.case(False, outcome="raise")
                ctx.count("unjudged.degenerate_obs.raised")
            else:
                ctx.case(True, outcome="raise")
                ctx.violation("excludenull:%s:raised:%s:%s" % (score, type(e).__name__, nullclass), dict(case, score=score),
                              "%s(excludenull=True) raised %r with %d complete pairs" % (score, e, len(complete)))
            continue
        oc = v if not math.isnan(v) else "nan"
        if deg:
            ctx.case(False, outcome=oc)
            ctx.count("unjudged.degenerate_obs")
            continue
        e_ = exp[score]
        if e_ is None:
            ctx.case(False, outcome=oc)
            ctx.count("unjudged.undefined.%s" % score)
            continue
        ctx.case(True, outcome=oc)
        ctx.count("null.judged.%s" % nullclass)
        if not fclose(v, e_):
            ctx.violation("excludenull:%s:%s" % (score, nullclass), dict(case, score=score),
                          "%s(obs=%s, sim=%s, %s%s, excludenull=True) = %r; on the %d pairs complete after transformation "
                          "(positions %s) the textbook value is %.15g" % (score, encl(obs), encl(sim), tn, spec["kw"], v,
                                                                          len(complete), complete, float(e_)),
                          observed=enc(v), expected=float(e_))


# ---------------------------------------------------------------------------
# confusion matrix

def check_cm(ctx, M, obs, sim, ncat):
    kmin = max(max(obs), max(sim)) + 1
    union = set(obs) | set(sim)
    case = {"kind": "cm", "obs": list(obs), "sim": list(sim), "ncat": ncat}
    judged = True
    kx = ":ncat>6" if kmin > 6 else ""        # beyond the quantifier's 2..6 categories (size ladder)
    if ncat is None:
        size = kmin
        mode = "inferred"
        if union != set(range(kmin)) or kmin < 2:
            judged = False
    else:
        size = ncat
        mode = "exact" if ncat == kmin else "larger"
    try:
        if ncat is None:
            cm = M.confusion_matrix(recycle("co", np.array(obs)), recycle("cs", np.array(sim)))
        else:
            cm = M.confusion_matrix(recycle("co", np.array(obs)), recycle("cs", np.array(sim)), ncat=ncat)
        arr = np.array(cm, dtype=np.float64)
    except Exception as e:
        if not judged:
            ctx.case(False, outcome="raise")
            ctx.count("unjudged.cm.noncontiguous_inferred")
            return
        ctx.case(True, outcome="raise")
        ctx.violation("confusion_matrix:raised:%s:ncat-%s%s" % (type(e).__name__, mode, kx), case, "raised %r" % (e,))
        return
    if not judged:
        ctx.case(False, outcome=arr.tobytes())
        ctx.count("unjudged.cm.noncontiguous_inferred")
        return
    ctx.case(True, outcome=arr.tobytes() + bytes([size]))
    ao = set(range(size)) - set(obs)
    as_ = set(range(size)) - set(sim)
    absent = "both" if (ao and as_) else ("obs" if ao else ("sim" if as_ else "none"))
    ctx.count("cm.absent_%s" % absent)
    exp = [[0] * size for _ in range(size)]
    for o, s in zip(obs, sim):
        exp[o][s] += 1
    if arr.shape != (size, size):
        ctx.violation("confusion_matrix:shape:ncat-%s:absent-%s%s" % (mode, absent, kx), case,
                      "table shape %s, requested size (%d, %d)" % (arr.shape, size, size), observed=list(arr.shape), expected=[size, size])
        return
    if not np.array_equal(arr, np.array(exp, dtype=np.float64)):
        small = size <= 6
        ctx.violation("confusion_matrix:counts:ncat-%s:absent-%s%s" % (mode, absent, kx), case,
                      "counts %s, every (obs, sim) pair counted once gives %s" % (
                          arr.tolist() if small else "(%dx%d table, sum %r)" % (size, size, float(arr.sum())),
                          exp if small else "a table differing in %d cells" % int((arr != np.array(exp, dtype=np.float64)).sum())),
                      observed=arr.tolist() if small else None, expected=exp if small else None)
        return
    lab_ok = True
    try:
        lab_ok = list(cm.index) == list(range(size)) and list(cm.columns) == list(range(size))
    except Exception:
        lab_ok = True       # plain array: nothing to compare
    if not lab_ok:
        ctx.count("unjudged.cm.labels_not_0..ncat-1")


def cm_dev_cases(k, maxdev):
    base = list(range(k))
    sites = [(w, i, v) for w in (0, 1) for i in range(k) for v in range(k) if v != base[i]]
    combos = [()] + [(s,) for s in sites]
    if maxdev >= 2:
        combos += [c for c in itertools.combinations(sites, 2) if (c[0][0], c[0][1]) != (c[1][0], c[1][1])]
    for c in combos:
        ser = [list(base), list(base)]
        for w, i, v in c:
            ser[w][i] = v
        yield ser[0], ser[1]


def cm_ncats(obs, sim):
    kmin = max(max(obs), max(sim)) + 1
    return [None] + [k for k in (kmin, kmin + 1) if k >= 2]


# ---------------------------------------------------------------------------
# binary scores

BIN_NAMES = ["hitrate", "falsealarm", "precision", "accuracy", "bias", "F1", "MCC", "LOR", "ORSS"]


def check_binary(ctx, M, tn_, fp, fn, tp):
    m = mp()
    case = {"kind": "bin", "table": [[tn_, fp], [fn, tp]]}
    N = tn_ + fp + fn + tp
    theta = Fraction(tp * tn_, fp * fn)
    tcls = "theta<1" if theta < 1 else "theta>=1"
    size = ":n>=1e5" if N >= 100000 else ""
    ctx.count("bin.theta_lt1" if theta < 1 else ("bin.theta_eq1" if theta == 1 else "bin.theta_gt1"))
    try:
        scores, _ = M.binary([[tn_, fp], [fn, tp]])
    except Exception as e:
        ctx.case(True, outcome="raise")
        ctx.violation("binary:raised:%s:%s%s" % (type(e).__name__, tcls, size), case,
                      "binary(%s) raised %r" % (case["table"], e))
        return
    exp = {
        "hitrate": Fraction(tp, tp + fn), "falsealarm": Fraction(fp, fp + tn_),
        "precision": Fraction(tp, tp + fp), "accuracy": Fraction(tp + tn_, N),
        "bias": Fraction(tp + fp, tp + fn), "F1": Fraction(2 * tp, 2 * tp + fp + fn),
        "MCC": m.mpf(tp * tn_ - fp * fn) / m.sqrt(m.mpf((tp + fp) * (tp + fn) * (tn_ + fp) * (tn_ + fn))),
        "LOR": m.log(mpf(theta)),
        "ORSS": Fraction(tp * tn_ - fp * fn, tp * tn_ + fp * fn),
    }
    vals = []
    for name in BIN_NAMES:
        try:
            v = float(scores[name])
        except Exception as e:
            ctx.violation("binary:%s:missing" % name, case, "score %s not returned (%r)" % (name, e))
            continue
        vals.append(v)
        if not fclose(v, exp[name]):
            ctx.violation("binary:%s:%s%s" % (name, tcls, size) + (":nan" if math.isnan(v) else ""), case,
                          "binary(%s)[%s] = %r, contingency-table definition gives %.15g (odds ratio %s)" % (
                              case["table"], name, v, float(exp[name]), theta),
                          observed=enc(v), expected=float(exp[name]))
    for name, cell in (("truepos", tp), ("falsepos", fp), ("trueneg", tn_), ("falseneg", fn)):
        if name in scores and int(scores[name]) != cell:
            ctx.violation("binary:cells:%s" % name, case, "%s = %r, expected %d" % (name, scores[name], cell))
    ctx.case(True, outcome=np.array(vals).tobytes())



# ---------------------------------------------------------------------------
# size ladder: structured series, same oracle

def ladder_pair(kind, n, spec):
    """structured tie-rich (obs, sim) of length n >= 7 over the transform's shifted dyadic alphabet.
    gen     : obs[i] = a[(2i + i//7) % 5], sim[i] = a[(i + i//3) % 5], with distinct marker values at the first,
              middle and last position (no tail / head / block of the series can be dropped or repeated unnoticed)
    perfect : sim = obs (gen)
    int     : the same index patterns over an integer-valued alphabet (int64 layout applies)"""
    a = shifted(spec)
    if kind == "int":
        a = [-3.0, -2.0, -1.0, 1.0, 4.0] if spec["shift"] == 0.0 else [0.0, 1.0, 2.0, 4.0, 7.0]
    top = a[4]
    obs = [a[(2 * i + i // 7) % 5] for i in range(n)]
    sim = [a[(i + i // 3) % 5] for i in range(n)]
    obs[0], sim[0] = top + 4.0, a[3]
    obs[n // 2], sim[n // 2] = top + 2.0, top + 5.0
    obs[n - 1], sim[n - 1] = top + 8.0, top + 6.0
    if kind == "perfect":
        sim = list(obs)
    return obs, sim


def ladder_ens(n, spec, sim):
    a = shifted(spec)
    return [[sim[i], a[(3 * i + i // 5) % 5], a[(i // 2) % 5]] for i in range(n)]


def ladder_null(n, spec, obs, sim):
    """NaN / +-inf / out-of-domain values scattered in both series (>= 2 complete positions remain)"""
    o, s = list(obs), list(sim)
    o[1] = NAN
    o[n // 2] = NAN
    o[n - 2] = INF
    s[3] = NAN
    s[5] = -INF
    s[n - 1] = NAN             # the last pair is incomplete
    if spec["od"]:
        s[4] = spec["od"][0]
        o[n // 2 + 1] = spec["od"][-1]
    return o, s


def cm_ladder_pair(n, K, pattern):
    obs = [(7 * i + i // K) % K for i in range(n)]
    if pattern == 0:
        sim = [(obs[i] + (1 + i // 11 if i % 3 == 0 else 0)) % K for i in range(n)]
    else:
        sim = [min(K - 2, (5 * i + i // 4) % K) if K > 2 else (i // 3) % 2 for i in range(n)]     # top category absent from sim (K > 2)
    obs[n - 1], sim[n - 1] = K - 1, 0
    obs[0], sim[0] = 0, (K - 1 if pattern == 0 else max(0, K - 2))
    return obs, sim


# ---------------------------------------------------------------------------
# layout variants (differential against the float64 C-contiguous call)

def arr_layouts(vals):
    """[(name, object holding exactly the values of the 1-D float64 array)]"""
    import pandas as pd
    a = np.array(vals, dtype=np.float64)
    n = len(a)
    out = []
    fin = np.isfinite(a)
    with np.errstate(all="ignore"):
        f32 = a.astype(np.float32)
    if np.array_equal(f32.astype(np.float64), a, equal_nan=True):
        out.append(("float32", f32))
    if n and fin.all() and np.all(a == np.round(a)) and np.all(np.abs(a) < 2.0 ** 53):
        out.append(("int64", a.astype(np.int64)))
    big = np.full(2 * n + 1, 7.25)
    big[1::2] = a
    out.append(("strided", big[1::2]))
    rev = a[::-1].copy()
    out.append(("negative-stride", rev[::-1]))
    ro = a.copy()
    ro.flags.writeable = False
    out.append(("read-only", ro))
    out.append(("column-nx1", a.reshape(-1, 1).copy()))
    m2 = np.full((n, 3), -3.5)
    m2[:, 1] = a
    out.append(("column-view-nx1", m2[:, 1:2]))
    out.append(("pandas-series", pd.Series(a.copy())))
    out.append(("pandas-series-own-index", pd.Series(a.copy(), index=np.arange(n)[::-1] * 3 + 5)))
    out.append(("list", [float(v) for v in a]))
    return out


def ens_layouts(e2):
    import pandas as pd
    e2 = np.ascontiguousarray(e2, dtype=np.float64)
    n, p = e2.shape
    out = []
    with np.errstate(all="ignore"):
        f32 = e2.astype(np.float32)
    if np.array_equal(f32.astype(np.float64), e2, equal_nan=True):
        out.append(("ens-float32", f32))
    if np.isfinite(e2).all() and np.all(e2 == np.round(e2)):
        out.append(("ens-int64", e2.astype(np.int64)))
    out.append(("ens-fortran", np.asfortranarray(e2.copy())))
    big = np.full((n, 2 * p + 1), 7.25)
    big[:, 1::2] = e2
    out.append(("ens-strided-columns", big[:, 1::2]))
    bigr = np.full((2 * n + 1, p), -7.25)
    bigr[1::2, :] = e2
    out.append(("ens-strided-rows", bigr[1::2, :]))
    ro = e2.copy()
    ro.flags.writeable = False
    out.append(("ens-read-only", ro))
    out.append(("ens-dataframe", pd.DataFrame(e2.copy())))
    return out


def lclose(o, e, tol):
    o, e = float(o), float(e)
    if math.isnan(o) or math.isinf(o):
        return False
    return abs(o - e) <= tol * max(1.0, abs(e))


def check_det_layouts(ctx, M, spec, T, obs, sim):
    """bias / nse / kge of the same values in other layouts = the float64 C-contiguous result"""
    tn = tlabel(spec)
    case = {"kind": "detlayout", "trans": spec, "obs": encl(obs), "sim": encl(sim)}
    xo = np.array(obs, dtype=np.float64)
    xs = np.array(sim, dtype=np.float64)
    lo = arr_layouts(obs)
    ls = dict(arr_layouts(sim))
    pairs = [(name, arr, ls[name]) for name, arr in lo if name in ls]
    pairs += [("sim-only:" + name, xo.copy(), ls[name]) for name in ("float32", "int64") if name in ls]
    for score, fn, kw in det_calls(M):
        try:
            base = float(fn(xo.copy(), xs.copy(), T, **kw))
        except Exception:
            ctx.count("layout.base_raised")
            continue
        if math.isnan(base) or math.isinf(base):
            ctx.count("layout.base_not_finite")
            continue
        for name, ao, as_ in pairs:
            try:
                v = float(fn(ao, as_, T, **kw))
            except Exception:
                ctx.case(True, outcome="raise")
                ctx.count("layout.rejected.%s:%s" % (tn, name))
                continue
            ctx.case(True, outcome=v if not math.isnan(v) else "nan")
            ctx.count("layout.judged.%s" % name)
            tol = TOL32 if "float32" in name else TOL
            if not lclose(v, base, tol):
                ctx.violation("%s:%s:layout=%s" % (score, tn, name) + (":nan" if math.isnan(v) else ""), dict(case, score=score, layout=name),
                              "%s(%s%s) with the series given as %s (n=%d) = %r, the float64 C-contiguous call gives %r" % (
                                  score, tn, spec["kw"], name, len(obs), v, base), observed=enc(v), expected=base)


def check_corr_layouts(ctx, M, spec, T, obs, ens):
    tn = tlabel(spec)
    case = {"kind": "corrlayout", "trans": spec, "obs": encl(obs), "ens": [encl(r) for r in ens]}
    xo = np.array(obs, dtype=np.float64)
    e2 = np.array(ens, dtype=np.float64)
    p = e2.shape[1]
    if p == 1:
        earg = e2[:, 0].copy()
        evars = arr_layouts(list(earg))
    else:
        earg = e2
        evars = ens_layouts(e2)
    variants = [("obs:" + name, arr, earg.copy()) for name, arr in arr_layouts(obs)]
    variants += [(name, xo.copy(), arr) for name, arr in evars]
    for ctype, stat in CORR_VARIANTS:
        score = "corr:%s:%s" % (ctype, stat)
        try:
            base = float(M.corr(xo.copy(), earg.copy(), T, stat=stat, type=ctype))
        except Exception:
            ctx.count("layout.base_raised")
            continue
        if math.isnan(base):
            ctx.count("layout.base_not_finite")
            continue
        for name, ao, ae in variants:
            try:
                v = float(M.corr(ao, ae, T, stat=stat, type=ctype))
            except Exception:
                ctx.case(True, outcome="raise")
                ctx.count("layout.rejected.%s:%s" % (tn, name))
                continue
            ctx.case(True, outcome=v if not math.isnan(v) else "nan")
            ctx.count("layout.judged.%s" % name)
            if not lclose(v, base, TOL):
                ctx.violation("%s:%s:p=%d:layout=%s" % (score, tn, p, name) + (":nan" if math.isnan(v) else ""), dict(case, score=score, layout=name),
                              "corr(%s%s, stat=%s, type=%s) with %s (n=%d, p=%d) = %r, the float64 C-contiguous call gives %r" % (
                                  tn, spec["kw"], stat, ctype, name, len(obs), p, v, base), observed=enc(v), expected=base)


def cat_layouts(vals, K):
    import pandas as pd
    a = np.array(vals, dtype=np.int64)
    n = len(a)
    out = [("int32", a.astype(np.int32)), ("float64", a.astype(np.float64)), ("float32", a.astype(np.float32)),
           ("int16", a.astype(np.int16))]
    if K <= 127:
        out.append(("int8", a.astype(np.int8)))
    if K <= 255:
        out.append(("uint8", a.astype(np.uint8)))
    if K <= 2:
        out.append(("bool", a.astype(bool)))
    big = np.full(2 * n + 1, 1, dtype=np.int64)
    big[1::2] = a
    out.append(("strided", big[1::2]))
    ro = a.copy()
    ro.flags.writeable = False
    out.append(("read-only", ro))
    out.append(("pandas-series", pd.Series(a.copy())))
    out.append(("pandas-series-own-index", pd.Series(a.copy(), index=np.arange(n)[::-1] * 3 + 5)))
    return out


def check_cm_layouts(ctx, M, obs, sim, ncat):
    K = max(max(obs), max(sim)) + 1
    case = {"kind": "cmlayout", "obs": list(obs), "sim": list(sim), "ncat": ncat}
    kw = {} if ncat is None else {"ncat": ncat}
    try:
        base = np.array(M.confusion_matrix(np.array(obs), np.array(sim), **kw), dtype=np.float64)
    except Exception:
        ctx.count("layout.base_raised")
        return
    ls = dict(cat_layouts(sim, K))
    for name, ao in cat_layouts(obs, K):
        try:
            r = np.array(M.confusion_matrix(ao, ls[name], **kw), dtype=np.float64)
        except Exception:
            ctx.case(True, outcome="raise")
            ctx.count("layout.rejected.cm:%s" % name)
            continue
        ctx.case(True, outcome=r.tobytes())
        ctx.count("layout.judged.cm:%s" % name)
        if r.shape != base.shape or not np.array_equal(r, base):
            ctx.violation("confusion_matrix:layout=%s" % name, dict(case, layout=name),
                          "category series given as %s (n=%d, %d categories, ncat=%r): table %s, with int64 arrays %s" % (
                              name, len(obs), K, ncat, r.tolist() if r.size <= 36 else "shape %s sum %r" % (r.shape, float(r.sum())),
                              base.tolist() if base.size <= 36 else "shape %s sum %r" % (base.shape, float(base.sum()))),
                          observed=r.tolist() if r.size <= 36 else None, expected=base.tolist() if base.size <= 36 else None)


def check_binary_layouts(ctx, M, tn_, fp, fn, tp):
    import pandas as pd
    table = [[tn_, fp], [fn, tp]]
    case = {"kind": "binlayout", "table": table}
    try:
        base, _ = M.binary(table)
    except Exception:
        ctx.count("layout.base_raised")
        return
    a = np.array(table, dtype=np.int64)
    big = np.full((4, 4), 5, dtype=np.int64)
    big[::2, ::2] = a
    variants = [("int64-array", a.copy()), ("fortran", np.asfortranarray(a.copy())), ("float64", a.astype(np.float64)),
                ("int32", a.astype(np.int32)), ("strided", big[::2, ::2]), ("dataframe", pd.DataFrame(a.copy()))]
    for name, arg in variants:
        if name == "int32" and a.max() >= 2 ** 31:
            continue
        try:
            sc, _ = M.binary(arg)
        except Exception:
            ctx.case(True, outcome="raise")
            ctx.count("layout.rejected.binary:%s" % name)
            continue
        ctx.case(True)
        ctx.count("layout.judged.binary:%s" % name)
        for nm in BIN_NAMES:
            b, v = float(base[nm]), float(sc[nm])
            if not (lclose(v, b, TOL) or (math.isnan(b) and math.isnan(v))):
                ctx.violation("binary:%s:layout=%s" % (nm, name), dict(case, layout=name),
                              "binary(table as %s)[%s] = %r, with a nested list %r" % (name, nm, v, b), observed=enc(v), expected=enc(b))
                break


def run_ladder_unit(unit, ctx, M):
    spec = TRANS[unit["t"]]
    T = build_trans(spec)
    first = True
    for n in unit["ns"]:
        ctx.count("ladder.n=%d" % n)
        # quick tier: the full set of cases at one length per group (2^k + 1, 100, 501, 1001); at the other lengths the
        # general pair (all det scores, both excludenull, layouts), the single-member correlation and the null case
        rich = unit.get("full", False) or n in LADDER_RICH
        for kind in (("gen", "perfect", "int") if rich else ("gen",)):
            obs, sim = ladder_pair(kind, n, spec)
            io, is_ = info_of(T, obs), info_of(T, sim)
            if first:
                ctx.case(False, n=0, sample={"kind": "ladder", "trans": spec, "n": n, "obs[:12]": encl(obs[:12]), "sim[:12]": encl(sim[:12])})
                first = False
            ctx.count("ladder.det_pairs")
            check_det(ctx, M, spec, T, io, is_, kind == "gen")
            if kind != "perfect":
                check_det_layouts(ctx, M, spec, T, obs, sim)
            if kind == "gen":
                if rich:
                    check_meansim(ctx, M, spec, T, io)
                    if spec["name"] == "Identity":
                        check_invariance(ctx, M, spec, T, io, is_)
                # corr: single member and (rich) 3 members
                enss = [[[v] for v in sim]]
                if rich:
                    enss.append(ladder_ens(n, spec, sim))
                for ens in enss:
                    ctx.count("ladder.corr_cases")
                    # Spearman of the mean of several members needs exact float means (rows holding the same members in
                    # another order must tie, as they do in the Fraction oracle): Identity over dyadic letters only
                    exactmeans = spec["name"] == "Identity" or len(ens[0]) == 1
                    check_corr(ctx, M, spec, T, io, ens,
                               variants=CORR_VARIANTS if exactmeans else [v for v in CORR_VARIANTS if v != ("Spearman", "mean")])
                    if rich:
                        check_corr_layouts(ctx, M, spec, T, obs, ens)
                # excludenull with scattered null values
                on, sn = ladder_null(n, spec, obs, sim)
                ctx.count("ladder.null_cases")
                check_null(ctx, M, spec, T, on, sn, True)
            if kind == "int":
                ctx.count("ladder.corr_cases")
                check_corr(ctx, M, spec, T, io, [[v] for v in sim])
                check_corr_layouts(ctx, M, spec, T, obs, [[v, v + 1.0, float(i % 3)] for i, v in enumerate(sim)])


def run_cmladder_unit(unit, ctx, M):
    first = True
    for n in unit["ns"]:
        for K in unit["ks"]:
            if n < LADDER_K_MIN_N.get(K, 0):
                continue
            for pattern in (0, 1):
                obs, sim = cm_ladder_pair(n, K, pattern)
                for ncat in cm_ncats(obs, sim):
                    if first:
                        ctx.case(False, n=0, sample={"kind": "cmladder", "n": n, "K": K, "pattern": pattern, "ncat": ncat,
                                                      "obs[:12]": obs[:12], "sim[:12]": sim[:12]})
                        first = False
                    ctx.count("ladder.cm_cases")
                    ctx.count("ladder.cm.K=%d" % K)
                    check_cm(ctx, M, obs, sim, ncat)
                    rich = unit.get("full", False) or n in LADDER_RICH
                    if (ncat == K and (K <= 6 or rich)) or (ncat is None and K <= 6 and rich):
                        check_cm_layouts(ctx, M, obs, sim, ncat)

# ---------------------------------------------------------------------------
# units

def shifted(spec, idx=None):
    a = [v + spec["shift"] for v in A5]
    if idx is not None:
        a = [a[i] for i in idx]
    return a


def null_letters(spec, tier, ti):
    """(finite letters, null letters) of the null part"""
    a = shifted(spec)
    if tier == "quick" and ti != 0:
        fin = [a[1], a[3]]
        nul = [NAN, INF] + list(spec["od"])
        if not spec["od"]:
            nul.append(-INF)
    else:
        fin = [a[1], a[3], a[4]]
        nul = [NAN, INF, -INF] + list(spec["od"])
    return fin, nul


def units(tier, seed):
    us = []
    tl = translist(seed)
    quick = (tier == "quick")
    for ti, spec in enumerate(tl):
        ident = (ti == 0)
        # ---- det
        us.append({"kind": "det", "t": ti, "n": 2, "idx": None, "prefix": [], "ex": True, "inv": ident})
        if quick:
            idx = None if ident else SUB4
            for a in range(5 if ident else 4):
                us.append({"kind": "det", "t": ti, "n": 3, "idx": idx, "prefix": [a], "ex": False, "inv": ident})
        else:
            for a in range(5):
                us.append({"kind": "det", "t": ti, "n": 3, "idx": None, "prefix": [a], "ex": True, "inv": ident})
            if ident:
                for a in range(5):
                    for b in range(5):
                        us.append({"kind": "det", "t": ti, "n": 4, "idx": None, "prefix": [a, b], "ex": False, "inv": False})
            else:
                for a in range(4):
                    for b in range(4):
                        us.append({"kind": "det", "t": ti, "n": 4, "idx": SUB4, "prefix": [a, b], "ex": False, "inv": False})
        # ---- corr, p = 1
        us.append({"kind": "corr", "t": ti, "n": 2, "p": 1, "oidx": None, "eidx": None, "prefix": []})
        if ident or not quick:
            for a in range(5):
                us.append({"kind": "corr", "t": ti, "n": 3, "p": 1, "oidx": None, "eidx": None, "prefix": [a]})
        else:
            us.append({"kind": "corr", "t": ti, "n": 3, "p": 1, "oidx": SUB3, "eidx": SUB3, "prefix": []})
        if ident and not quick:
            for a in range(4):
                for b in range(4):
                    us.append({"kind": "corr", "t": ti, "n": 4, "p": 1, "oidx": SUB4, "eidx": SUB4, "prefix": [a, b]})
        # ---- corr, p = 2, 3
        if ident or ti == 1 or not quick:
            for a in range(5):
                us.append({"kind": "corr", "t": ti, "n": 2, "p": 2, "oidx": None, "eidx": SUB3, "prefix": [a]})
        if ident:
            if quick:
                for a in range(5):
                    us.append({"kind": "corr", "t": ti, "n": 2, "p": 3, "oidx": None, "eidx": SUB2, "prefix": [a]})
            else:
                for a in range(5):
                    for b in range(5):
                        us.append({"kind": "corr", "t": ti, "n": 2, "p": 3, "oidx": None, "eidx": SUB3, "prefix": [a, b]})
                for a in range(3):
                    for b in range(3):
                        us.append({"kind": "corr", "t": ti, "n": 3, "p": 2, "oidx": SUB3, "eidx": SUB3, "prefix": [a, b]})
        # ---- corr with missing ensemble members (n=3, p=3, one NaN member; thorough: also two)
        if not quick or ti in (1, 4):
            for a in range(3):
                us.append({"kind": "corrnan", "t": ti, "n": 3, "p": 3, "oidx": SUB3, "eidx": SUB2, "prefix": [a], "tier": tier})
        # ---- null
        fin, nul = null_letters(spec, tier, ti)
        nl = len(fin) + len(nul)
        sp = ident or not quick
        for a in range(nl):
            if quick:
                us.append({"kind": "null", "t": ti, "n": 3, "tier": tier, "prefix": [a], "minok": 2, "spearman": sp})
            else:
                for b in range(nl):
                    us.append({"kind": "null", "t": ti, "n": 3, "tier": tier, "prefix": [a, b], "minok": 2, "spearman": sp})
        if ident and not quick:
            for a in range(nl):
                for b in range(nl):
                    us.append({"kind": "null", "t": ti, "n": 4, "tier": tier, "prefix": [a, b], "minok": 3, "spearman": True})
    # ---- confusion matrix
    l2, l3 = (4, 3) if quick else (6, 4)
    for n in range(1, l2 + 1):
        if n <= 4:
            us.append({"kind": "cm", "K": 2, "n": n, "prefix": []})
        else:
            for pre in itertools.product(range(2), repeat=n - 3):
                us.append({"kind": "cm", "K": 2, "n": n, "prefix": list(pre)})
    for n in range(1, l3 + 1):
        if n <= 2:
            us.append({"kind": "cm", "K": 3, "n": n, "prefix": []})
        else:
            for pre in itertools.product(range(3), repeat=1 if n == 3 else n - 1):
                us.append({"kind": "cm", "K": 3, "n": n, "prefix": list(pre)})
    for k in (4, 5, 6):
        if quick:
            us.append({"kind": "cmdev", "k": k, "maxdev": 1, "part": 0, "nparts": 1})
        else:
            npart = {4: 2, 5: 6, 6: 12}[k]
            for p in range(npart):
                us.append({"kind": "cmdev", "k": k, "maxdev": 2, "part": p, "nparts": npart})
    # ---- binary
    hi = 6 if quick else 9
    for v in range(1, hi + 1):
        us.append({"kind": "bin", "vals": list(range(1, hi + 1)), "tn": v})
    big = 60000 + 7 * seed
    large = [1, 3, 1000, big] if quick else [1, 2, 7, 1000, big, 10 ** 7]
    for v in large:
        us.append({"kind": "bin", "vals": large, "tn": v})
    # ---- size ladder around powers of two (thresholds of blocked / fast paths), chunks of similar cost
    lad = LADDER_Q if quick else LADDER_T
    chunks, chunk, acc = [], [], 0
    for n in lad:
        chunk.append(n)
        acc += n + 150
        if acc >= 2400:
            chunks.append(chunk)
            chunk, acc = [], 0
    if chunk:
        chunks.append(chunk)
    for ti in LADDER_TRANS:
        for ch in chunks:
            us.append({"kind": "ladder", "t": ti, "ns": ch, "full": not quick})
    for ch in chunks:
        us.append({"kind": "cmladder", "ns": ch, "ks": [k for k in LADDER_K if k <= 6], "full": not quick})
        us.append({"kind": "cmladder", "ns": ch, "ks": [k for k in LADDER_K if k > 6], "full": not quick})
    return us


# ---------------------------------------------------------------------------
# unit runners

def series_with_prefix(alpha, n, prefix):
    pre = tuple(alpha[i] for i in prefix)
    for rest in itertools.product(alpha, repeat=n - len(prefix)):
        yield pre + rest


def run_det_unit(unit, ctx, M, tl):
    spec = tl[unit["t"]]
    T = build_trans(spec)
    alpha = shifted(spec, unit["idx"])
    n = unit["n"]
    sims = [info_of(T, s) for s in itertools.product(alpha, repeat=n)]
    first = True
    laid = False
    for o in series_with_prefix(alpha, n, unit["prefix"]):
        io = info_of(T, o)
        for is_ in sims:
            if first:
                ctx.case(False, n=0, sample={"kind": "det", "trans": spec, "obs": encl(io.vals), "sim": encl(is_.vals), "ex": unit["ex"]})
                first = False
            check_det(ctx, M, spec, T, io, is_, unit["ex"])
            if not laid and io.ok and is_.ok and not (degenerate(io.st) or degenerate(io.straw)) and io.vals != is_.vals:
                check_det_layouts(ctx, M, spec, T, io.vals, is_.vals)       # first judged, imperfect pair of the unit
                laid = True
            if unit["inv"]:
                check_invariance(ctx, M, spec, T, io, is_)
        check_meansim(ctx, M, spec, T, io)


def run_corr_unit(unit, ctx, M, tl):
    spec = tl[unit["t"]]
    T = build_trans(spec)
    n, p = unit["n"], unit["p"]
    oalpha = shifted(spec, unit["oidx"])
    ealpha = shifted(spec, unit["eidx"])
    enss = [[list(flat[i * p:(i + 1) * p]) for i in range(n)] for flat in itertools.product(ealpha, repeat=n * p)]
    first = True
    laid = False
    for o in series_with_prefix(oalpha, n, unit["prefix"]):
        io = info_of(T, o)
        for ens in enss:
            if first:
                ctx.case(False, n=0, sample={"kind": "corr", "trans": spec, "obs": encl(io.vals), "ens": ens})
                first = False
            check_corr(ctx, M, spec, T, io, ens)
            if not laid and io.ok and not (degenerate(io.st) or degenerate(io.straw)) and len(set(tuple(r) for r in ens)) > 1:
                check_corr_layouts(ctx, M, spec, T, io.vals, ens)            # first judged case with a non-constant ensemble
                laid = True


def run_corrnan_unit(unit, ctx, M, tl):
    spec = tl[unit["t"]]
    T = build_trans(spec)
    n, p = unit["n"], unit["p"]
    oalpha = shifted(spec, unit["oidx"])
    ealpha = shifted(spec, unit["eidx"])
    quick = unit["tier"] == "quick"
    pos1 = [(0, 0), (1, 1)] if quick else [(i, j) for i in range(n) for j in range(p)]
    holes = [[h] for h in pos1]
    if not quick:
        holes += [[a, b] for a in pos1 for b in pos1 if a < b and a[0] != b[0]]
    first = True
    for o in series_with_prefix(oalpha, n, unit["prefix"]):
        io = info_of(T, o)
        for flat in itertools.product(ealpha, repeat=n * p):
            base = [list(flat[i * p:(i + 1) * p]) for i in range(n)]
            for hs in holes:
                ens = [list(r) for r in base]
                for (i, j) in hs:
                    ens[i][j] = None
                if first:
                    ctx.case(False, n=0, sample={"kind": "corr", "trans": spec, "obs": encl(io.vals), "ens": ens})
                    first = False
                check_corr(ctx, M, spec, T, io, ens)
                if spec["name"] in ("Log", "BoxCox2", "Reciprocal") and len(hs) == 1:
                    # the same hole made by a member outside the domain of the transform (no NaN in the raw ensemble)
                    ens2 = [list(r) for r in base]
                    for (i, j) in hs:
                        ens2[i][j] = -float(spec["kw"].get("nu", 0.0)) - 1.5
                    ctx.count("corr.ensembles_with_member_outside_transform_domain")
                    check_corr(ctx, M, spec, T, io, ens2)


def run_null_unit(unit, ctx, M, tl):
    ti = unit["t"]
    spec = tl[ti]
    T = build_trans(spec)
    fin, nul = null_letters(spec, unit["tier"], ti)
    letters = fin + nul
    isfin = [True] * len(fin) + [False] * len(nul)
    n, minok = unit["n"], unit["minok"]
    idxs = list(range(len(letters)))
    first = True
    pre = tuple(unit["prefix"])
    for rest in itertools.product(idxs, repeat=n - len(pre)):
        oi = pre + rest
        ofin = [isfin[i] for i in oi]
        if sum(ofin) < minok:
            continue
        for si in itertools.product(idxs, repeat=n):
            nok = 0
            for a, b in zip(ofin, si):
                if a and isfin[b]:
                    nok += 1
            if nok < minok:
                continue
            obs = [letters[i] for i in oi]
            sim = [letters[i] for i in si]
            if first:
                ctx.case(False, n=0, sample={"kind": "null", "trans": spec, "obs": encl(obs), "sim": encl(sim), "spearman": unit["spearman"]})
                first = False
            check_null(ctx, M, spec, T, obs, sim, unit["spearman"])


def run_cm_unit(unit, ctx, M):
    K, n = unit["K"], unit["n"]
    alpha = list(range(K))
    first = True
    for o in series_with_prefix(alpha, n, unit["prefix"]):
        for s in itertools.product(alpha, repeat=n):
            if K == 3 and max(max(o), max(s)) < 2:
                continue            # belongs to the K = 2 space
            for ncat in cm_ncats(o, s):
                if first:
                    ctx.case(False, n=0, sample={"kind": "cm", "obs": list(o), "sim": list(s), "ncat": ncat})
                    first = False
                    check_cm_layouts(ctx, M, list(o), list(s), ncat)
                check_cm(ctx, M, list(o), list(s), ncat)


def run_cmdev_unit(unit, ctx, M):
    first = True
    for i, (o, s) in enumerate(cm_dev_cases(unit["k"], unit["maxdev"])):
        if i % unit["nparts"] != unit["part"]:
            continue
        for ncat in cm_ncats(o, s):
            if first:
                ctx.case(False, n=0, sample={"kind": "cm", "obs": o, "sim": s, "ncat": ncat})
                first = False
                check_cm_layouts(ctx, M, o, s, ncat)
            check_cm(ctx, M, o, s, ncat)


def run_bin_unit(unit, ctx, M):
    vals = unit["vals"]
    tn_ = unit["tn"]
    first = True
    for fp in vals:
        for fn in vals:
            for tp in vals:
                if first:
                    ctx.case(False, n=0, sample={"kind": "bin", "table": [[tn_, fp], [fn, tp]]})
                    first = False
                    check_binary_layouts(ctx, M, tn_, fp, fn, tp)
                check_binary(ctx, M, tn_, fp, fn, tp)


def run_unit(unit, ctx):
    from hydrodiy.stat import metrics as M
    import os
    try:
        seed = int(os.environ.get("VERIF_SEED", "0"))
    except ValueError:
        seed = 0
    tl = translist(seed)
    k = unit["kind"]
    if k == "det":
        run_det_unit(unit, ctx, M, tl)
    elif k == "corr":
        run_corr_unit(unit, ctx, M, tl)
    elif k == "corrnan":
        run_corrnan_unit(unit, ctx, M, tl)
    elif k == "null":
        run_null_unit(unit, ctx, M, tl)
    elif k == "cm":
        run_cm_unit(unit, ctx, M)
    elif k == "cmdev":
        run_cmdev_unit(unit, ctx, M)
    elif k == "bin":
        run_bin_unit(unit, ctx, M)
    elif k == "ladder":
        run_ladder_unit(unit, ctx, M)
    elif k == "cmladder":
        run_cmladder_unit(unit, ctx, M)
    else:
        raise ValueError("unknown unit kind %r" % k)


# ---------------------------------------------------------------------------
# replay

def replay(case):
    from mc.explore import Result
    from hydrodiy.stat import metrics as M
    import warnings
    warnings.simplefilter("ignore")
    np.seterr(all="ignore")
    ctx = Result()
    k = case["kind"]
    if k in ("det", "meansim", "inv"):
        spec = case["trans"]
        T = build_trans(spec)
        if k == "inv":
            io = info_of(T, [dec(v) for v in case["obs0"]])
            is_ = info_of(T, [dec(v) for v in case["sim0"]])
            check_invariance(ctx, M, spec, T, io, is_)
        elif k == "meansim":
            check_meansim(ctx, M, spec, T, info_of(T, [dec(v) for v in case["obs"]]))
        else:
            io = info_of(T, [dec(v) for v in case["obs"]])
            is_ = info_of(T, [dec(v) for v in case["sim"]])
            check_det(ctx, M, spec, T, io, is_, case.get("ex", False))
    elif k == "corr":
        spec = case["trans"]
        T = build_trans(spec)
        io = info_of(T, [dec(v) for v in case["obs"]])
        check_corr(ctx, M, spec, T, io, [[dec(v) for v in r] for r in case["ens"]])
    elif k == "null":
        spec = case["trans"]
        T = build_trans(spec)
        check_null(ctx, M, spec, T, [dec(v) for v in case["obs"]], [dec(v) for v in case["sim"]],
                   case.get("spearman", True))
    elif k == "cm":
        check_cm(ctx, M, case["obs"], case["sim"], case["ncat"])
    elif k == "detlayout":
        spec = case["trans"]
        check_det_layouts(ctx, M, spec, build_trans(spec), [dec(v) for v in case["obs"]], [dec(v) for v in case["sim"]])
    elif k == "corrlayout":
        spec = case["trans"]
        check_corr_layouts(ctx, M, spec, build_trans(spec), [dec(v) for v in case["obs"]], [[dec(v) for v in r] for r in case["ens"]])
    elif k == "cmlayout":
        check_cm_layouts(ctx, M, case["obs"], case["sim"], case["ncat"])
    elif k == "binlayout":
        (tn_, fp), (fn, tp) = case["table"]
        check_binary_layouts(ctx, M, tn_, fp, fn, tp)
    elif k == "bin":
        (tn_, fp), (fn, tp) = case["table"]
        check_binary(ctx, M, tn_, fp, fn, tp)
    else:
        raise ValueError("unknown case kind %r" % k)
    return [v for lst in ctx.violations.values() for v in lst]
