"""C17 - armodel_sim / armodel_residual.

Space: (order, coefficient vector) x (sim_mean, sim_ini) x series, each tuple run through
  A  y = sim(phi, e)                vs the AR recursion in Fractions (NaN innovation = 0)
  B  residual(phi, sim(phi, e))     = e with NaN -> 0            (same mean / ini)
  C  r = residual(phi, x)           vs the inverse recursion in Fractions; 0 at NaN inputs
  D  sim(phi, residual(phi, x))     = x at the non-NaN positions (same mean / ini)
plus long seed-rotated series (mpmath reference) and the rejected calls
(order 0 / 11 / 12, NaN coefficient at every position, NaN mean, NaN initial value),
a series-length ladder around powers of two (orders 1, 2, 5, 10, same Fraction recursion)
and input-layout variants of params / innov / inputs (differential against the float64
C-contiguous call).
"""
import itertools, math
from fractions import Fraction
import numpy as np
from mc.explore import recycle

ID = "C17"
# computational entry points whose results are watched by the engine's retained-result oracle (mc/explore.py)
RETAIN = [('hydrodiy.stat.armodels', 'armodel_sim'), ('hydrodiy.stat.armodels', 'armodel_residual')]
RULE = ("nested enumeration, each tuple once: order 1..10 x coefficient vector over {-0.5,0,0.25,0.5} (all vectors "
        "for order <= 3, all vectors with <= 2 non-zero lags at any position for order 4..10; sum|phi| <= 1.5) x "
        "(sim_mean, sim_ini) over {default/None,-2,0,1.5}^2 (a stated subset for order >= 4) x series over "
        "{-1,0,0.5,2,NaN} (all series up to a length, then all series within <= k deviations of a zero base and of a "
        "NaN-free ramp base at lengths 5, 6, 12, 23). Each tuple = four calls on the real functions: sim vs the "
        "Fraction recursion; residual(sim(e)) = e; residual vs the Fraction inverse recursion (0 at NaN inputs); "
        "sim(residual(x)) = x off the NaN positions. Long series (2000/5000, seed-rotated values, dense coefficients "
        "with sum|phi| < 1) against a 50-digit mpmath recursion. Every rejected call (order 0/11/12, NaN coefficient "
        "at each position of each order, NaN mean, NaN ini) for both functions. Size ladder: orders 1, 2, 5, 10 x 2 coefficient "
        "vectors (dense 2^-k with mixed signs; only the highest lag = +-0.75) x 2 (mean, ini) x 3 structured series (dyadic "
        "with NaN in the first steps / middle / end; integer-valued; values with pseudo-random low-order bits that a float32 intermediate would lose) x every length of "
        "7,8,9,...,1023,1024,1025 (thorough: ..4097 and 10001), the same four calls against the same Fraction recursion "
        "(mpmath beyond 4097). Layout variants (every ladder tuple, the first tuple of every grid/long unit): the same "
        "values as float32 / int64 (when exactly representable) / strided / negative-stride / 2-D column / read-only "
        "series and float32 / int64 / strided / read-only / list parameter vectors must give the result of the float64 "
        "C-contiguous call. Non-trivial = series length >= 1 and "
        "(ini != mean or some value != 0), i.e. the lag buffer carries information. Distinct by construction.")
ASSUMPTIONS = [
    "dyadic alphabets: the Fraction recursion is exact, the float kernels are exact or within a few ulp; tolerance 1e-9 x max(1, largest |expected value| of the series)",
    "terms with a zero coefficient are skipped in the reference (exactly zero for finite values)",
    "residual for series containing NaN: the property demands 0 at the NaN positions and sim(residual(y)) = y elsewhere; together with a correct sim this determines the residual at every position (NaN input = its AR prediction), which is what the reference computes",
    "residual with sim_mean=None uses the mean of the non-NaN inputs (docstring); all-NaN or empty input with sim_mean=None is executed but not judged",
    "the round trips use the same explicit mean and initial value on both sides; length 0 only with an explicit mean",
    "rejection = any exception; +-inf coefficients/values, 2-D inputs and non-float dtypes are outside the property text and not enumerated",
    "c_hydrodiy_stat is rebuilt from the working tree c_armodels.c; the Cython wrapper C file is not re-translated",
    "size ladder: the Fraction recursion stays exact for every float64 input (denominators grow by <= 10 bits a step), lengths <= 4097; length 10001 uses the 50-digit mpmath recursion; tolerance unchanged (1e-9 x scale: sum|phi| < 1 so rounding noise does not grow with n, observed < 1e-15)",
    "layout variants hold the same values (float32 / int64 only when every value converts exactly); a layout rejected with a Python exception is accepted and counted; the result must agree with the float64 C-contiguous call within the check's tolerance (observed: bitwise equal). Exception: float32 inputs with sim_mean=None, where numpy.nanmean is evaluated in float32 (documented numpy behaviour, relative error <= 6e-8): tolerance 1e-5 x scale there",
]
TECHNIQUE = "bounded exhaustive enumeration on the real kernels vs an exact Fraction (short) / 50-digit mpmath (long) AR recursion, plus inverse-direction relations"

TOL = 1e-9
NAN = float("nan")
COEF = [-0.5, 0.0, 0.25, 0.5]
MI = [None, -2.0, 0.0, 1.5]
VALS = [-1.0, 0.0, 0.5, 2.0, NAN]
FIN = [-1.0, 0.0, 0.5, 2.0]

MI_ALL = [(m, i) for m in MI for i in MI]
MI_Q2 = [(None, None), (1.5, -2.0)]
MI_T6 = [(None, None), (1.5, -2.0), (-2.0, None), (None, 1.5), (0.0, -2.0), (-2.0, 1.5)]
MISETS = {"all": MI_ALL, "q2": MI_Q2, "t6": MI_T6}

LADDER_Q = [7, 8, 9, 15, 16, 17, 31, 32, 33, 63, 64, 65, 100, 127, 128, 129, 255, 256, 257, 500, 501, 511, 512, 513,
            1000, 1001, 1023, 1024, 1025]
# dense range: every size (a defect may sit at one particular size, e.g. exactly 73 members)
LADDER_Q = sorted(set(LADDER_Q) | set(range(7, 131)))
LADDER_T = LADDER_Q + [2047, 2048, 2049, 4095, 4096, 4097, 10001]
LADDER_T = sorted(set(LADDER_T) | set(range(7, 301)))
LADDER_ORDERS = [1, 2, 5, 10]
LADDER_EXACT_MAX = 4097          # beyond: 50-digit mpmath recursion
LADDER_SERIES = ["dy", "int", "fine"]


def bound_text(tier, seed):
    if tier == "quick":
        return ("order 1-2: all 20 coefficient vectors x 16 (mean, ini) x all series of length 0..4 (781); order 3: all 64 vectors x 16 x "
                "all series of length 0..3; order 4..10: all 1603 vectors with <= 2 non-zero lags x 2 (mean, ini) x length-12 series within "
                "1 deviation of a zero and of a ramp base (98); long series length 2000 for every order (seed %d); 96 rejected argument sets x 3 series lengths, scalar-parameter form; "
                "size ladder: orders 1,2,5,10 x 2 coefficient vectors x 2 (mean, ini) x 3 structured series x 29 lengths 7..1025 around powers of two (and 100, 500, 501, 1000, 1001); "
                "11 layout variants of the arguments on every ladder tuple and on the first tuple of every unit" % seed)
    return ("order 1-3: all 84 coefficient vectors x 16 (mean, ini) x [all series of length 0..4, length 5 and 6 within 2 deviations of two "
            "bases]; order 4..10: all 1603 vectors with <= 2 non-zero lags x 6 (mean, ini) x [all series of length 0..2, length 6 within 1 "
            "deviation, length 12 within 2 deviations of the zero base and 1 of the ramp base, length 23 within 1 deviation of both]; long "
            "series length 2000 and 5000 for every order (seed %d); 96 rejected argument sets x 3 series lengths, scalar-parameter form; "
            "size ladder: orders 1,2,5,10 x 2 coefficient vectors x 2 (mean, ini) x 3 structured series x 36 lengths 7..4097 around powers of two and 10001; "
            "11 layout variants of the arguments on every ladder tuple and on the first tuple of every unit" % seed)


# ---------------------------------------------------------------------------
# finite spaces

def coef_vectors(order):
    if order <= 3:
        out = [list(v) for v in itertools.product(COEF, repeat=order)]
    else:
        nz = [c for c in COEF if c != 0.0]
        out = [[0.0] * order]
        for i in range(order):
            for a in nz:
                v = [0.0] * order
                v[i] = a
                out.append(v)
        for i, j in itertools.combinations(range(order), 2):
            for a in nz:
                for b in nz:
                    v = [0.0] * order
                    v[i], v[j] = a, b
                    out.append(v)
    return [v for v in out if sum(abs(c) for c in v) <= 1.5]


def base_series(L, base):
    if base == "zero":
        return [0.0] * L
    return [FIN[(3 * i + 2) % 4] for i in range(L)]       # 0.5, 0, 2, -1, ... NaN-free, no period <= 3


def same(a, b):
    return (a == b) or (a != a and b != b)


def dev_series(L, base, maxdev):
    b = base_series(L, base)
    sites = [(i, v) for i in range(L) for v in VALS if not same(v, b[i])]
    yield list(b)
    for s in sites:
        x = list(b)
        x[s[0]] = s[1]
        yield x
    if maxdev >= 2:
        for s, t in itertools.combinations(sites, 2):
            if s[0] == t[0]:
                continue
            x = list(b)
            x[s[0]] = s[1]
            x[t[0]] = t[1]
            yield x


def series_set(name):
    """-> generator of series for a named set"""
    kind = name[0]
    if kind == "short":
        for L in range(name[1], name[2] + 1):
            for x in itertools.product(VALS, repeat=L):
                yield list(x)
    else:
        _, L, base, maxdev = name
        for x in dev_series(L, base, maxdev):
            yield x


SERIES_SETS = {
    "q12": [("short", 0, 4)],
    "q3": [("short", 0, 3)],
    "qhi": [("dev", 12, "zero", 1), ("dev", 12, "ramp", 1)],
    "t13": [("short", 0, 4), ("dev", 5, "zero", 2), ("dev", 5, "ramp", 2), ("dev", 6, "zero", 2), ("dev", 6, "ramp", 2)],
    "thi": [("short", 0, 2), ("dev", 6, "zero", 1), ("dev", 6, "ramp", 1), ("dev", 12, "zero", 2), ("dev", 12, "ramp", 1),
            ("dev", 23, "zero", 1), ("dev", 23, "ramp", 1)],
}


def units(tier, seed):
    us = []
    quick = tier == "quick"

    def add(order, sset, miset, chunk):
        n = len(coef_vectors(order))
        for lo in range(0, n, chunk):
            us.append({"kind": "grid", "order": order, "lo": lo, "hi": min(n, lo + chunk), "series": sset, "mi": miset})
    if quick:
        add(1, "q12", "all", 2)
        add(2, "q12", "all", 2)
        add(3, "q3", "all", 8)
        for p in range(4, 11):
            add(p, "qhi", "q2", 60)
    else:
        add(1, "t13", "all", 1)
        add(2, "t13", "all", 1)
        add(3, "t13", "all", 1)
        for p in range(4, 11):
            add(p, "thi", "t6", 6)
    for p in range(1, 11):
        for L in ([2000] if quick else [2000, 5000]):
            us.append({"kind": "long", "order": p, "L": L, "seed": seed})
    us.append({"kind": "reject"})
    # size ladder around powers of two (thresholds of blocked / vectorised / fast paths), chunks of similar cost
    lad = LADDER_Q if quick else LADDER_T
    for p in LADDER_ORDERS:
        chunk, acc = [], 0
        for n in lad:
            chunk.append(n)
            acc += n
            if acc >= (2500 if quick else 4000):
                us.append({"kind": "ladder", "order": p, "ns": chunk, "seed": seed})
                chunk, acc = [], 0
        if chunk:
            us.append({"kind": "ladder", "order": p, "ns": chunk, "seed": seed})
    return us


# ---------------------------------------------------------------------------
# reference models

def fr(v):
    return None if v != v else Fraction(v)


def ref_sim(phi, e, m, ini):
    """y[t]-m = sum_k phi[k]*(y[t-k]-m) + e[t], values before the start = ini; NaN innovation = 0"""
    nz = [(k + 1, Fraction(c)) for k, c in enumerate(phi) if c != 0]
    c0 = ini - m
    cen, out = [], []
    for t, et in enumerate(e):
        acc = Fraction(0) if et is None else et
        for lag, c in nz:
            acc += c * (cen[t - lag] if t - lag >= 0 else c0)
        cen.append(acc)
        out.append(acc + m)
    return out


def ref_res(phi, y, m, ini):
    """e[t] = (y[t]-m) - sum_k phi[k]*(y[t-k]-m); a NaN input is replaced by its prediction (residual 0)"""
    nz = [(k + 1, Fraction(c)) for k, c in enumerate(phi) if c != 0]
    c0 = ini - m
    cen, out = [], []
    for t, yt in enumerate(y):
        pred = Fraction(0)
        for lag, c in nz:
            pred += c * (cen[t - lag] if t - lag >= 0 else c0)
        ct = pred if yt is None else yt - m
        cen.append(ct)
        out.append(ct - pred)
    return out


def mp_sim(phi, e, m, ini, mpm):
    c0 = mpm.mpf(ini) - mpm.mpf(m)
    ph = [mpm.mpf(c) for c in phi]
    cen, out = [], []
    for t, et in enumerate(e):
        acc = mpm.mpf(0) if et != et else mpm.mpf(et)
        for k, c in enumerate(ph):
            acc += c * (cen[t - k - 1] if t - k - 1 >= 0 else c0)
        cen.append(acc)
        out.append(acc + mpm.mpf(m))
    return out


def mp_res(phi, y, m, ini, mpm):
    c0 = mpm.mpf(ini) - mpm.mpf(m)
    ph = [mpm.mpf(c) for c in phi]
    cen, out = [], []
    for t, yt in enumerate(y):
        pred = mpm.mpf(0)
        for k, c in enumerate(ph):
            pred += c * (cen[t - k - 1] if t - k - 1 >= 0 else c0)
        ct = pred if yt != yt else mpm.mpf(yt) - mpm.mpf(m)
        cen.append(ct)
        out.append(ct - pred)
    return out


# ---------------------------------------------------------------------------
# one tuple

def enc(v):
    v = float(v)
    if v != v:
        return None
    if math.isinf(v):
        return "inf" if v > 0 else "-inf"
    return v


def dec(v):
    if v is None:
        return NAN
    if v == "inf":
        return float("inf")
    if v == "-inf":
        return float("-inf")
    return float(v)


def oclass(p):
    return str(p) if p <= 4 else "5-10"


def nanclass(x, p):
    idx = [i for i, v in enumerate(x) if v != v]
    if not idx:
        return "nonan"
    return "nan-in-first-order-steps" if min(idx) < p else "nan-later"


def first_bad(obs, exp, tol):
    """index of the first entry of obs (floats) that differs from exp (exact / mpf / None=skip)"""
    for i, (o, e) in enumerate(zip(obs, exp)):
        if e is None:
            continue
        o = float(o)
        if o != o or abs(o - float(e)) > tol:
            return i
    return None


def kwargs_of(mean, ini):
    kw = {}
    if mean is not None:
        kw["sim_mean"] = mean
    if ini is not None:
        kw["sim_ini"] = ini
    return kw


def check_tuple(ctx, AR, phi, mean, ini, x, exact=True, mpm=None):
    p = len(phi)
    L = len(x)
    case = {"kind": "grid", "phi": list(phi), "mean": mean, "ini": ini, "x": [enc(v) for v in x], "exact": bool(exact)}
    params = np.array(phi, dtype=np.float64)
    xa = np.array(x, dtype=np.float64)
    hasnan = any(v != v for v in x)
    ncl = nanclass(x, p)
    ocl = oclass(p)
    suffix = "order=%s:%s" % (ocl, ncl)
    ctx.count("class.order=%s" % ocl)
    ctx.count("class.%s" % ncl)

    # ------------------------------------------------ A, B : x as innovations
    m_eff = 0.0 if mean is None else mean
    i_eff = m_eff if ini is None else ini
    nt = L >= 1 and (i_eff != m_eff or any((v == v and v != 0) for v in x))
    if exact:
        yref = ref_sim(phi, [fr(v) for v in x], Fraction(m_eff), Fraction(i_eff))
    else:
        yref = mp_sim(phi, x, m_eff, i_eff, mpm)
    scale = max([1.0] + [abs(float(v)) for v in yref])
    tol = TOL * scale
    e0 = [0.0 if v != v else v for v in x]
    y = None
    try:
        y = AR.armodel_sim(recycle('params', params), recycle('x', xa), **kwargs_of(mean, ini))
    except Exception as e:
        ctx.case(nt, outcome="raise")
        ctx.violation("sim:raised:%s:%s" % (type(e).__name__, suffix), case, "armodel_sim raised %r on valid arguments" % (e,))
    if y is not None:
        ctx.case(nt, outcome=y.tobytes())
        if y.shape != xa.shape:
            ctx.violation("sim:shape:%s" % suffix, case, "output shape %s for input shape %s" % (y.shape, xa.shape))
            y = None
    if y is not None:
        b = first_bad(y, yref, tol)
        if b is not None:
            ctx.violation("sim:recursion:%s" % suffix, case,
                          "armodel_sim(%s, %s, %s)[%d] = %r, recursion gives %r" % (phi, case["x"], kwargs_of(mean, ini), b, float(y[b]), float(yref[b])),
                          observed=[enc(v) for v in y], expected=[float(v) for v in yref])
        if hasnan:
            # differential: NaN innovations act exactly as zeros
            try:
                y0 = AR.armodel_sim(params.copy(), np.array(e0), **kwargs_of(mean, ini))
                ctx.case(nt, outcome=y0.tobytes())
                if not np.array_equal(y0, y):
                    ctx.violation("sim:nan-innov-not-zero:%s" % suffix, case,
                                  "sim with NaN innovations %s differs from sim with zeros %s" % ([enc(v) for v in y], y0.tolist()))
            except Exception as e:
                ctx.case(nt, outcome="raise")
                ctx.violation("sim:raised:%s:%s" % (type(e).__name__, suffix), case, "armodel_sim raised %r on NaN-free innovations" % (e,))
        # B: residual(sim(e)) = e
        if not np.any(np.isnan(y)):
            try:
                r = AR.armodel_residual(recycle('params', params), recycle('x', y), sim_mean=m_eff, sim_ini=ini)
                ctx.case(nt, outcome=r.tobytes())
                b = first_bad(r, e0, tol)
                if r.shape != xa.shape:
                    ctx.violation("roundtrip:residual(sim(e)):shape:%s" % suffix, case, "shape %s" % (r.shape,))
                elif b is not None:
                    ctx.violation("roundtrip:residual(sim(e))!=e:%s" % suffix, case,
                                  "residual(sim(e))[%d] = %r, e = %r (NaN -> 0)" % (b, float(r[b]), e0[b]),
                                  observed=[enc(v) for v in r], expected=e0)
            except Exception as e:
                ctx.case(nt, outcome="raise")
                ctx.violation("residual:raised:%s:%s" % (type(e).__name__, suffix), case, "armodel_residual(sim(e)) raised %r" % (e,))

    # ------------------------------------------------ C, D : x as AR series
    fin = [v for v in x if v == v]
    if mean is None:
        if not fin:
            # nanmean undefined: executed, any behaviour accepted
            try:
                AR.armodel_residual(recycle('params', params), recycle('x', xa), sim_ini=ini)
                ctx.case(False, outcome="value")
            except Exception:
                ctx.case(False, outcome="raise")
            ctx.count("unjudged.residual.default_mean_undefined")
            return
        m_res = float(sum(Fraction(v) for v in fin) / len(fin)) if exact else float(np.mean(np.array(fin)))
        kw = {} if ini is None else {"sim_ini": ini}
    else:
        m_res = mean
        kw = kwargs_of(mean, ini)
    i_res = m_res if ini is None else ini
    nt = L >= 1 and (i_res != m_res or any(v != m_res for v in fin))
    if exact:
        rref = ref_res(phi, [fr(v) for v in x], Fraction(m_res), Fraction(i_res))
    else:
        rref = mp_res(phi, x, m_res, i_res, mpm)
    scale = max([1.0] + [abs(float(v)) for v in rref] + [abs(v) for v in fin])
    tol = TOL * scale
    try:
        r = AR.armodel_residual(recycle('params', params), recycle('x', xa), **kw)
    except Exception as e:
        ctx.case(nt, outcome="raise")
        ctx.violation("residual:raised:%s:%s" % (type(e).__name__, suffix), case, "armodel_residual raised %r on valid arguments" % (e,))
        return
    ctx.case(nt, outcome=r.tobytes())
    if r.shape != xa.shape:
        ctx.violation("residual:shape:%s" % suffix, case, "output shape %s for input shape %s" % (r.shape, xa.shape))
        return
    nanpos = [i for i, v in enumerate(x) if v != v]
    for i in nanpos:
        if not (abs(float(r[i])) <= tol):
            ctx.violation("residual:nan-input-nonzero:%s" % suffix, case,
                          "input %d is NaN but residual[%d] = %r (expected 0)" % (i, i, float(r[i])), observed=[enc(v) for v in r])
            break
    b = first_bad(r, rref, tol)
    if b is not None and b not in nanpos:
        key = "residual:recursion:%s" % suffix if not hasnan else "residual:after-nan-input:%s" % suffix
        ctx.violation(key, case,
                      "armodel_residual(%s, %s, %s)[%d] = %r, inverse recursion gives %r" % (phi, case["x"], kw, b, float(r[b]), float(rref[b])),
                      observed=[enc(v) for v in r], expected=[float(v) for v in rref])
    # D: sim(residual(x)) = x off the NaN positions
    if not np.any(np.isnan(r)):
        try:
            y2 = AR.armodel_sim(recycle('params', params), recycle('x', r), sim_mean=m_res, **({} if ini is None else {"sim_ini": ini}))
        except Exception as e:
            ctx.case(nt, outcome="raise")
            ctx.violation("sim:raised:%s:%s" % (type(e).__name__, suffix), case, "armodel_sim(residual(x)) raised %r" % (e,))
            return
        ctx.case(nt, outcome=y2.tobytes())
        xe = [None if v != v else v for v in x]
        tol2 = TOL * max([1.0] + [abs(v) for v in fin])
        b = first_bad(y2, xe, tol2) if y2.shape == xa.shape else 0
        if b is not None:
            ctx.violation("roundtrip:sim(residual(y))!=y:%s" % suffix, case,
                          "sim(residual(y))[%d] = %r, y = %r" % (b, float(y2[b]) if y2.shape == xa.shape else None, x[b] if L else None),
                          observed=[enc(v) for v in y2], expected=case["x"])


# ---------------------------------------------------------------------------
# unit runners

def run_grid(unit, ctx, AR):
    p = unit["order"]
    coefs = coef_vectors(p)[unit["lo"]:unit["hi"]]
    mis = MISETS[unit["mi"]]
    series = []
    for name in SERIES_SETS[unit["series"]]:
        series += list(series_set(name))
    first = True
    laid = False
    for phi in coefs:
        for mean, ini in mis:
            for x in series:
                if len(x) == 0 and mean is None:
                    # length 0 only with an explicit mean (property: same mean on both sides; nanmean of nothing is undefined)
                    continue
                if first:
                    ctx.case(False, n=0, sample={"kind": "grid", "phi": phi, "mean": mean, "ini": ini, "x": [enc(v) for v in x], "exact": True})
                    first = False
                check_tuple(ctx, AR, phi, mean, ini, x)
                if not laid and len(x) >= 2:
                    check_layouts(ctx, AR, phi, mean, ini, x)
                    laid = True


def lcg_series(seed, order, L):
    """deterministic seed-rotated series over VALS (NaN about one value in ten)"""
    s = (1103515245 * (seed * 131 + order * 17 + L) + 12345) % (2 ** 31)
    out = []
    for i in range(L):
        s = (1103515245 * s + 12345) % (2 ** 31)
        k = (s >> 16) % 10
        out.append([-1.0, 0.0, 0.5, 2.0, -1.0, 0.5, 2.0, 0.0, 0.5, NAN][k])
    return out


def long_phi(seed, order):
    return [(-1.0 if (seed + k) % 3 == 0 else 1.0) * 2.0 ** -(k + 1) for k in range(order)]


def run_long(unit, ctx, AR):
    import mpmath
    mpmath.mp.dps = 50
    p, L, seed = unit["order"], unit["L"], unit["seed"]
    phi = long_phi(seed, p)
    x = lcg_series(seed, p, L)
    ctx.case(False, n=0, sample={"kind": "long", "order": p, "L": L, "seed": seed})
    for mean, ini in ((1.5, -2.0), (None, None)):
        check_tuple(ctx, AR, phi, mean, ini, x, exact=False, mpm=mpmath)
    check_layouts(ctx, AR, phi, 1.5, -2.0, x)
    ctx.count("long.series")


# ---------------------------------------------------------------------------
# size ladder and layout variants

def ladder_phis(seed, order):
    dense = long_phi(seed, order)
    return [dense, [0.0] * (order - 1) + [-0.75 if dense[-1] > 0 else 0.75]]


def ladder_series(kind, L, order):
    """structured series of length L (>= 7):
    dy   : dyadic ramp 0.5, 0, 2, -1, ... with NaN inside the first `order` steps, in the middle and at the end
    int  : integer-valued, NaN-free (1, 0, 4, -2, ...)
    fine : ramp + k_i * 2^-36 with k_i = (40503 i mod 65536) + 1, NaN-free: exact in float64 and in Fractions, while a
           float32 intermediate changes the values by up to 1e-7 (well above the tolerance)"""
    b = base_series(L, "ramp")
    if kind == "dy":
        for i in (min(order - 1, L - 3), L // 2, L - 1):
            b[i] = NAN
        return b
    if kind == "int":
        return [2.0 * v for v in b]
    if kind == "fine":
        return [v + ((i * 40503) % 65536 + 1) * 2.0 ** -36 for i, v in enumerate(b)]
    raise ValueError(kind)


def nan_equal_close(a, b, tol):
    a = np.asarray(a, dtype=np.float64)
    b = np.asarray(b, dtype=np.float64)
    if a.shape != b.shape:
        return False
    na, nb = np.isnan(a), np.isnan(b)
    if not np.array_equal(na, nb):
        return False
    return bool(np.all(np.abs(a[~na] - b[~nb]) <= tol))


def series_layouts(xa):
    """[(name, array holding exactly the values of xa in another dtype / memory layout)]"""
    L = len(xa)
    out = []
    with np.errstate(all="ignore"):
        f32 = xa.astype(np.float32)
    if nan_equal_close(f32.astype(np.float64), xa, 0.0):
        out.append(("float32", f32))
    if L and not np.any(np.isnan(xa)) and np.all(np.abs(xa) < 2.0 ** 53) and np.all(xa == np.round(xa)):
        out.append(("int64", xa.astype(np.int64)))
    big = np.full(2 * L + 1, 7.25)
    big[1::2] = xa
    out.append(("strided", big[1::2]))
    rev = xa[::-1].copy()
    out.append(("negative-stride", rev[::-1]))
    m2 = np.full((L, 3), -3.5)
    m2[:, 1] = xa
    out.append(("column-of-2d", m2[:, 1]))
    ro = xa.copy()
    ro.flags.writeable = False
    out.append(("read-only", ro))
    return out


def params_layouts(phi):
    pa = np.array(phi, dtype=np.float64)
    p = len(pa)
    out = []
    f32 = pa.astype(np.float32)
    if np.array_equal(f32.astype(np.float64), pa):
        out.append(("params-float32", f32))
    if np.all(pa == np.round(pa)):
        out.append(("params-int64", pa.astype(np.int64)))
    big = np.full(3 * p, 0.125)
    big[::3] = pa
    out.append(("params-strided", big[::3]))
    ro = pa.copy()
    ro.flags.writeable = False
    out.append(("params-read-only", ro))
    out.append(("params-list", [float(v) for v in phi]))
    return out


def check_layouts(ctx, AR, phi, mean, ini, x):
    """differential: the same values in another dtype / memory layout give the result of the float64 C-contiguous call"""
    case = {"kind": "layout", "phi": list(phi), "mean": mean, "ini": ini, "x": [enc(v) for v in x]}
    xa = np.array(x, dtype=np.float64)
    pa = np.array(phi, dtype=np.float64)
    fin = [v for v in x if v == v]
    scale = max([1.0] + [abs(v) for v in fin] + [abs(mean or 0.0), abs(ini or 0.0)])
    for fname in ("sim", "residual"):
        fn = AR.armodel_sim if fname == "sim" else AR.armodel_residual
        if fname == "residual" and mean is None and not fin:
            continue
        kw = kwargs_of(mean, ini)
        try:
            base = fn(pa.copy(), xa.copy(), **kw)
        except Exception:
            ctx.count("layout.base_call_raised")     # reported by check_tuple
            continue
        bscale = max([scale] + [abs(float(v)) for v in base if v == v])
        variants = [(name, pa.copy(), arr) for name, arr in series_layouts(xa)]
        variants += [(name, par, xa.copy()) for name, par in params_layouts(phi)]
        for name, par, arr in variants:
            tol = TOL * bscale
            if name == "float32" and fname == "residual" and mean is None:
                tol = 1e-5 * bscale        # numpy.nanmean of a float32 array is evaluated in float32
            try:
                r = fn(par, arr, **kw)
            except Exception as e:
                ctx.case(True, outcome="raise:" + name)
                ctx.count("layout.rejected.%s:%s" % (fname, name))
                continue
            r = np.asarray(r)
            ctx.case(True, outcome=r.tobytes())
            ctx.count("layout.judged.%s" % name)
            if np.array_equal(np.asarray(r, dtype=np.float64), base, equal_nan=True):
                ctx.count("layout.bitwise_equal")
            if r.shape != base.shape or not nan_equal_close(r, base, tol):
                bad = None
                if r.shape == base.shape:
                    d = np.abs(np.asarray(r, dtype=np.float64) - base)
                    d[np.isnan(d)] = np.inf
                    d[np.isnan(base) & np.isnan(np.asarray(r, dtype=np.float64))] = 0.0
                    bad = int(np.argmax(d > tol))
                ctx.violation("%s:layout=%s" % (fname, name), case,
                              "armodel_%s(phi=%s, n=%d, %s) with the %s given as %s: %s" % (
                                  fname, list(phi), len(x), kwargs_of(mean, ini),
                                  "parameters" if name.startswith("params") else "series", name,
                                  "shape %s, the float64 C-contiguous call gives shape %s" % (r.shape, base.shape) if bad is None else
                                  "[%d] = %r, the float64 C-contiguous call gives %r" % (bad, float(r[bad]), float(base[bad]))),
                              observed=[enc(v) for v in np.asarray(r, dtype=np.float64).ravel()[:50]],
                              expected=[enc(v) for v in base.ravel()[:50]])


def run_ladder(unit, ctx, AR):
    p, seed = unit["order"], unit["seed"]
    first = True
    mpm = None
    for L in unit["ns"]:
        exact = L <= LADDER_EXACT_MAX
        if not exact and mpm is None:
            import mpmath
            mpmath.mp.dps = 50
            mpm = mpmath
        for phi in ladder_phis(seed, p):
            for kind in LADDER_SERIES:
                x = ladder_series(kind, L, p)
                for mean, ini in ((1.5, -2.0), (None, None)):
                    if first:
                        ctx.case(False, n=0, sample={"kind": "ladder", "order": p, "L": L, "phi": phi, "series": kind,
                                                      "mean": mean, "ini": ini, "exact": exact})
                        first = False
                    ctx.count("ladder.tuples")
                    ctx.count("ladder.n=%d" % L)
                    check_tuple(ctx, AR, phi, mean, ini, x, exact=exact, mpm=mpm)
                    check_layouts(ctx, AR, phi, mean, ini, x)


def reject_cases():
    out = []
    for fn in ("armodel_sim", "armodel_residual"):
        for n in (0, 11, 12):
            out.append({"kind": "reject", "fn": fn, "what": "order=%d" % n, "phi": [0.25] * n, "mean": 0.0, "ini": 0.0})
        # orders above 10 whose vector is padded with exact zeros (the order is the length of the vector)
        for n in (11, 12, 15):
            for what, phi in (("zeros", [0.0] * n), ("lag1-then-zeros", [0.7] + [0.0] * (n - 1)),
                              ("ten-lags-then-zeros", [0.05] * 10 + [0.0] * (n - 10)), ("zeros-then-last-lag", [0.0] * (n - 1) + [0.25]),
                              ("negative-zeros", [0.25] * 10 + [-0.0] * (n - 10))):
                out.append({"kind": "reject", "fn": fn, "what": "order=%d:%s" % (n, what), "phi": phi, "mean": 0.0, "ini": 0.0})
        for p in range(1, 11):
            for pos in sorted(set([0, p // 2, p - 1])):
                phi = [0.25] * p
                phi[pos] = None
                out.append({"kind": "reject", "fn": fn, "what": "nan-coefficient", "phi": phi, "mean": 0.0, "ini": 0.0})
        out.append({"kind": "reject", "fn": fn, "what": "nan-mean", "phi": [0.25, 0.5], "mean": None, "ini": 0.0})
        out.append({"kind": "reject", "fn": fn, "what": "nan-ini", "phi": [0.25, 0.5], "mean": 0.0, "ini": None})
        out.append({"kind": "reject", "fn": fn, "what": "nan-mean", "phi": [0.5], "mean": None, "ini": None})
    return out


def check_reject(ctx, AR, case):
    fn = getattr(AR, case["fn"])
    phi = np.array([NAN if v is None else v for v in case["phi"]], dtype=np.float64)
    mean = NAN if case["mean"] is None else case["mean"]
    kw = {"sim_mean": mean}
    if not (case["ini"] is None and case["what"] == "nan-mean"):
        kw["sim_ini"] = NAN if case["ini"] is None else case["ini"]
    for x in ([], [0.5], [0.5, -1.0, 2.0, 0.0]):
        c = dict(case, x=x)
        try:
            out = fn(phi.copy(), np.array(x, dtype=np.float64), **kw)
        except Exception:
            ctx.case(True, outcome="raise")
            ctx.count("reject.%s" % case["what"].split("=")[0])
            continue
        ctx.case(True, outcome="accepted")
        ctx.violation("%s:accepted:%s" % (case["fn"].replace("armodel_", ""), case["what"]), c,
                      "%s accepted %s (params %s, %s) and returned %s" % (case["fn"], case["what"], case["phi"], kw, np.asarray(out).tolist()))
        break


def check_scalar(ctx, AR):
    """a float parameter = an order-1 vector (documented)"""
    e = np.array([0.5, -1.0, NAN, 2.0])
    for c in COEF:
        for fn in (AR.armodel_sim, AR.armodel_residual):
            case = {"kind": "scalar", "coef": c, "fn": fn.__name__}
            try:
                a = fn(c, e.copy(), sim_mean=1.5, sim_ini=-2.0)
                b = fn(np.array([c]), e.copy(), sim_mean=1.5, sim_ini=-2.0)
            except Exception as ex:
                ctx.case(True, outcome="raise")
                ctx.violation("%s:scalar-parameter:raised" % fn.__name__, case, "raised %r" % (ex,))
                continue
            ctx.case(True, outcome=a.tobytes())
            if not np.array_equal(a, b):
                ctx.violation("%s:scalar-parameter:differs" % fn.__name__, case, "%s vs %s" % (a.tolist(), b.tolist()))


def run_reject(unit, ctx, AR):
    cases = reject_cases()
    ctx.case(False, n=0, sample=cases[0])
    for c in cases:
        check_reject(ctx, AR, c)
    check_scalar(ctx, AR)


def run_unit(unit, ctx):
    from hydrodiy.stat import armodels as AR
    k = unit["kind"]
    if k == "grid":
        run_grid(unit, ctx, AR)
    elif k == "long":
        run_long(unit, ctx, AR)
    elif k == "reject":
        run_reject(unit, ctx, AR)
    elif k == "ladder":
        run_ladder(unit, ctx, AR)
    else:
        raise ValueError("unknown unit kind %r" % k)


def replay(case):
    from mc.explore import Result
    from hydrodiy.stat import armodels as AR
    import warnings
    warnings.simplefilter("ignore")
    np.seterr(all="ignore")
    ctx = Result()
    k = case["kind"]
    if k == "grid":
        x = [dec(v) for v in case["x"]]
        if case.get("exact", True):
            check_tuple(ctx, AR, case["phi"], case["mean"], case["ini"], x)
        else:
            import mpmath
            mpmath.mp.dps = 50
            check_tuple(ctx, AR, case["phi"], case["mean"], case["ini"], x, exact=False, mpm=mpmath)
    elif k == "layout":
        check_layouts(ctx, AR, case["phi"], case["mean"], case["ini"], [dec(v) for v in case["x"]])
    elif k == "reject":
        check_reject(ctx, AR, {kk: v for kk, v in case.items() if kk != "x"})
    elif k == "scalar":
        check_scalar(ctx, AR)
    else:
        raise ValueError("unknown case kind %r" % k)
    return [v for lst in ctx.violations.values() for v in lst]
