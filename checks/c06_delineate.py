"""C06 - catchment delineation is exactly upstream reachability on the flow grid.

The flow grid is the transition system (cell -> downstream cell); every grid of
the stated shapes over the stated code alphabet is enumerated, and on each one
every outlet, every inlet set up to the stated size and every river start is run
on the real Catchment / delineate_river code and compared with the reference
model in checks/_flow.py.
"""
import itertools, math
import numpy as np
from checks import _flow
from checks._flow import FlowModel, SQRT2

ID = "C06"
# computational entry points whose results are watched by the engine's retained-result oracle (mc/explore.py)
RETAIN = [('hydrodiy.gis.grid', 'Catchment.upstream'), ('hydrodiy.gis.grid', 'Catchment.downstream'), ('hydrodiy.gis.grid', 'delineate_river')]
SUPERVISED = True
CASE_TIMEOUT = 30.0
RULE = ("every flow-direction grid of the listed shapes over the code alphabet "
        "{0, 8 ESRI codes, a small invalid code, an invalid code beyond 2^32 whose low 32 bits are a valid code} (reduced per-cell alphabets where stated), and on each grid every "
        "cell as outlet x every inlet set up to the stated size x every river start, executed on the real "
        "Catchment.downstream/upstream/delineate_area/compute_flowpathlengths and delineate_river and compared "
        "with an independent chain-walking model; larger shapes with <=2 cell deviations from 3 base fields. "
        "evaluations = kernel-reaching calls judged; a grid (state) is non-trivial when at least one cell drains "
        "into another cell; states = grids, transitions = downstream edges compared, traces = chains (rivers, "
        "flow paths) walked on the implementation and compared with the model. Grids are generated once each.")
ASSUMPTIONS = [
    "inlet cells themselves are excluded from the area (pinned by the repository's own test_delineate_area)",
    "the flow-path length reported for the outlet cell itself is not judged (property silent)",
    "outlets lying on a flow cycle: any ValueError or any terminating result is accepted (property: error or bounded result, never a hang); hang = no answer within CASE_TIMEOUT per grid",
    "invalid codes may map to any negative downstream code",
]
LEVEL_NOTE = ("Trusted: the 60-line chain-walking reference model (checks/_flow.py) with its own ESRI table; "
              "grids beyond the stated shapes/deviation bound are not covered.")


def bound_text(tier, seed):
    if tier == "quick":
        return ("all grids 1x1..1x3, 2x1, 3x1, 2x2 over 11 codes and all 1x4/4x1 grids over the reduced alphabet, every outlet, "
                "inlet sets <=2 (<=1 for 4-cell strips), every river start; 2x3 and 3x3 with <=2 deviations from the converging field; "
                "1x8, 2x5, 4x4 with <=1 deviation from 3 base fields")
    return ("all grids with <=5 cells over 11 codes (inlet sets <=2); all 2x3/3x2 grids over the reduced alphabet (inlet sets <=1); "
            "all 3x3 grids over {in-grid dirs, sink} (relations and areas only, no inlets, every outlet); 1x8, 8x1, 2x5, 4x4 with <=2 deviations from 3 base fields")


def units(tier, seed):
    small = [((1, 1), "full"), ((1, 2), "full"), ((2, 1), "full"), ((1, 3), "full"),
             ((3, 1), "full"), ((1, 4), "full"), ((4, 1), "full"), ((2, 2), "full")]
    us = []
    if tier == "quick":
        qsmall = [(sh, "reduced" if sh in ((1, 4), (4, 1)) else md) for sh, md in small]
        for u in _flow.shape_units(qsmall, seed, target=400):
            u["maxinlets"] = 2 if (u["shape"][0] * u["shape"][1] <= 3 or u["shape"] == [2, 2]) else 1
            us.append(u)
        for shape in ((1, 8), (2, 5), (4, 4)):
            for b in ("east", "converge", "snake"):
                us.append({"kind": "dev", "shape": list(shape), "base": b, "maxdev": 1,
                           "seed": seed, "maxinlets": 1})
        us.append({"kind": "dev", "shape": [2, 3], "base": "converge", "maxdev": 2, "seed": seed, "maxinlets": 1})
        # a pit receiving from all 8 neighbours (3x3) / a pit basin (5x5, 4x5): <= 1 deviation
        for shape in ((3, 3), (5, 5), (4, 5)):
            us.append({"kind": "dev", "shape": list(shape), "base": "pit", "maxdev": 1, "seed": seed,
                       "maxinlets": 1 if shape == (3, 3) else 0})
        # serpentine rivers longer than the grid perimeter (4x5, 5x5, 3x9)
        for shape in ((4, 5), (5, 5), (3, 9)):
            us.append({"kind": "dev", "shape": list(shape), "base": "snake", "maxdev": 1, "seed": seed, "maxinlets": 0})
        us.append({"kind": "dev", "shape": [3, 3], "base": "converge", "maxdev": 2, "seed": seed, "maxinlets": 1, "part": [0, 4]})
        us.append({"kind": "dev", "shape": [3, 3], "base": "converge", "maxdev": 2, "seed": seed, "maxinlets": 1, "part": [1, 4]})
        us.append({"kind": "dev", "shape": [3, 3], "base": "converge", "maxdev": 2, "seed": seed, "maxinlets": 1, "part": [2, 4]})
        us.append({"kind": "dev", "shape": [3, 3], "base": "converge", "maxdev": 2, "seed": seed, "maxinlets": 1, "part": [3, 4]})
        us += mixed_units(tier, seed)
        us += [{"kind": "strip", "n": n, "seed": seed, "maxinlets": 1} for n in STRIP_SIZES_QUICK]
        # dense range: every strip length 5..48
        us += [{"kind": "strip", "n": n, "seed": seed, "maxinlets": 1} for n in range(5, 49) if n not in STRIP_SIZES_QUICK]
    else:
        us += mixed_units(tier, seed)
        us += [{"kind": "strip", "n": n, "seed": seed, "maxinlets": 1} for n in STRIP_SIZES_THOROUGH]
        us += [{"kind": "strip", "n": n, "seed": seed, "maxinlets": 1} for n in range(5, 131) if n not in STRIP_SIZES_THOROUGH]
        for u in _flow.shape_units(small + [((1, 5), "full"), ((5, 1), "full")], seed, target=400):
            u["maxinlets"] = 2
            us.append(u)
        for u in _flow.shape_units([((2, 3), "reduced"), ((3, 2), "reduced")], seed, target=600):
            u["maxinlets"] = 1
            us.append(u)
        for u in _flow.shape_units([((3, 3), "ingrid")], seed, target=6000):
            u["maxinlets"] = 0
            u["light"] = True       # relations + areas only (3 million grids): flow paths and rivers are
            us.append(u)            # covered on all grids <= 6 cells and on the deviation families
        for shape in ((3, 3), (5, 5), (4, 5), (3, 9)):
            for b in ("pit", "snake"):
                for p in range(4):
                    us.append({"kind": "dev", "shape": list(shape), "base": b, "maxdev": 2 if shape == (3, 3) else 1,
                               "seed": seed, "maxinlets": 1, "part": [p, 4]})
        for shape in ((1, 8), (8, 1), (2, 5), (4, 4)):
            for b in ("east", "converge", "snake"):
                nparts = 8 if shape == (4, 4) else 4
                for p in range(nparts):
                    us.append({"kind": "dev", "shape": list(shape), "base": b, "maxdev": 2,
                               "seed": seed, "maxinlets": 1 if shape != (4, 4) else 0, "part": [p, nparts]})
    return us


STRIP_TAG = {}
STRIP_SIZES_QUICK = [8, 16, 17, 64, 255, 256, 257, 300]
STRIP_SIZES_THOROUGH = STRIP_SIZES_QUICK + [1000, 4097]


def strip_codes(n, horizontal, field, dev):
    """long one-row / one-column grids: all cells flow to the far end (east / south) or away from it (west /
    north), optionally with one deviation (a sink or an invalid code in the middle)"""
    fwd, back = (1, 16) if horizontal else (4, 64)
    codes = [fwd if field == "fwd" else back] * n
    if dev == "sink-mid":
        codes[n // 2] = 0
    elif dev == "invalid-mid":
        codes[n // 2] = 3
    elif dev == "cycle-end":
        if n >= 2:
            codes[n - 1] = back if field == "fwd" else fwd
            codes[0] = fwd if field == "fwd" else back
    return codes


def strip_outlets(n):
    return sorted(set([0, 1, n // 2, n - 2, n - 1]) & set(range(n)))


MIXED_PAIRS_QUICK = [((1, 1), (2, 1)), ((2, 1), (3, 1)), ((1, 2), (2, 2)), ((1, 3), (3, 3))]
MIXED_PAIRS_THOROUGH = MIXED_PAIRS_QUICK + [((1, 2), (3, 2)), ((1, 3), (2, 3)), ((2, 2), (3, 2)), ((2, 3), (3, 3))]


def mixed_units(tier, seed):
    """grids of two shapes with the same number of columns processed alternately in one process:
    state kept between kernel calls (statics, caches keyed on part of the arguments) shows up here"""
    us = []
    for a, b in (MIXED_PAIRS_QUICK if tier == "quick" else MIXED_PAIRS_THOROUGH):
        if b == (3, 3):
            # 3x3: <= 2 deviations from the converging field, split in parts
            for part in range(4):
                us.append({"kind": "mixed", "shape": list(b), "prevshape": list(a), "mode": "dev", "part": [part, 4],
                           "seed": seed, "maxinlets": 0})
            continue
        for u in _flow.shape_units([(b, "reduced")], seed, target=700):
            u["kind"] = "mixed"
            u["prevshape"] = list(a)
            u["maxinlets"] = 0
            us.append(u)
    return us


def prev_grids(shape, seed):
    """endless cycle over every full-alphabet grid of the (small) previous shape"""
    nr, nc = shape
    alph = _flow.cell_alphabets(nr, nc, "reduced", seed)
    while True:
        for g in itertools.product(*alph):
            yield list(g)


def unit_grids(unit):
    if unit["kind"] == "mixed":
        if unit.get("mode") == "dev":
            nr, nc = unit["shape"]
            part = unit["part"]
            for i, g in enumerate(_flow.deviation_grids(nr, nc, "converge", 2, unit["seed"])):
                if i % part[1] == part[0]:
                    yield g
        else:
            u2 = dict(unit, kind="grids")
            for g in _flow.grids_of_unit(u2):
                yield g
        return
    if unit["kind"] == "grids":
        for g in _flow.grids_of_unit(unit):
            yield g
    else:
        nr, nc = unit["shape"]
        part = unit.get("part")
        for i, g in enumerate(_flow.deviation_grids(nr, nc, unit["base"], unit["maxdev"], unit["seed"])):
            if part and i % part[1] != part[0]:
                continue
            yield g


_CACHE = {}


def get_objects(nrows, ncols):
    key = (nrows, ncols)
    if key not in _CACHE:
        from hydrodiy.gis.grid import Grid, Catchment
        fd = Grid("fd", ncols, nrows, dtype=np.int64, cellsize=2.0, xllcorner=10.0, yllcorner=-4.0)
        ca = Catchment("c", fd)
        _CACHE[key] = (fd, ca)
    return _CACHE[key]


def inlet_sets(ntot, outlet, maxinlets):
    others = [c for c in range(ntot) if c != outlet]
    yield None
    for k in range(1, maxinlets + 1):
        for s in itertools.combinations(others, k):
            yield list(s)


def check_dtypes(ctx, nrows, ncols, codes, base, outlets):
    """differential: the same codes held by a flow-direction grid of another dtype give the same relations,
    areas and rivers as the int64 grid"""
    from hydrodiy.gis.grid import Grid, Catchment, delineate_river
    ntot = nrows * ncols
    arr = np.array(codes, dtype=np.int64).reshape(nrows, ncols)
    allc = np.arange(ntot)
    outs = list(range(ntot)) if outlets is None else list(outlets)

    def observe(dt):
        fd = Grid("fd", ncols, nrows, dtype=dt, cellsize=2.0, xllcorner=10.0, yllcorner=-4.0)
        fd.data = arr.astype(dt)
        ca = Catchment("c", fd)
        res = [ca.downstream(allc).tolist(), np.sort(ca.upstream(allc), axis=1).tolist()]
        for o in outs:
            try:
                ca.delineate_area(o, None, nval=ntot + 3)
                res.append(sorted(int(v) for v in ca.idxcells_area))
            except ValueError:
                res.append("ValueError")
            try:
                res.append([int(v) for v in delineate_river(fd, o, nval=ntot + 3)["idxcell"].values])
            except ValueError:
                res.append("ValueError")
        return res
    try:
        ref = observe(np.int64)
    except Exception:
        return
    dts = [("int32", np.int32), ("float64", np.float64)]
    if all(0 <= c <= 255 for c in codes):
        dts.append(("uint8", np.uint8))
    if all(-2 ** 15 <= c < 2 ** 15 for c in codes):
        dts.append(("int16", np.int16))
    for name, dt in dts:
        if not all(np.array(codes, dtype=np.int64).astype(dt).astype(np.int64).tolist()[i] == codes[i] for i in range(ntot)):
            continue        # the codes are not representable in this dtype
        case = dict(base, flowdir_dtype=name)
        try:
            obs = observe(dt)
        except Exception as e:
            ctx.case(True, outcome="raise")
            ctx.count("dtype.rejected.%s.%s" % (name, type(e).__name__))
            continue
        ctx.case(True, outcome=name)
        ctx.count("dtype.accepted.%s" % name)
        if obs != ref:
            k = next(i for i, (a, b) in enumerate(zip(obs, ref)) if a != b)
            ctx.violation("flowdir-dtype=%s:differs" % name, case,
                          "the same codes in a %s flow direction grid give different results (item %d): %r vs int64 %r" % (name, k, obs[k], ref[k]))


def check_grid(ctx, nrows, ncols, codes, maxinlets, default_nval=False, light=False, prev=None, outlets=None, dtypes=False):
    from hydrodiy.gis.grid import delineate_river
    ntot = nrows * ncols
    m = FlowModel(nrows, ncols, codes)
    fd, ca = get_objects(nrows, ncols)
    arr = np.array(codes, dtype=np.int64).reshape(nrows, ncols)
    fd.data = arr
    ca.flowdir.data = arr
    base = {"shape": [nrows, ncols], "codes": list(codes), "maxinlets": maxinlets}
    if outlets is not None:
        base["outlets"] = list(outlets)
        if ntot > 64:
            # long grids: the case stores the generator, not thousands of codes
            base["codes"] = None
            base["strip"] = STRIP_TAG.get("current")
    if prev is not None:
        base["prev"] = prev         # the grid (of another shape) that was processed just before in this process
    nontriv = any(d >= 0 for d in m.down)
    ctx.states += 1
    allc = np.arange(ntot)
    if dtypes or base.get("flowdir_dtype"):
        check_dtypes(ctx, nrows, ncols, codes, dict(base, flowdir_dtype=True), outlets)

    # ---- downstream / upstream relations
    try:
        down = ca.downstream(allc)
        up = ca.upstream(allc)
    except Exception as e:
        ctx.case(nontriv)
        ctx.violation("relations:raised", base, "downstream/upstream raised %r on valid cells" % (e,))
        return
    ctx.case(nontriv, outcome=down.tobytes() + up.tobytes(), n=2)
    for c in range(ntot):
        md, od = m.down[c], int(down[c])
        ctx.transitions += 1
        if md == -3:
            ok = od < 0
        else:
            ok = (od == md)
        if not ok:
            kind = {-2: "sink", -1: "offgrid", -3: "invalid"}.get(md, "cell")
            ctx.violation("downstream:%s" % kind, base, "downstream(%d) = %d, model %d (code %d)" % (c, od, md, codes[c]),
                          observed=down.tolist(), expected=m.down)
        ou = [int(v) for v in up[c] if v >= 0]
        pad = [int(v) for v in up[c] if v < 0]
        if sorted(ou) != sorted(m.up[c]) or len(set(ou)) != len(ou) or any(v != -1 for v in pad) or up.shape[1] != 9:
            ctx.violation("upstream:set", base, "upstream(%d) = %s, model %s" % (c, up[c].tolist(), sorted(m.up[c])),
                          observed=up[c].tolist(), expected=sorted(m.up[c]))

    # ---- the same relations asked for a vector of cells in another order, with a repeated cell: row i answers cell i
    if ntot >= 3:
        st = next(k for k in (2, 3, 5, 7, 11, 13) if ntot % k != 0) if ntot > 3 else 2
        perm = [(i * st + 1) % ntot for i in range(ntot)] + [0, ntot - 1, 0]
        try:
            down_p = ca.downstream(np.array(perm))
            up_p = ca.upstream(np.array(perm))
            ctx.case(nontriv, n=2)
            if down_p.tolist() != down[perm].tolist():
                ctx.violation("downstream:vector-order", base, "downstream(%s) = %s, cell by cell %s" % (perm, down_p.tolist(), down[perm].tolist()))
            if np.sort(up_p, axis=1).tolist() != np.sort(up[perm], axis=1).tolist():
                ctx.violation("upstream:vector-order", base, "upstream(%s): rows do not answer the requested cells in their order: %s, cell by cell %s" % (
                    perm, up_p.tolist(), up[perm].tolist()))
        except Exception as e:
            ctx.case(nontriv)
            ctx.violation("relations:raised:vector-order", base, "downstream/upstream raised %r on a permuted vector of valid cells" % (e,))

    # ---- areas, filled areas, flow path lengths
    for outlet in (range(ntot) if outlets is None else outlets):
        oncycle = m.on_cycle(outlet)
        if not oncycle:
            # an inlet list that names a cell twice, with another inlet in between: the same area as without the repeat
            cand = [c for c in m.area(outlet, ()) if c != outlet][:3]
            if len(cand) >= 2:
                a, b = cand[0], cand[1]
                for rep in ([a, b, a], [b, a, b, a]):
                    case = dict(base, outlet=outlet, inlets=rep)
                    try:
                        ca.delineate_area(outlet, rep, nval=ntot + 3)
                        got = sorted(int(v) for v in ca.idxcells_area)
                        ctx.case(nontriv, outcome=(outlet, tuple(got), "rep"))
                        if got != m.area(outlet, (a, b)):
                            ctx.violation("delineate_area:area:repeated-inlets", case,
                                          "outlet %d inlets %s: area %s, expected %s (the area cut at inlets %s)" % (
                                              outlet, rep, got, m.area(outlet, (a, b)), sorted(set(rep))))
                    except Exception as e:
                        ctx.case(nontriv)
                        ctx.count("area.repeated_inlets.raised.%s" % type(e).__name__)
        for inlets in inlet_sets(ntot, outlet, maxinlets):
            case = dict(base, outlet=outlet, inlets=inlets)
            nval = ntot + 3
            try:
                if default_nval and inlets is None:
                    ca.delineate_area(outlet, inlets)
                else:
                    ca.delineate_area(outlet, inlets, nval=nval)
                area = [int(v) for v in ca.idxcells_area]
                filled = [int(v) for v in ca.idxcells_area_filled]
                err = None
            except ValueError as e:
                err = e
            except Exception as e:
                ctx.case(nontriv)
                ctx.violation("delineate_area:wrong-exception", case, "raised %r" % (e,))
                continue
            if oncycle:
                ctx.case(nontriv, outcome="cycle-err" if err else "cycle-res")
                ctx.count("area.outlet_on_cycle.error" if err else "area.outlet_on_cycle.result")
                continue
            if err is not None:
                ctx.case(nontriv)
                ctx.violation("delineate_area:raised", case, "raised %r although the outlet is not on a cycle" % (err,))
                continue
            exp = m.area(outlet, inlets or ())
            ctx.case(nontriv, outcome=(outlet, tuple(sorted(area))))
            if exp:
                ctx.count("area.nonempty")
            else:
                ctx.count("area.empty")
            if inlets and exp != m.area(outlet, ()):
                ctx.count("area.inlet_cuts")
            if sorted(area) != exp:
                sub = "inlets" if inlets else "noinlets"
                if len(set(area)) != len(area):
                    sub += ":duplicates"
                ctx.violation("delineate_area:set:%s" % sub, case, "idxcells_area %s != model %s" % (sorted(area), exp),
                              observed=sorted(area), expected=exp)
                continue
            if not set(area) <= set(filled) or len(set(filled)) != len(filled) or any(v < 0 or v >= ntot for v in filled):
                ctx.violation("delineate_area:filled", case, "filled area %s does not contain area %s (or has duplicates/invalid cells)" % (filled, area))
            if light:
                continue
            # flow path lengths
            try:
                ca.compute_flowpathlengths()
                fp = ca.flowpathlengths.values
            except Exception as e:
                ctx.case(nontriv)
                ctx.violation("flowpathlengths:raised", case, "compute_flowpathlengths raised %r" % (e,))
                continue
            ctx.case(nontriv and bool(exp), outcome=fp.tobytes())
            if fp.shape != (len(area), 3):
                ctx.violation("flowpathlengths:shape", case, "shape %s for %d area cells" % (fp.shape, len(area)))
                continue
            for i, c in enumerate(area):
                if int(fp[i, 0]) != c:
                    ctx.violation("flowpathlengths:start", case, "row %d start %r != area cell %d" % (i, fp[i, 0], c))
                    continue
                if c == outlet:
                    ctx.count("unjudged.flowpath_of_outlet")
                    continue
                no, nd = m.path_to(c, outlet)
                ctx.traces += 1
                explen = no + nd * SQRT2
                if int(fp[i, 1]) != outlet or abs(fp[i, 2] - explen) > 1e-9:
                    sub = "diag" if nd else "orth"
                    ctx.violation("flowpathlengths:length:%s:ncols=%s" % (sub, "2" if ncols == 2 else ("1" if ncols == 1 else "n")), case,
                                  "cell %d -> outlet %d: end %r length %r, model end %d length %r (%d orth + %d diag)" % (
                                      c, outlet, fp[i, 1], fp[i, 2], outlet, explen, no, nd),
                                  observed=fp[i].tolist(), expected=[c, outlet, explen])

    if light:
        return
    # ---- river traces
    xll, yll, csz = 10.0, -4.0, 2.0
    for start in (range(ntot) if outlets is None else outlets):
        case = dict(base, river_start=start)
        nval = ntot + 3
        try:
            df = delineate_river(fd, start, nval=nval)
        except Exception as e:
            ctx.case(nontriv)
            ctx.violation("delineate_river:raised", case, "raised %r" % (e,))
            continue
        cells, cyc = m.chain(start)
        if cyc:
            # keep walking round the cycle up to nval points
            full, c = [], start
            while len(full) < nval:
                full.append(c)
                c = m.down[c]
            cells = full
            ctx.count("river.cyclic")
        ctx.traces += 1
        obs = [int(v) for v in df["idxcell"].values]
        ctx.case(nontriv, outcome=tuple(obs))
        if obs != cells:
            ctx.violation("delineate_river:cells", case, "river cells %s != chain %s" % (obs, cells), observed=obs, expected=cells)
            continue
        dist = 0.0
        dfv = df[["dist", "dx", "dy", "x", "y"]].values
        for i, c in enumerate(cells):
            r, k = divmod(c, ncols)
            if i == 0:
                edx = edy = 0.0
            else:
                pr, pk = divmod(cells[i - 1], ncols)
                edx, edy = float(pk - k), float(pr - r)
                dist += math.sqrt(edx * edx + edy * edy)
            ex = xll + csz * (k + 0.5)
            ey = yll + csz * (nrows - 1 - r + 0.5)
            row = dict(zip(("dist", "dx", "dy", "x", "y"), dfv[i]))
            if abs(row["dist"] - dist) > 1e-9:
                diag = (i > 0 and edx != 0 and edy != 0)
                ctx.violation("delineate_river:dist:%s" % ("diag" if diag else "orth"), case,
                              "point %d: dist %r != %r" % (i, row["dist"], dist))
                break
            if row["dx"] != edx or row["dy"] != edy:
                ctx.violation("delineate_river:dxdy", case, "point %d: (dx,dy)=(%r,%r) != (%r,%r)" % (i, row["dx"], row["dy"], edx, edy))
                break
            if abs(row["x"] - ex) > 1e-9 or abs(row["y"] - ey) > 1e-9:
                ctx.violation("delineate_river:xy", case, "point %d: (x,y)=(%r,%r) != centre (%r,%r)" % (i, row["x"], row["y"], ex, ey))
                break


def strip_cases(n):
    for horizontal in (True, False):
        for field in ("fwd", "back"):
            for dev in ("none", "sink-mid", "invalid-mid", "cycle-end"):
                yield horizontal, field, dev


def run_unit(unit, ctx):
    if unit["kind"] == "strip":
        n = unit["n"]
        for i, (horizontal, field, dev) in enumerate(strip_cases(n)):
            if not ctx.sup.begin(i):
                continue
            codes = strip_codes(n, horizontal, field, dev)
            nr, nc = (1, n) if horizontal else (n, 1)
            STRIP_TAG["current"] = {"n": n, "horizontal": horizontal, "field": field, "dev": dev}
            if i == 0:
                ctx.case(False, n=0, sample={"shape": [nr, nc], "strip": STRIP_TAG["current"], "outlets": strip_outlets(n)})
            ctx.count("strip_grids")
            check_grid(ctx, nr, nc, codes, 0, outlets=strip_outlets(n), dtypes=True)
            ctx.sup.end()
        return
    nrows, ncols = unit["shape"]
    first = True
    if unit["kind"] == "mixed":
        pr, pc = unit["prevshape"]
        pg = prev_grids((pr, pc), unit["seed"])
        # start the cycle at a position that depends on the unit so that units differ
        for _ in range(sum(unit.get("prefix", [])) % 17 + (unit.get("part", [0])[0])):
            next(pg)
        for i, codes in enumerate(unit_grids(unit)):
            if not ctx.sup.begin(i):
                next(pg)
                continue
            pcodes = next(pg)
            if first:
                ctx.case(False, n=0, sample={"shape": [nrows, ncols], "codes": codes, "maxinlets": 0,
                                             "prev": {"shape": [pr, pc], "codes": pcodes}})
                first = False
            # the previous grid is processed completely (its own violations are reported under its own case)
            check_grid(ctx, pr, pc, pcodes, 0)
            check_grid(ctx, nrows, ncols, codes, 0, prev={"shape": [pr, pc], "codes": pcodes})
            ctx.count("mixed_shape_grid_pairs")
            ctx.sup.end()
        return
    for i, codes in enumerate(unit_grids(unit)):
        if not ctx.sup.begin(i):
            continue
        if first:
            ctx.case(False, n=0, sample={"shape": [nrows, ncols], "codes": codes, "maxinlets": unit["maxinlets"]})
        check_grid(ctx, nrows, ncols, codes, unit["maxinlets"], default_nval=first, light=unit.get("light", False),
                   dtypes=(unit["kind"] == "dev" and i % 7 == 0))
        first = False
        ctx.sup.end()


def crash_violation(unit, idx, status, stderr):
    codes = None
    if unit["kind"] == "strip":
        cases = list(strip_cases(unit["n"]))
        h, f, d = cases[idx] if idx is not None and idx < len(cases) else (None, None, None)
        n = unit["n"]
        return ("grid:%s:strip" % ("hang" if "timeout" in status else "crash"),
                {"shape": [1, n] if h else [n, 1], "codes": None, "maxinlets": 0, "outlets": strip_outlets(n),
                 "strip": {"n": n, "horizontal": h, "field": f, "dev": d}},
                "the interpreter did not survive a %d-cell strip grid: %s" % (n, status))
    if unit["kind"] == "mixed":
        return ("grid:%s:mixed-shapes" % ("hang" if "timeout" in status else "crash"),
                {"shape": unit["shape"], "codes": None, "maxinlets": 0, "unit": unit, "index": idx},
                "the interpreter did not survive grid pair %r of a mixed-shape unit: %s" % (idx, status))
    for i, g in enumerate(unit_grids(unit)):
        if i == idx:
            codes = g
            break
    case = {"shape": unit["shape"], "codes": codes, "maxinlets": unit["maxinlets"]}
    kind = "hang" if "timeout" in status else "crash"
    return ("grid:%s" % kind, case,
            "the interpreter did not survive this grid: %s (cyclic=%s)" % (
                status, FlowModel(unit["shape"][0], unit["shape"][1], codes).has_cycle() if codes else None))


class _NoSup(object):
    def begin(self, i):
        return True

    def end(self):
        pass


def replay(case):
    from mc.explore import Result
    ctx = Result()
    nrows, ncols = case["shape"]
    if case.get("strip"):
        st = case["strip"]
        STRIP_TAG["current"] = st
        codes = strip_codes(st["n"], st["horizontal"], st["field"], st["dev"])
        check_grid(ctx, nrows, ncols, codes, 0, outlets=case.get("outlets") or strip_outlets(st["n"]), dtypes=True)
        return [v for lst in ctx.violations.values() for v in lst]
    if case.get("prev"):
        scratch = Result()
        check_grid(scratch, case["prev"]["shape"][0], case["prev"]["shape"][1], case["prev"]["codes"], 0)
        check_grid(ctx, nrows, ncols, case["codes"], case.get("maxinlets", 0), prev=case["prev"])
        return [v for lst in ctx.violations.values() for v in lst]
    check_grid(ctx, nrows, ncols, case["codes"], case.get("maxinlets", 1), dtypes=bool(case.get("flowdir_dtype")))
    return [v for lst in ctx.violations.values() for v in lst]
